#!/bin/bash
# tools/try_seed.sh <patch.diff> <Cxx> [tier] [extra args...]
# Applies a seeded breaking change to a PRIVATE copy of /repo (+ harness pointing at it), builds the
# property's monitor there and runs it. Evidence/replays go to the scratch dir. Leaves /repo alone.
set -e
patch="$(readlink -f "$1")"; id="$2"; tier="${3:-quick}"; shift 3 || shift 2
name="seedtry-$(basename "$(dirname "$patch")")-$id"
d=/tmp/scratch-$name
/verif/tools/scratch.sh "$name" >/dev/null
git -C "$d/repo" init -q 2>/dev/null || true
( cd "$d/repo" && patch -p1 --no-backup-if-mismatch < "$patch" >/dev/null ) || { echo "PATCH DOES NOT APPLY"; exit 3; }
bin=$(echo "$id" | tr 'A-Z' 'a-z')
cd "$d/harness"
CARGO_TARGET_DIR=/verif/harness/target-seedtry cargo build --release --offline --bin "$bin" 2>&1 | grep -E "^(error|warning: unused)" | head -5
case "$bin" in c02|c03) extra=c02lib;; c04|c10|c09) extra=c04npo;; *) extra=;; esac
if [ -n "$extra" ]; then CARGO_TARGET_DIR=/verif/harness/target-seedtry cargo build --release --offline --bin "$extra" 2>&1 | grep -E "^error" | head -5; fi
if [ "$bin" = "c19" ]; then CARGO_TARGET_DIR=/verif/harness/target-seedtry cargo build --offline --bin c19 2>&1 | grep -E "^error" | head; fi
set +e
P3R_VERIF_DIR=$d/out /verif/harness/target-seedtry/release/"$bin" --tier "$tier" --seed "${VERIF_SEED:-0}" "$@" 2>&1 | grep -v "^KNOWN-FINDING" | tail -6
echo "exit=${PIPESTATUS[0]} scratch=$d"
