#!/usr/bin/env python3
import json,sys,re
d=json.load(open(sys.argv[1]));print('SIG',d['signature']);x=d['detail']
print(x.get('setup'))
v=0
for i,s in enumerate(x['prog']['stmts']): print(' ',i,s)
print(' pub',x['publics'],'priv',x['privates'])
for o in x.get('ops') or []:
    o=re.sub(r'ExtField \{ value: (\[[^\]]*\]), _phantom[^}]*\}',r'\1',o)
    o=re.sub(r', _phantom: PhantomData<[^ ]* \}',' }',o)
    print('   ',o[:200])
print(' extra',json.dumps(x['extra'])[:600])
