#!/bin/bash
# tools/scratch.sh <name>: private copy of /repo and of the harness under /tmp/scratch-<name>,
# with the harness path-dependencies pointing at the copy. Use it to try a monitor against a
# deliberately broken repo without touching /repo. Evidence goes to /tmp/scratch-<name>/out.
# Remove the directory when done (rm -rf /tmp/scratch-<name>).
set -e
name="${1:?name}"; d=/tmp/scratch-$name
rm -rf "$d"; mkdir -p "$d/out"
rsync -a --exclude target --exclude .git /repo/ "$d/repo/"
rsync -a --exclude 'target*' /verif/harness/ "$d/harness/"
sed -i "s#\"/repo/#\"$d/repo/#g" "$d/harness/Cargo.toml"
cp /verif/known_findings.jsonl "$d/out/" 2>/dev/null || true
echo "scratch at $d ; build: cd $d/harness && cargo build --release --offline --bin cNN ; run: P3R_VERIF_DIR=$d/out ./target/release/cNN --tier quick"
