#!/usr/bin/env python3
"""Regenerates /verif/MANIFEST.json from the table below (single source of truth)."""
import json, os
ROOT = os.path.dirname(os.path.dirname(os.path.abspath(__file__)))
props = [json.loads(l)["id"] for l in open(os.path.join(ROOT, "properties.jsonl"))]

TRUSTED = ("Trusted base: native Plonky3 0.6 crates used as reference, the harness's own oracles "
           "(field interpreter O1, op-relation evaluator O2, bus monitor O3), FRI/LogUp soundness "
           "is not re-examined. Verdict is 'held on the executions observed', never a proof.")

# id -> (category, technique, level text, design ref, level note)
CHECKS = {
 "C02": ("exploration", "differential runtime monitor: generated builder programs executed on the real compiler+runner, every expression's witness value and the run outcome compared with an independent field interpreter",
         "Runtime monitoring over generated programs (all aliasing/fold/dedup/fusion shapes, 8 field setups, satisfying and perturbed inputs). Holds on the executions observed; catches miscompilations that need a specific program shape.",
         "DESIGN.md §3 C02", TRUSTED),
 "C01": ("fault_enumeration", "differential runtime monitor: native uni-STARK / batch-STARK verifiers vs the verification circuit (built once per honest shape, real runner) on honest proofs, on every single-leaf mutation of proof / public values / common data, and on forged proofs pushed through the real prover",
         "35-49 proof shapes x 9 configurations (BabyBear/KoalaBear D4, KoalaBear quintic, Goldilocks D2, hiding PCS over plain and salted MMCS, Merkle caps of height 2 over plain and salted MMCS, FRI arity 4 with two-height batches); exhaustive leaf sweep per shape; verdict agreement is the oracle. Poseidon1 challengers and arity-4 MMCS are covered at the MMCS/FRI level by C07/C08 only.",
         "DESIGN.md §3 C01", TRUSTED),
 "C14": ("fault_enumeration", "runtime monitor on packed inputs: lengths vs the circuit's expectations, value held after an honest run by every allocated proof target vs the proof element it must carry (independent parallel walkers), single-position perturbation of every packed position vs the native verdict, and a foreign-verifying-key probe on the next-layer path (honest proof + a key differing in one commitment word must be rejected after backend packing)",
         "Exhaustive over targets and packed positions of every shape of C01's shape list.",
         "DESIGN.md §3 C14", TRUSTED),
 "C15": ("fault_enumeration", "runtime fault injection on proof structure: every array node / option / non-field integer of proof, common data and parameters structurally mutated and fed to the circuit builders in memory-limited child processes; an optional part added where the shape has none is part of the mutant set; panics, aborts, circuits accepting what native rejects, and a builder returning Ok for what the native verifier rejects for a structural reason are violations",
         "Exhaustive structural mutants per shape (9 shapes quick, all thorough) x 4-5 entry points (verify_p3_uni_proof_circuit, verify_p3_batch_proof_circuit, verify_batch_circuit, verify_fri_circuit, build_next_layer_circuit). Panics inside native verifiers are observations only.",
         "DESIGN.md §3 C15", TRUSTED),
 "C04": ("fault_enumeration", "runtime fault injection on execution traces: honest Traces of generated programs are forged (table cell, slot value on all tables incl. upper-limb-only changes of bool-checked slots, constants, public cells), labelled by an independent op-relation evaluator, proven with the honest prover data and shown to the real verifier; second stream (c04npo): the recorded Poseidon permutation rows of row programs / add_mmcs_verify / add_hash_slice circuits are forged (chained limb, witness-bound limb, zero limb, each plain and with the permutation recomputed and carried down the chain, direction-bit flip), labelled by an independent model of the row relation that is first validated on the honest rows; thorough tier: the same prove/verify workload replayed under valgrind memcheck in 16 single-threaded shards (a memcheck report fails the check)",
         "Enumerated single-fault classes on ALU/Const/Public tables of generated circuits in 8 field setups and on Poseidon2/Poseidon1 sponge, chained and arity-2 Merkle rows in 6 packed configurations; a forgery labelled unsatisfying must be rejected. Arity-4 and compact D=1 rows are covered at row level by C11 and for the challenger by C06. Coordinated multi-cell attacks beyond change-and-carry are outside the explored set.",
         "DESIGN.md §3 C04", TRUSTED),
 "C05": ("exploration", "differential runtime monitor over call histories: random interleavings of observe/sample/sample_bits/check_pow_witness/clear are executed by the in-circuit challenger (real runner) and by the native DuplexChallenger; every sampled value, bit vector and PoW verdict compared; second stream: two or three challengers in one circuit with interleaved operations, each compared with its own native transcript",
         "Random histories biased to buffer boundaries over 12 challenger configurations (Poseidon1/2, D1/D2/D4/D5-over-D1, recompose table on/off); distinct buffer-state paths are counted in the evidence.",
         "DESIGN.md §3 C05", TRUSTED),
 "C06": ("fault_enumeration", "runtime fault injection with deviating executors: histories are run with a permutation executor / decomposition hints that deviate on values the verifier does not fix (permutation outputs, and non-bus INPUT lanes of a permutation row forged in the trace with the row recomputed and carried), the traces are proven with the honest prover data and verified; accepted proofs must carry the native challenges (also the unfaulted run: an accepted honest run whose samples differ from the native challenger is a violation)",
         "Per configuration: every limb class (rate, capacity, single limb, high coefficients) x value kinds x permutation index, plus non-canonical decomposition hints; 8 provable configurations x recompose on/off.",
         "DESIGN.md §3 C06", TRUSTED),
 "C18": ("exploration", "runtime monitor over repeated executions: each program is rebuilt several times in-process (fresh hash seeds per map), in freshly spawned processes, and in processes of a second build of the monitor with the upstream `parallel` (rayon) feature on under RAYON_NUM_THREADS = 1, 4, 16; canonical digests of ops, numbering, maps, preprocessed columns, AIR order, preprocessed commitment and (where the circuit is run and proven) the primitive main matrices and the main-trace commitment are compared; a canary map shows the iteration-order dimension was varied",
         "Generated programs on 8 setups, NPO-rich BabyBear D4 circuits, library-built challenger circuits on 12 configurations (Poseidon2/Poseidon1/recompose tables, run and proven: this is where the parallel trace generation lives), and the recursive verifier circuits (verify_*_circuit and build_next_layer_circuit) of every proof shape of the shared kit. Hash seeds and thread schedules are sampled, a non-determinism needing a specific collision can be missed; hiding-PCS shapes are left out of the parallel-feature processes (upstream p3-fri deadlock, see DESIGN.md).",
         "DESIGN.md §3 C18", TRUSTED),
 "C19": ("fault_enumeration", "runtime fault injection on the runner API executed under two build profiles, under the Miri interpreter and under valgrind memcheck: each (circuit, input fault) is run by the release binary, by a dev-profile build, (sample) under Miri and (thorough, sample) by the release binary under memcheck; outcomes compared, Ok on a faulted run or any UB report is a violation",
         "Faults: inputs withheld / short / long / set twice / conflicting, private data missing / duplicated / wrong type / wrong size / unknown op, non-boolean direction bit, violated zero check / zero divisor (boolean checks are compared across profiles only); circuits whose inputs feed ALU rows, hints and Poseidon2 rows (sponge, chained, Merkle) directly.",
         "DESIGN.md §3 C19", TRUSTED),
 "C07": ("fault_enumeration", "differential runtime monitor at the PCS boundary: native TwoAdicFriPcs/HidingFriPcs verify vs the in-circuit FRI verifier on honest proofs, on every single-leaf mutation of the proof/claims/commitments, on structural mutations of every array node (circuit rebuilt per mutant) and on prover-side faults (deviating challenger; the prover opening one point fewer/more or omitting random-codeword rows with a consistently edited transcript)",
         "Parameter grid (blow-up, queries, arity schedules, final-poly length, PoW bits, batches of mixed heights) with an exhaustive leaf sweep per honest proof; verdict agreement is the oracle.",
         "DESIGN.md §3 C07", TRUSTED),
 "C08": ("fault_enumeration", "differential runtime monitor: native MerkleTreeMmcs / hiding / extension MMCS verify_batch vs the in-circuit opening verifiers on honest openings at every index and on every single alteration (leaf, sibling word, index bit, cap word, salt, row swap), for single openings and for sequences of 2-4 openings verified in one circuit (state carried between openings; alteration of the first / middle / last opening)",
         "Random dimension vectors (mixed heights, widths off the hash rate, cap heights, arity 2 and 4, hiding, base/extension leaves) on 13 configurations; every index of every tree.",
         "DESIGN.md §3 C08", TRUSTED),
 "C10": ("exploration", "runtime pipeline monitor: generated programs with satisfying inputs are taken through the real build -> key generation -> run -> prove -> verify under random prover configurations; failures are classified with the bus monitor (key-generation refusals of an input the compiled circuit reads are judged too); recompose tables in both flavours (standard / split coefficient tables) at 1-3 lanes, with a directed family dense in recompose rows; second stream: row programs over the Poseidon2/Poseidon1 permutation tables (c04npo) built, run, proven and verified",
         "Programs from the generator (3/4 in the dialect that avoids known-broken constructs) x random packings, 8 field setups, plus the directed shapes named by the property (incl. Horner chains whose evaluation point changes and returns) and 480 / 9000 permutation-row programs.",
         "DESIGN.md §3 C10", TRUSTED),
 "C12": ("fault_enumeration", "runtime fault injection with deviating hint executors: the decomposition hints of circuits using decompose_to_bits / decompose_ext_to_base_coeffs are replaced by alternatives satisfying the recomposition identity (bits of x+kp, one non-boolean bit compensating a flipped one, extension-valued bits whose higher limbs cancel, moved coefficient mass; decompositions also emitted under the builder's skip-select-provenance mode), optionally together with a trace-level forgery of the bool-check rows of the prover's own ALU trace; traces are proven with the honest prover data and verified",
         "Value classes (0, 1, small, around the 2^n-p slack, p-1, random) x widths x k in 1..3 for bits; three mass-moving families for coefficients, ALU and recompose-table paths; 8 field setups. Challenger gadgets are covered by C06.",
         "DESIGN.md §3 C12", TRUSTED),
 "C13": ("exploration", "differential runtime monitor: random symbolic constraint DAGs (and the repo's real AIRs) are compiled by the real symbolic compiler / eval_folded_circuit, run, and compared with the native verifier constraint folder on random assignments",
         "Random AIRs with all leaf kinds, sharing by Arc and by re-evaluation, base/extension paths, LogUp lookups; pointer-keyed caches stressed by address reuse.",
         "DESIGN.md §3 C13", TRUSTED),
 "C20": ("exploration", "differential runtime monitor: each verifier gadget is instantiated in a small circuit, run, and its outputs compared with native p3-commit/p3-fri/p3-field computations over a parameter grid",
         "16 gadgets x 4 configurations; deterministic grid over sizes/shifts/chunks/periods/lengths/exponents/indices plus random tuples, including degenerate sizes and in-domain points.",
         "DESIGN.md §3 C20", TRUSTED),
 "C09": ("exploration", "runtime bus monitor: every WitnessChecks tuple of every row of the real Const/Public/ALU tables is replayed from the real AIRs and matrices of honest runs of generated programs and aggregated per witness slot; cross-checked against upstream's lookup debugger (every third program with recompose tables, in both table flavours at 1-3 lanes, and all programs of a directed family dense in recompose rows); second stream: honest executions of row programs over the Poseidon permutation tables (Merkle chains, index-accumulator exposure, tables of exactly 2^k rows) are proven and verified, a verifier lookup error on an honest run is an unbalanced bus",
         "Per-slot invariants (one creator, creator multiplicity == reads, equal values, no floating operand) observed on honest executions of generated programs under random packings. Slots touched only by plugin tables are judged by the upstream debugger cross-check.",
         "DESIGN.md §3 C09", TRUSTED),
 "C11": ("fault_enumeration", "runtime monitor over explicit trace rows: the real AIR constraints (incl. bus tuples) are evaluated on valid rows and on every single-cell perturbation and compared with an independent evaluation of the operation's relation in native field arithmetic",
         "Every cell of every row layout (all op kinds x reductions x lanes x Horner packings, Poseidon1/2 row kinds) perturbed one at a time; constraints must accept exactly when the independently evaluated relation holds. Round-internal Poseidon columns are not perturbed.",
         "DESIGN.md §3 C11", TRUSTED),
 "C16": ("fault_enumeration", "runtime fault injection on proof metadata: every self-declared metadata field of real circuit proofs (honest and of invalid traces) altered through the serialised form, verdict of the real verifier observed; serialisation round-trip differential; in-memory-only fields (stark_common.lookups, which serialisation does not carry) altered in the proof object and in the prover data, and serialised fields (the preprocessed matrix map) altered on the in-memory object rather than through a deserialiser, verdict compared with the verdict after a round trip",
         "Exhaustive single-field (sampled pairs) alteration of BatchStarkProof metadata on 6 configurations; a relying party pinning the preprocessed commitment never accepts an invalid-trace proof; codecs preserve the verdict. A verifier panic counts as (unclean) rejection and is reported as an observation.",
         "DESIGN.md §3 C16", TRUSTED),
 "C17": ("exploration", "runtime monitor over call histories of the real recursion API (next-layer / aggregation steps, adversarial cache offers): children include batch proofs of tiny circuits under multi-lane packings (where prover and key generation reduce lanes differently); each output verified natively and fed to a further layer, cached vs uncached verdicts compared, and a state invariant of the aggregation cache slot (untouched, or fingerprint of the circuit just proven) asserted after every call that was handed a slot",
         "Random histories of depth 1-4 with parameter changes (lanes, Horner packing, constraint profile, recompose lane count) and cache slots filled by other circuits; one history in five runs with the recompose table switched off; histories are short because each step costs seconds.",
         "DESIGN.md §3 C17", TRUSTED),
 "C03": ("exploration", "runtime monitor with adversarial witness completion: the emitted op list is evaluated on its own by an independent relation checker and compared with the source program's relations; counter-examples are confirmed by proving a forged trace",
         "For generated programs, assignments accepted by the op-list relations alone (prover-chosen values for every slot no relation forces) must satisfy every source relation. Sampled programs and assignments, not all adversaries.",
         "DESIGN.md §3 C03", TRUSTED),
}
NOT_YET = "not claimed"

m = {
 "version": 1,
 "setup_cmd": "./check --setup",
 "hooks": {
   "guard": "cargo feature `verif-hooks` (crates p3-circuit and p3-recursion), off by default",
   "enable": "the harness crate /verif/harness depends on /repo/circuit and /repo/recursion with features=[\"verif-hooks\"]",
   "baseline_off_cmd": "cd /repo && (cargo nextest run --workspace --no-fail-fast --offline --test-threads 8 || cargo test --workspace --no-fail-fast --offline)",
   "source_commits": ["42dbf46", "93d5841"],
   "add_only": True,
 },
 "engines": [
   {"name": "p3r-verif", "path": "/verif/harness", "serves_properties": sorted(CHECKS),
    "kind_free_text": "Rust harness: one monitor binary per property (src/bin/cNN.rs) over shared generators, oracles and fault injectors; driven by /verif/check"},
 ],
 "checks": [],
 "notes": "Findings policy and per-property design: DESIGN.md. Known findings: known_findings.jsonl (never written at run time).",
 "not_applicable": [],
}
for p in props:
    if p in CHECKS:
        cat, tech, text, ref, note = CHECKS[p]
        m["checks"].append({
            "property_id": p,
            "quick_cmd": f"./check {p} quick",
            "thorough_cmd": f"./check {p} thorough",
            "evidence_file": f"/verif/evidence/{p}.json",
            "replay_cmd_template": f"./check {p} quick --replay {{path}}",
            "engine": "p3r-verif",
            "level_claimed": {"category": cat, "text": text, "design_ref": ref},
            "level_note": note,
            "technique": tech,
        })
    else:
        m["not_applicable"].append({"property_id": p, "reason": NOT_YET})
json.dump(m, open(os.path.join(ROOT, "MANIFEST.json"), "w"), indent=1)
print("checks:", [c["property_id"] for c in m["checks"]])
