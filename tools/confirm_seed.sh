#!/bin/bash
# tools/confirm_seed.sh <worktree> <out dir> : confirm a seeded change by hand-equivalent steps in the
# seeding agent's scratch worktree (never /repo): (1) patch.diff is exactly the source change and
# applies to a clean checkout, (2) demo fails with it, (3) demo passes without it, (4) the workspace
# test-suite (the baseline command's nextest run) passes with it. Writes <out>/confirm.log.
wt="$1"; out="$2"; log="$out/confirm.log"
export CARGO_NET_OFFLINE=true
cd "$wt" || exit 2
demo_cmd=$(python3 -c "import json;print(json.load(open('$out/meta.json'))['demo_cmd'].replace(' demo/',' $out/demo/'))")
{
echo "== confirm $(basename "$out") at $(git rev-parse --short HEAD)"
git checkout -q -- .   # tracked files back to the commit; the agent's untracked demo files stay in place
git status --short | head -3
git apply --check "$out/patch.diff" && echo "patch applies to clean checkout" || { echo "PATCH DOES NOT APPLY"; exit 3; }
git apply "$out/patch.diff"; git diff --stat | tail -3
} > "$log" 2>&1
# put demo files back where README/demo_cmd says: convention = demo_cmd copies them itself, or they are copied here
echo "-- demo WITH patch: $demo_cmd" >> "$log"
( bash -c "$demo_cmd" ) > "$out/demo_with.log" 2>&1; echo "exit_with=$?" >> "$log"
git apply -R "$out/patch.diff"
echo "-- demo WITHOUT patch" >> "$log"
( bash -c "$demo_cmd" ) > "$out/demo_without.log" 2>&1; echo "exit_without=$?" >> "$log"
git apply "$out/patch.diff"
echo "-- workspace tests WITH patch (demo files removed)" >> "$log"
git status --short | grep '^??' | awk '{print $2}' > "$out/untracked.txt"
mkdir -p "$out/.held"; while read -r f; do [ -e "$f" ] && { mkdir -p "$out/.held/$(dirname "$f")"; mv "$f" "$out/.held/$f"; }; done < "$out/untracked.txt"
( cargo nextest run --workspace --no-fail-fast --offline --test-threads 8 2>&1 || true ) > "$out/tests_with.log" 2>&1
grep -E "^\s+Summary|tests run:|FAIL \[|SIGSEGV|error(\[|:)" "$out/tests_with.log" | sort | uniq -c | head -20 >> "$log"
rm -rf "$out/.held"
cat "$log"
