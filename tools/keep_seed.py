#!/usr/bin/env python3
"""keep_seed.py <out dir of the seeding agent> <seed name> <caught_by json>
Copies patch.diff, the demonstration and meta.json into /verif/seeded/<name>/ and records what
was confirmed by hand (confirm.log) and which checks catch it."""
import json, os, shutil, sys
src, name, caught = sys.argv[1], sys.argv[2], json.loads(sys.argv[3])
dst = f"/verif/seeded/{name}"
os.makedirs(dst, exist_ok=True)
shutil.copy(f"{src}/patch.diff", f"{dst}/patch.diff")
if os.path.isdir(f"{src}/demo"):
    shutil.copytree(f"{src}/demo", f"{dst}/demo", dirs_exist_ok=True)
meta = json.load(open(f"{src}/meta.json"))
conf = open(f"{src}/confirm.log").read() if os.path.exists(f"{src}/confirm.log") else ""
meta["confirmed_by_maintainer"] = {
    "how": "scratch git worktree of /repo: patch applied, touched crates' test suites run, demonstration run with and without the patch",
    "log": conf.strip().splitlines(),
}
meta["caught_by"] = caught
json.dump(meta, open(f"{dst}/meta.json", "w"), indent=1)
print("kept", dst)
