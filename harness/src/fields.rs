//! Field / prover-configuration setups the harness can instantiate programs over.

use std::hash::Hash;

use p3_baby_bear::BabyBear;
use p3_batch_stark::ProverData;
use p3_circuit::{Circuit, Traces};
use p3_circuit_prover::batch_stark_prover::{BatchStarkProof, BatchStarkProver, CircuitProverData};
use p3_circuit_prover::common::get_airs_and_degrees_with_prep;
use p3_circuit_prover::config::{self, BabyBearConfig, GoldilocksConfig, KoalaBearConfig};
use p3_circuit_prover::field_params::ExtractBinomialW;
use p3_circuit_prover::{ConstraintProfile, TablePacking};
use p3_field::extension::{BinomialExtensionField, QuinticTrinomialExtensionField};
use p3_field::{BasedVectorSpace, ExtensionField, Field, PrimeCharacteristicRing, PrimeField64};
use p3_goldilocks::Goldilocks;
use p3_koala_bear::KoalaBear;
use p3_uni_stark::StarkGenericConfig;

/// A circuit element field together with the STARK configuration proving circuits over it.
pub trait Setup: 'static + Send + Sync {
    type B: PrimeField64 + Eq + Hash + Send + Sync;
    type E: Field
        + ExtensionField<Self::B>
        + BasedVectorSpace<Self::B>
        + ExtractBinomialW<Self::B>
        + Eq
        + Hash
        + Send
        + Sync;
    type SC: StarkGenericConfig + 'static + Send + Sync;
    const NAME: &'static str;
    const D: usize;

    fn prover(packing: TablePacking) -> BatchStarkProver<Self::SC>;
    fn prep(
        circuit: &Circuit<Self::E>,
        packing: &TablePacking,
        profile: ConstraintProfile,
    ) -> Result<CircuitProverData<Self::SC>, String>;
    /// Like [`Self::prover`], optionally with the recompose tables registered and/or the
    /// upstream lookup debugger switched on.
    fn prover_x(packing: TablePacking, recompose: bool, debug_lookups: bool) -> BatchStarkProver<Self::SC>;
    /// Like [`Self::prep`], optionally with the recompose NPO preprocessor / AIR builders.
    fn prep_x(
        circuit: &Circuit<Self::E>,
        packing: &TablePacking,
        profile: ConstraintProfile,
        recompose: bool,
    ) -> Result<CircuitProverData<Self::SC>, String>;
    /// O3: replay the WitnessChecks bus of the primitive tables (see `bus.rs`).
    fn bus(
        circuit: &Circuit<Self::E>,
        traces: &Traces<Self::E>,
        packing: &TablePacking,
        recompose: bool,
    ) -> Result<Vec<crate::bus::BusEvent>, String>;
    /// Main matrices of the primitive tables for `traces` (canonical u64s).
    fn mains(
        circuit: &Circuit<Self::E>,
        traces: &Traces<Self::E>,
        packing: &TablePacking,
    ) -> Result<Vec<Vec<u64>>, String>;
    fn prove(
        prover: &BatchStarkProver<Self::SC>,
        traces: &Traces<Self::E>,
        cpd: &CircuitProverData<Self::SC>,
    ) -> Result<BatchStarkProof<Self::SC>, String>;
    fn verify(
        prover: &BatchStarkProver<Self::SC>,
        proof: &BatchStarkProof<Self::SC>,
    ) -> Result<(), String>;

    fn el(coeffs: &[u64]) -> Self::E {
        let mut v = vec![Self::B::ZERO; Self::D];
        for (i, c) in coeffs.iter().enumerate().take(Self::D) {
            v[i] = Self::B::from_u64(*c % Self::B::ORDER_U64);
        }
        <Self::E as BasedVectorSpace<Self::B>>::from_basis_coefficients_slice(&v).unwrap()
    }
    fn coeffs(e: &Self::E) -> Vec<u64> {
        <Self::E as BasedVectorSpace<Self::B>>::as_basis_coefficients_slice(e)
            .iter()
            .map(|c| c.as_canonical_u64())
            .collect()
    }
    fn order() -> u64 {
        Self::B::ORDER_U64
    }
}

std::thread_local! {
    static RECOMPOSE_CFG: std::cell::Cell<(usize, bool)> = const { std::cell::Cell::new((1, false)) };
}

/// (lanes, split coefficient tables) the `*_x` / `bus` functions of [`Setup`] use for the recompose
/// tables on this thread. Set for the duration of one case by [`RecomposeCfg::set`].
pub fn recompose_cfg() -> (usize, bool) {
    RECOMPOSE_CFG.with(|c| c.get())
}

/// RAII guard: the recompose table configuration of the program under test; back to the default
/// (one lane, standard table) when dropped.
pub struct RecomposeCfg;
impl RecomposeCfg {
    #[must_use]
    pub fn set(cfg: (usize, bool)) -> Self {
        RECOMPOSE_CFG.with(|c| c.set(cfg));
        RecomposeCfg
    }
}
impl Drop for RecomposeCfg {
    fn drop(&mut self) {
        RECOMPOSE_CFG.with(|c| c.set((1, false)));
    }
}

macro_rules! impl_setup {
    ($name:ident, $label:expr, $b:ty, $e:ty, $d:expr, $sc:ty, $cfg:path) => {
        pub struct $name;
        impl Setup for $name {
            type B = $b;
            type E = $e;
            type SC = $sc;
            const NAME: &'static str = $label;
            const D: usize = $d;

            fn prover(packing: TablePacking) -> BatchStarkProver<$sc> {
                BatchStarkProver::new($cfg()).with_table_packing(packing)
            }
            fn prep(
                circuit: &Circuit<$e>,
                packing: &TablePacking,
                profile: ConstraintProfile,
            ) -> Result<CircuitProverData<$sc>, String> {
                let cfg = $cfg();
                let (ad, prim, nonprim) =
                    get_airs_and_degrees_with_prep::<$sc, $e, $d>(circuit, packing, &[], &[], profile)
                        .map_err(|e| format!("{e:?}"))?;
                let (airs, degs): (Vec<_>, Vec<usize>) = ad.into_iter().unzip();
                let pd = ProverData::from_airs_and_degrees(&cfg, &airs, &degs);
                Ok(CircuitProverData::new(pd, prim, nonprim))
            }
            fn prover_x(packing: TablePacking, recompose: bool, debug_lookups: bool) -> BatchStarkProver<$sc> {
                let mut p = BatchStarkProver::new($cfg()).with_table_packing(packing);
                if recompose && $d > 1 {
                    let (lanes, split) = recompose_cfg();
                    for tp in p3_circuit_prover::batch_stark_prover::recompose_table_provers::<$sc, $d>(lanes, split) {
                        p.register_table_prover(tp);
                    }
                }
                if debug_lookups {
                    p = p.with_debug_lookups();
                }
                p
            }
            fn prep_x(
                circuit: &Circuit<$e>,
                packing: &TablePacking,
                profile: ConstraintProfile,
                recompose: bool,
            ) -> Result<CircuitProverData<$sc>, String> {
                let cfg = $cfg();
                let (pre, airb): (
                    Vec<Box<dyn p3_circuit_prover::common::NpoPreprocessor<$b>>>,
                    Vec<Box<dyn p3_circuit_prover::common::NpoAirBuilder<$sc, $d>>>,
                ) = if recompose && $d > 1 {
                    {
                        let (lanes, split) = recompose_cfg();
                        (
                            vec![p3_circuit_prover::batch_stark_prover::recompose_preprocessor::<$b>(split)],
                            p3_circuit_prover::batch_stark_prover::recompose_air_builders::<$sc, $d>(lanes, split),
                        )
                    }
                } else {
                    (vec![], vec![])
                };
                let (ad, prim, nonprim) =
                    get_airs_and_degrees_with_prep::<$sc, $e, $d>(circuit, packing, &pre, &airb, profile)
                        .map_err(|e| format!("{e:?}"))?;
                let (airs, degs): (Vec<_>, Vec<usize>) = ad.into_iter().unzip();
                let pd = ProverData::from_airs_and_degrees(&cfg, &airs, &degs);
                Ok(CircuitProverData::new(pd, prim, nonprim))
            }
            fn bus(
                circuit: &Circuit<$e>,
                traces: &Traces<$e>,
                packing: &TablePacking,
                recompose: bool,
            ) -> Result<Vec<crate::bus::BusEvent>, String> {
                let (pre, airb): (
                    Vec<Box<dyn p3_circuit_prover::common::NpoPreprocessor<$b>>>,
                    Vec<Box<dyn p3_circuit_prover::common::NpoAirBuilder<$sc, $d>>>,
                ) = if recompose && $d > 1 {
                    {
                        let (lanes, split) = recompose_cfg();
                        (
                            vec![p3_circuit_prover::batch_stark_prover::recompose_preprocessor::<$b>(split)],
                            p3_circuit_prover::batch_stark_prover::recompose_air_builders::<$sc, $d>(lanes, split),
                        )
                    }
                } else {
                    (vec![], vec![])
                };
                crate::bus::bus_events::<$sc, $e, $d>(circuit, traces, packing, &pre, &airb)
            }
            fn mains(
                circuit: &Circuit<$e>,
                traces: &Traces<$e>,
                packing: &TablePacking,
            ) -> Result<Vec<Vec<u64>>, String> {
                crate::bus::main_matrices::<$sc, $e, $d>(circuit, traces, packing)
            }
            fn prove(
                prover: &BatchStarkProver<$sc>,
                traces: &Traces<$e>,
                cpd: &CircuitProverData<$sc>,
            ) -> Result<BatchStarkProof<$sc>, String> {
                prover.prove_all_tables(traces, cpd).map_err(|e| format!("{e:?}"))
            }
            fn verify(
                prover: &BatchStarkProver<$sc>,
                proof: &BatchStarkProof<$sc>,
            ) -> Result<(), String> {
                prover.verify_all_tables::<$e>(proof).map_err(|e| format!("{e:?}"))
            }
        }
    };
}

impl_setup!(BbD1, "babybear-d1", BabyBear, BabyBear, 1, BabyBearConfig, config::baby_bear);
impl_setup!(
    BbD4,
    "babybear-d4",
    BabyBear,
    BinomialExtensionField<BabyBear, 4>,
    4,
    BabyBearConfig,
    config::baby_bear
);
impl_setup!(KbD1, "koalabear-d1", KoalaBear, KoalaBear, 1, KoalaBearConfig, config::koala_bear);
impl_setup!(
    KbD4,
    "koalabear-d4",
    KoalaBear,
    BinomialExtensionField<KoalaBear, 4>,
    4,
    KoalaBearConfig,
    config::koala_bear
);
impl_setup!(
    KbD8,
    "koalabear-d8",
    KoalaBear,
    BinomialExtensionField<KoalaBear, 8>,
    8,
    KoalaBearConfig,
    config::koala_bear
);
impl_setup!(
    KbD5,
    "koalabear-d5-quintic",
    KoalaBear,
    QuinticTrinomialExtensionField<KoalaBear>,
    5,
    KoalaBearConfig,
    config::koala_bear
);
impl_setup!(GlD1, "goldilocks-d1", Goldilocks, Goldilocks, 1, GoldilocksConfig, config::goldilocks);
impl_setup!(
    GlD2,
    "goldilocks-d2",
    Goldilocks,
    BinomialExtensionField<Goldilocks, 2>,
    2,
    GoldilocksConfig,
    config::goldilocks
);

/// The commitment the honest key generation produced for a circuit; a relying party pins this.
pub fn commitment_json<SC: StarkGenericConfig>(common: &p3_batch_stark::CommonData<SC>) -> String
where
    <SC::Pcs as p3_commit::Pcs<SC::Challenge, SC::Challenger>>::Commitment: serde::Serialize,
{
    match &common.preprocessed {
        Some(gp) => {
            let metas: Vec<Option<(usize, usize, usize)>> = gp
                .instances
                .iter()
                .map(|m| m.as_ref().map(|m| (m.matrix_index, m.width, m.degree_bits)))
                .collect();
            format!(
                "{}|{:?}|{:?}",
                serde_json::to_string(&gp.commitment).unwrap_or_default(),
                metas,
                gp.matrix_to_instance
            )
        }
        None => "none".into(),
    }
}
