pub mod fields;
pub mod pgen;
pub mod opsem;
pub mod prog;
pub mod util;
