pub mod bus;
pub mod fields;
pub mod pgen;
pub mod pipeline;
pub mod opsem;
pub mod prog;
pub mod util;
