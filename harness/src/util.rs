//! Shared harness plumbing: arguments, three-valued verdicts, evidence, known findings,
//! parallel case execution with panic capture.

use std::collections::{BTreeMap, BTreeSet};
use std::panic::{AssertUnwindSafe, catch_unwind};
use std::path::PathBuf;
use std::sync::Mutex;
use std::sync::atomic::{AtomicUsize, Ordering};
use std::time::Instant;

use rand::rngs::SmallRng;
use rand::{RngExt, SeedableRng};
use serde_json::{Value, json};

/// Root for evidence / replays / known findings (`/verif`, overridable for scratch copies).
pub fn verif_dir() -> String {
    std::env::var("P3R_VERIF_DIR").unwrap_or_else(|_| "/verif".to_string())
}

#[derive(Clone, Copy, Debug, PartialEq, Eq)]
pub enum Tier {
    Quick,
    Thorough,
}

impl Tier {
    pub fn name(self) -> &'static str {
        match self {
            Tier::Quick => "quick",
            Tier::Thorough => "thorough",
        }
    }
    /// Pick a budget by tier.
    pub fn pick<T>(self, quick: T, thorough: T) -> T {
        match self {
            Tier::Quick => quick,
            Tier::Thorough => thorough,
        }
    }
}

#[derive(Clone, Debug)]
pub struct Args {
    pub tier: Tier,
    pub seed: u64,
    pub replay: Option<PathBuf>,
    pub threads: usize,
    /// Free-form extra `--key value` options.
    pub extra: BTreeMap<String, String>,
}

pub fn parse_args() -> Args {
    let mut tier = match std::env::var("VERIF_TIER").ok().as_deref() {
        Some("thorough") => Tier::Thorough,
        _ => Tier::Quick,
    };
    let mut seed: u64 = std::env::var("VERIF_SEED")
        .ok()
        .and_then(|s| s.trim().parse::<i64>().ok())
        .map(|v| v as u64)
        .unwrap_or(0);
    let mut replay = None;
    let mut threads = std::thread::available_parallelism()
        .map(|n| n.get())
        .unwrap_or(8)
        .min(16);
    let mut extra = BTreeMap::new();
    let argv: Vec<String> = std::env::args().skip(1).collect();
    let mut i = 0;
    while i < argv.len() {
        let a = argv[i].as_str();
        let next = argv.get(i + 1).cloned();
        match a {
            "--tier" => {
                tier = if next.as_deref() == Some("thorough") {
                    Tier::Thorough
                } else {
                    Tier::Quick
                };
                i += 1;
            }
            "quick" => tier = Tier::Quick,
            "thorough" => tier = Tier::Thorough,
            "--seed" => {
                seed = next.and_then(|s| s.parse::<i64>().ok()).unwrap_or(0) as u64;
                i += 1;
            }
            "--replay" => {
                replay = next.map(PathBuf::from);
                i += 1;
            }
            "--threads" => {
                threads = next.and_then(|s| s.parse().ok()).unwrap_or(threads);
                i += 1;
            }
            k if k.starts_with("--") => {
                extra.insert(k[2..].to_string(), next.unwrap_or_default());
                i += 1;
            }
            _ => {}
        }
        i += 1;
    }
    Args {
        tier,
        seed,
        replay,
        threads,
        extra,
    }
}

/// Deterministic per-case RNG derived from the run seed, a stream label and a case index.
pub fn case_rng(seed: u64, stream: &str, idx: u64) -> SmallRng {
    let mut h: u64 = 0xcbf29ce484222325 ^ seed.wrapping_mul(0x9E3779B97F4A7C15);
    for b in stream.bytes() {
        h ^= b as u64;
        h = h.wrapping_mul(0x100000001b3);
    }
    h ^= idx.wrapping_mul(0xD6E8FEB86659FD93);
    h = h.wrapping_mul(0xff51afd7ed558ccd);
    h ^= h >> 33;
    SmallRng::seed_from_u64(h)
}

pub fn fnv(s: &str) -> u64 {
    let mut h: u64 = 0xcbf29ce484222325;
    for b in s.bytes() {
        h ^= b as u64;
        h = h.wrapping_mul(0x100000001b3);
    }
    h
}

/// Three-valued outcome of one monitored case.
#[derive(Clone, Debug)]
pub enum Verdict {
    Held,
    Violated {
        /// Signature used to match known findings (stable, coarse, no case-specific numbers).
        signature: String,
        /// Everything needed to understand and replay the case.
        detail: Value,
    },
    Inconclusive(String),
}

#[derive(Clone, Debug)]
pub struct CaseResult {
    /// Structural key for distinctness (hashed).
    pub key: String,
    /// Whether the case is non-trivial under the property's rule.
    pub nontrivial: bool,
    pub verdict: Verdict,
    /// Named counters observed in this case (added up in the evidence).
    pub counters: Vec<(String, u64)>,
    /// Optional sample description (kept for the first few cases).
    pub sample: Option<Value>,
}

impl CaseResult {
    pub fn held(key: impl Into<String>, nontrivial: bool) -> Self {
        Self {
            key: key.into(),
            nontrivial,
            verdict: Verdict::Held,
            counters: vec![],
            sample: None,
        }
    }
    pub fn inconclusive(key: impl Into<String>, why: impl Into<String>) -> Self {
        Self {
            key: key.into(),
            nontrivial: false,
            verdict: Verdict::Inconclusive(why.into()),
            counters: vec![],
            sample: None,
        }
    }
    pub fn violated(key: impl Into<String>, signature: impl Into<String>, detail: Value) -> Self {
        Self {
            key: key.into(),
            nontrivial: true,
            verdict: Verdict::Violated {
                signature: signature.into(),
                detail,
            },
            counters: vec![],
            sample: None,
        }
    }
    pub fn count(mut self, name: impl Into<String>, n: u64) -> Self {
        self.counters.push((name.into(), n));
        self
    }
    pub fn with_sample(mut self, v: Value) -> Self {
        self.sample = Some(v);
        self
    }
}

#[derive(Clone, Debug)]
pub struct KnownFinding {
    pub property: String,
    pub signature: String,
    pub what: String,
    pub fixed: bool,
}

pub fn load_known_findings(prop: &str) -> Vec<KnownFinding> {
    let path = format!("{}/known_findings.jsonl", verif_dir());
    let Ok(text) = std::fs::read_to_string(&path) else {
        return vec![];
    };
    let mut out = vec![];
    for line in text.lines() {
        let line = line.trim();
        if line.is_empty() || line.starts_with('#') {
            continue;
        }
        let Ok(v) = serde_json::from_str::<Value>(line) else {
            continue;
        };
        let p = v["property"].as_str().unwrap_or("").to_string();
        if p != prop {
            continue;
        }
        out.push(KnownFinding {
            property: p,
            signature: v["signature"].as_str().unwrap_or("").to_string(),
            what: v["what"].as_str().unwrap_or("").to_string(),
            fixed: v["status"].as_str() == Some("fixed"),
        });
    }
    out
}

/// Accumulates case results and writes the evidence file / exit status.
pub struct Report {
    pub prop: String,
    pub level: String,
    pub args: Args,
    pub rule: String,
    pub assumptions: Vec<String>,
    start: Instant,
    evaluations: u64,
    distinct: BTreeSet<u64>,
    samples: Vec<Value>,
    counters: BTreeMap<String, u64>,
    sets: BTreeMap<String, BTreeSet<String>>,
    violations: Vec<(String, Value)>,
    known_hits: BTreeMap<String, u64>,
    inconclusive: BTreeMap<String, u64>,
    extra: BTreeMap<String, Value>,
    max_samples: usize,
    exhaustive: Option<bool>,
    held: u64,
    violating: u64,
}

impl Report {
    pub fn new(prop: &str, level: &str, args: &Args, rule: &str) -> Self {
        install_quiet_panic_hook();
        Self {
            prop: prop.to_string(),
            level: level.to_string(),
            args: args.clone(),
            rule: rule.to_string(),
            assumptions: vec![],
            start: Instant::now(),
            evaluations: 0,
            distinct: BTreeSet::new(),
            samples: vec![],
            counters: BTreeMap::new(),
            sets: BTreeMap::new(),
            violations: vec![],
            known_hits: BTreeMap::new(),
            inconclusive: BTreeMap::new(),
            extra: BTreeMap::new(),
            max_samples: 6,
            exhaustive: None,
            held: 0,
            violating: 0,
        }
    }

    pub fn assume(&mut self, s: &str) {
        self.assumptions.push(s.to_string());
    }

    pub fn set_exhaustive(&mut self, e: bool) {
        self.exhaustive = Some(e);
    }

    pub fn bump(&mut self, name: &str, n: u64) {
        *self.counters.entry(name.to_string()).or_default() += n;
    }

    /// Record membership of `item` in a named observation set (reported as a distinct count).
    pub fn observe(&mut self, set: &str, item: impl Into<String>) {
        self.sets.entry(set.to_string()).or_default().insert(item.into());
    }

    pub fn set_extra(&mut self, key: &str, v: Value) {
        self.extra.insert(key.to_string(), v);
    }

    pub fn add_sample(&mut self, v: Value) {
        if self.samples.len() < self.max_samples {
            self.samples.push(v);
        }
    }

    pub fn elapsed_s(&self) -> f64 {
        self.start.elapsed().as_secs_f64()
    }

    pub fn evaluations(&self) -> u64 {
        self.evaluations
    }

    pub fn distinct_nontrivial(&self) -> usize {
        self.distinct.len()
    }

    pub fn add(&mut self, r: CaseResult) {
        self.evaluations += 1;
        for (k, n) in r.counters {
            *self.counters.entry(k).or_default() += n;
        }
        match r.verdict {
            Verdict::Held => {
                self.held += 1;
                if r.nontrivial {
                    self.distinct.insert(fnv(&r.key));
                }
                if let Some(s) = r.sample {
                    self.add_sample(s);
                }
            }
            Verdict::Violated { signature, detail } => {
                self.violating += 1;
                if r.nontrivial {
                    self.distinct.insert(fnv(&r.key));
                }
                if let Some(s) = r.sample {
                    self.add_sample(s);
                }
                self.violations.push((signature, detail));
            }
            Verdict::Inconclusive(why) => {
                *self.inconclusive.entry(why).or_default() += 1;
            }
        }
    }

    pub fn add_all(&mut self, rs: Vec<CaseResult>) {
        for r in rs {
            self.add(r);
        }
    }

    /// Write evidence, print VIOLATION / KNOWN-FINDING lines, and exit.
    ///
    /// Exit codes: 0 held (possibly with known findings), 1 new violation, 2 inconclusive
    /// (too few non-trivial cases; harness problem) — never a VIOLATION line for exit 2.
    pub fn finish(mut self, min_nontrivial: usize) -> ! {
        let known = load_known_findings(&self.prop);
        let mut new_violations: Vec<(String, Value)> = vec![];
        for (sig, detail) in std::mem::take(&mut self.violations) {
            if known.iter().any(|k| !k.fixed && k.signature == sig) {
                *self.known_hits.entry(sig).or_default() += 1;
            } else {
                new_violations.push((sig, detail));
            }
        }
        // Replay files for new violations (at most 20 written).
        let mut replay_paths = vec![];
        if !new_violations.is_empty() {
            let dir = format!("{}/replays/{}", verif_dir(), self.prop);
            let _ = std::fs::create_dir_all(&dir);
            // group by signature, one file each (first witness), cap 20
            let mut seen = BTreeSet::new();
            for (n, (sig, detail)) in new_violations.iter().enumerate() {
                if !seen.insert(sig.clone()) || seen.len() > 20 {
                    continue;
                }
                let path = format!("{dir}/{}-{}-{}.json", self.args.tier.name(), self.args.seed, n);
                let body = json!({"property": self.prop, "signature": sig, "seed": self.args.seed,
                    "tier": self.args.tier.name(), "detail": detail});
                let _ = std::fs::write(&path, serde_json::to_string_pretty(&body).unwrap());
                replay_paths.push((sig.clone(), path));
            }
        }
        for k in &known {
            if !k.fixed && self.known_hits.contains_key(&k.signature) {
                println!(
                    "KNOWN-FINDING: property={} {} [signature={} hits={}]",
                    self.prop, k.what, k.signature, self.known_hits[&k.signature]
                );
            }
        }
        let wall = self.start.elapsed().as_secs_f64();
        let mut coverage = serde_json::Map::new();
        coverage.insert("evaluations".into(), json!(self.evaluations));
        coverage.insert("distinct_nontrivial".into(), json!(self.distinct.len()));
        coverage.insert("rule".into(), json!(self.rule));
        if self.samples.is_empty() {
            self.samples.push(json!("no sample recorded"));
        }
        coverage.insert("samples".into(), Value::Array(self.samples.clone()));
        coverage.insert("held_cases".into(), json!(self.held));
        coverage.insert("violating_cases_including_known".into(), json!(self.violating));
        coverage.insert("counters".into(), json!(self.counters));
        let sets: BTreeMap<String, Value> = self
            .sets
            .iter()
            .map(|(k, v)| {
                let items: Vec<&String> = v.iter().take(40).collect();
                (k.clone(), json!({"distinct": v.len(), "items": items}))
            })
            .collect();
        coverage.insert("observed_sets".into(), json!(sets));
        coverage.insert("inconclusive".into(), json!(self.inconclusive));
        coverage.insert("known_finding_hits".into(), json!(self.known_hits));
        coverage.insert(
            "new_violation_signatures".into(),
            json!(new_violations.iter().map(|(s, _)| s.clone()).collect::<BTreeSet<_>>()),
        );
        if let Some(e) = self.exhaustive {
            coverage.insert("exhaustive".into(), json!(e));
        }
        for (k, v) in &self.extra {
            coverage.insert(k.clone(), v.clone());
        }
        let ev = json!({
            "property_id": self.prop,
            "tier": self.args.tier.name(),
            "seed": self.args.seed as i64,
            "level": self.level,
            "coverage": Value::Object(coverage),
            "assumptions": self.assumptions,
            "wall_s": wall,
            "violations": new_violations.len(),
        });
        let evdir = format!("{}/evidence", verif_dir());
        let _ = std::fs::create_dir_all(&evdir);
        let evpath = format!("{evdir}/{}.json", self.prop);
        if self.args.replay.is_none() {
            std::fs::write(&evpath, serde_json::to_string_pretty(&ev).unwrap())
                .expect("write evidence");
        }
        println!(
            "[{}] tier={} seed={} evaluations={} distinct_nontrivial={} inconclusive={} known_hits={} new_violations={} wall={:.1}s",
            self.prop,
            self.args.tier.name(),
            self.args.seed,
            self.evaluations,
            self.distinct.len(),
            self.inconclusive.values().sum::<u64>(),
            self.known_hits.values().sum::<u64>(),
            new_violations.len(),
            wall
        );
        if !new_violations.is_empty() {
            for (sig, path) in &replay_paths {
                println!("VIOLATION property={} replay={} signature={}", self.prop, path, sig);
            }
            std::process::exit(1);
        }
        if self.distinct.len() < min_nontrivial {
            println!(
                "INCONCLUSIVE property={}: only {} distinct non-trivial cases (< {}); inconclusive reasons: {:?}",
                self.prop,
                self.distinct.len(),
                min_nontrivial,
                self.inconclusive
            );
            std::process::exit(2);
        }
        std::process::exit(0);
    }
}

thread_local! {
    static LAST_PANIC: std::cell::RefCell<Option<String>> = const { std::cell::RefCell::new(None) };
}

pub fn install_quiet_panic_hook() {
    static ONCE: std::sync::Once = std::sync::Once::new();
    ONCE.call_once(|| {
        std::panic::set_hook(Box::new(|info| {
            let loc = info
                .location()
                .map(|l| format!("{}:{}", l.file(), l.line()))
                .unwrap_or_default();
            let msg = if let Some(s) = info.payload().downcast_ref::<&str>() {
                s.to_string()
            } else if let Some(s) = info.payload().downcast_ref::<String>() {
                s.clone()
            } else {
                "panic".to_string()
            };
            LAST_PANIC.with(|p| *p.borrow_mut() = Some(format!("{msg} @ {loc}")));
        }));
    });
}

/// Run `f`, capturing a panic as `Err(message @ location)`.
pub fn guarded<R>(f: impl FnOnce() -> R) -> Result<R, String> {
    install_quiet_panic_hook();
    match catch_unwind(AssertUnwindSafe(f)) {
        Ok(r) => Ok(r),
        Err(_) => Err(LAST_PANIC
            .with(|p| p.borrow_mut().take())
            .unwrap_or_else(|| "panic".into())),
    }
}

/// Shorten a panic message to its stable part (location) for signatures.
pub fn panic_site(msg: &str) -> String {
    msg.rsplit(" @ ").next().unwrap_or(msg).to_string()
}

/// Execute `n` independent cases on `threads` workers; a panic inside a case becomes
/// an inconclusive result (properties that treat panics as outcomes catch them themselves).
pub fn run_cases<F>(n: usize, threads: usize, f: F) -> Vec<CaseResult>
where
    F: Fn(usize) -> Vec<CaseResult> + Sync,
{
    let next = AtomicUsize::new(0);
    let per_sig: Mutex<BTreeMap<String, usize>> = Mutex::new(BTreeMap::new());
    let out: Mutex<Vec<(usize, Vec<CaseResult>)>> = Mutex::new(Vec::with_capacity(n));
    std::thread::scope(|s| {
        for _ in 0..threads.max(1) {
            s.spawn(|| {
                loop {
                    let i = next.fetch_add(1, Ordering::Relaxed);
                    if i >= n {
                        break;
                    }
                    let r = match guarded(|| f(i)) {
                        Ok(mut r) => {
                            // keep the (possibly large) witness of only the first few violations of
                            // each signature: a badly broken tree must not exhaust memory
                            for c in r.iter_mut() {
                                if let Verdict::Violated { signature, detail } = &mut c.verdict {
                                    let mut seen = per_sig.lock().unwrap();
                                    let n = seen.entry(signature.clone()).or_insert(0usize);
                                    *n += 1;
                                    if *n > 25 {
                                        *detail = Value::Null;
                                    }
                                }
                            }
                            r
                        }
                        Err(msg) => vec![CaseResult::inconclusive(
                            format!("case{i}"),
                            format!("harness panic: {}", panic_site(&msg)),
                        )],
                    };
                    out.lock().unwrap().push((i, r));
                }
            });
        }
    });
    let mut v = out.into_inner().unwrap();
    v.sort_by_key(|(i, _)| *i);
    v.into_iter().flat_map(|(_, r)| r).collect()
}

/// Random index helper.
pub fn pick<'a, T>(rng: &mut SmallRng, xs: &'a [T]) -> &'a T {
    &xs[rng.random_range(0..xs.len())]
}

pub fn chance(rng: &mut SmallRng, num: u32, den: u32) -> bool {
    rng.random_range(0..den) < num
}


// ---------------------------------------------------------------------------------------------
// Crash-isolated case execution
// ---------------------------------------------------------------------------------------------

pub fn case_to_json(r: &CaseResult) -> Value {
    let (v, sig, detail, why) = match &r.verdict {
        Verdict::Held => ("held", None, None, None),
        Verdict::Violated { signature, detail } => ("violated", Some(signature.clone()), Some(detail.clone()), None),
        Verdict::Inconclusive(w) => ("inconclusive", None, None, Some(w.clone())),
    };
    json!({"key": r.key, "nontrivial": r.nontrivial, "verdict": v, "signature": sig, "detail": detail, "why": why,
           "counters": r.counters, "sample": r.sample})
}

pub fn case_from_json(v: &Value) -> Option<CaseResult> {
    let verdict = match v["verdict"].as_str()? {
        "held" => Verdict::Held,
        "violated" => Verdict::Violated {
            signature: v["signature"].as_str()?.to_string(),
            detail: v["detail"].clone(),
        },
        _ => Verdict::Inconclusive(v["why"].as_str().unwrap_or("").to_string()),
    };
    Some(CaseResult {
        key: v["key"].as_str()?.to_string(),
        nontrivial: v["nontrivial"].as_bool()?,
        verdict,
        counters: v["counters"]
            .as_array()
            .map(|a| a.iter().filter_map(|c| Some((c[0].as_str()?.to_string(), c[1].as_u64()?))).collect())
            .unwrap_or_default(),
        sample: if v["sample"].is_null() { None } else { Some(v["sample"].clone()) },
    })
}

static ISO_CALL: AtomicUsize = AtomicUsize::new(0);

/// Like [`run_cases`], but every shard of cases runs in a child process of this same binary
/// (same arguments) under an address-space limit. A case that makes the code under test abort
/// (stack overflow, allocation failure, runaway memory, SIGSEGV) or hang kills only its shard:
/// it is reported as a `process-crash/..` violation and the shard resumes after it.
///
/// The caller's `main` must reach this call deterministically from its arguments (children
/// re-execute `main` up to the same call and then exit).
pub fn run_cases_isolated<F>(n: usize, threads: usize, f: F) -> Vec<CaseResult>
where
    F: Fn(usize) -> Vec<CaseResult> + Sync,
{
    use std::io::{BufRead, BufReader, Write};
    let call = ISO_CALL.fetch_add(1, Ordering::SeqCst);
    if let Ok(spec) = std::env::var("P3R_ISO_CHILD") {
        // child: "<call>:<from>:<step>" — run indices from, from+step, ... of invocation <call>
        let parts: Vec<usize> = spec.split(':').filter_map(|x| x.parse().ok()).collect();
        if parts.len() == 3 && parts[0] == call {
            let (from, step) = (parts[1], parts[2].max(1));
            let out = std::io::stdout();
            let mut i = from;
            while i < n {
                {
                    let mut o = out.lock();
                    let _ = writeln!(o, "S {i}");
                    let _ = o.flush();
                }
                let rs = match guarded(|| f(i)) {
                    Ok(r) => r,
                    Err(msg) => vec![CaseResult::inconclusive(
                        format!("case{i}"),
                        format!("harness panic: {}", panic_site(&msg)),
                    )],
                };
                let mut o = out.lock();
                for r in &rs {
                    let _ = writeln!(o, "R {}", case_to_json(r));
                }
                let _ = writeln!(o, "E {i}");
                let _ = o.flush();
                i += step;
            }
            std::process::exit(0);
        }
        // an earlier / later invocation in the child: nothing to do here
        return vec![];
    }
    if std::env::var("P3R_NO_ISOLATION").is_ok() || n == 0 {
        return run_cases(n, threads, f);
    }
    let exe = std::env::current_exe().expect("current exe");
    let argv: Vec<String> = std::env::args().skip(1).collect();
    let shards = threads.max(1).min(n);
    let mem_kb: u64 = std::env::var("P3R_ISO_MEM_KB").ok().and_then(|s| s.parse().ok()).unwrap_or(6_000_000);
    let case_timeout = std::time::Duration::from_secs(
        std::env::var("P3R_ISO_CASE_TIMEOUT_S").ok().and_then(|s| s.parse().ok()).unwrap_or(300),
    );
    let results: Mutex<Vec<(usize, CaseResult)>> = Mutex::new(vec![]);
    std::thread::scope(|s| {
        for shard in 0..shards {
            let (exe, argv, results) = (&exe, &argv, &results);
            s.spawn(move || {
                let mut from = shard;
                let mut restarts = 0usize;
                while from < n {
                    let mut cmd = std::process::Command::new("sh");
                    cmd.arg("-c")
                        .arg(format!("ulimit -v {mem_kb}; exec \"$0\" \"$@\""))
                        .arg(exe)
                        .args(argv)
                        .env("P3R_ISO_CHILD", format!("{call}:{from}:{shards}"))
                        .stdout(std::process::Stdio::piped())
                        .stderr(std::process::Stdio::piped());
                    let Ok(mut child) = cmd.spawn() else {
                        results.lock().unwrap().push((from, CaseResult::inconclusive(format!("shard{shard}"), "cannot spawn child")));
                        return;
                    };
                    let stdout = child.stdout.take().unwrap();
                    let last_activity = std::sync::Arc::new(Mutex::new(Instant::now()));
                    let done = std::sync::Arc::new(std::sync::atomic::AtomicBool::new(false));
                    // watchdog: a case that produces no output for too long is killed
                    let pid = child.id();
                    let (la, dn) = (last_activity.clone(), done.clone());
                    let wd = std::thread::spawn(move || {
                        while !dn.load(Ordering::SeqCst) {
                            std::thread::sleep(std::time::Duration::from_millis(500));
                            if la.lock().unwrap().elapsed() > case_timeout {
                                let _ = std::process::Command::new("kill").arg("-9").arg(pid.to_string()).status();
                                return true;
                            }
                        }
                        false
                    });
                    let mut in_flight: Option<usize> = None;
                    let mut finished_upto: Option<usize> = None;
                    for line in BufReader::new(stdout).lines().map_while(Result::ok) {
                        *last_activity.lock().unwrap() = Instant::now();
                        if let Some(i) = line.strip_prefix("S ") {
                            in_flight = i.trim().parse().ok();
                        } else if let Some(j) = line.strip_prefix("R ") {
                            if let Ok(v) = serde_json::from_str::<Value>(j) {
                                if let Some(r) = case_from_json(&v) {
                                    results.lock().unwrap().push((in_flight.unwrap_or(from), r));
                                }
                            }
                        } else if let Some(i) = line.strip_prefix("E ") {
                            finished_upto = i.trim().parse().ok();
                            in_flight = None;
                        }
                    }
                    let status = child.wait();
                    done.store(true, Ordering::SeqCst);
                    let timed_out = wd.join().unwrap_or(false);
                    let mut stderr_tail = String::new();
                    if let Some(mut e) = child.stderr.take() {
                        use std::io::Read;
                        let mut buf = String::new();
                        let _ = e.read_to_string(&mut buf);
                        stderr_tail = buf.lines().rev().take(6).collect::<Vec<_>>().join(" | ");
                    }
                    let ok = status.as_ref().map(|s| s.success()).unwrap_or(false);
                    if ok {
                        return;
                    }
                    // the child died: blame the in-flight case, resume after it
                    let crashed = in_flight.or(finished_upto.map(|i| i + shards)).unwrap_or(from);
                    let reason = if timed_out {
                        "timeout".to_string()
                    } else {
                        match status {
                            Ok(st) => {
                                use std::os::unix::process::ExitStatusExt;
                                if stderr_tail.contains("stack overflow") {
                                    "stack-overflow".to_string()
                                } else if stderr_tail.contains("memory allocation") {
                                    "allocation-failure".to_string()
                                } else if let Some(sig) = st.signal() {
                                    format!("signal-{sig}")
                                } else {
                                    format!("exit-{}", st.code().unwrap_or(-1))
                                }
                            }
                            Err(_) => "unknown".into(),
                        }
                    };
                    let verdict = if timed_out {
                        CaseResult::inconclusive(format!("case{crashed}"), format!("case exceeded {}s without output (killed)", case_timeout.as_secs()))
                    } else {
                        CaseResult::violated(
                            format!("case{crashed}"),
                            format!("process-crash/{reason}"),
                            json!({"case_index": crashed, "reason": reason, "stderr_tail": stderr_tail,
                                   "note": "re-run the monitor with --only <case_index> (where supported) to reproduce"}),
                        )
                    };
                    results.lock().unwrap().push((crashed, verdict));
                    restarts += 1;
                    if restarts > 12 {
                        results.lock().unwrap().push((crashed, CaseResult::inconclusive(format!("shard{shard}"), "too many crashes in one shard; remaining cases skipped")));
                        return;
                    }
                    from = crashed + shards;
                }
            });
        }
    });
    let mut v = results.into_inner().unwrap();
    v.sort_by_key(|(i, _)| *i);
    v.into_iter().map(|(_, r)| r).collect()
}


/// Run a sibling monitor binary (same target directory) in `--emit <prop>` mode and import the
/// `R <json>` case results it prints. A failure to run it is an inconclusive result.
pub fn import_emitted(bin: &str, prop: &str, args: &Args, keep: impl Fn(&CaseResult) -> bool) -> Vec<CaseResult> {
    let exe = match std::env::current_exe() {
        Ok(e) => e.with_file_name(bin),
        Err(e) => return vec![CaseResult::inconclusive(bin, format!("current_exe: {e}"))],
    };
    if !exe.exists() {
        return vec![CaseResult::inconclusive(bin, format!("{} not built", exe.display()))];
    }
    let out = std::process::Command::new(&exe)
        .args(["--tier", args.tier.name(), "--seed", &args.seed.to_string(), "--emit", prop])
        .output();
    match out {
        Ok(o) if o.status.success() => String::from_utf8_lossy(&o.stdout)
            .lines()
            .filter_map(|l| l.strip_prefix("R "))
            .filter_map(|j| serde_json::from_str::<Value>(j).ok())
            .filter_map(|v| case_from_json(&v))
            .filter(|r| keep(r))
            .collect(),
        Ok(o) => vec![CaseResult::inconclusive(bin, format!("{bin} --emit {prop} exited with {:?}", o.status.code()))],
        Err(e) => vec![CaseResult::inconclusive(bin, format!("cannot run {bin}: {e}"))],
    }
}
