//! C01 — in-circuit STARK verification agrees with native verification.
//!
//! Fault enumeration, exhaustive per shape: for every proof source (small AIRs x supported
//! configurations, uni-STARK / batch-STARK / circuit-prover batch proof) the honest proof must be
//! accepted natively and by the verification circuit; then every numeric leaf of the serialized
//! (proof, public values, common data) is mutated and the verdict of the native Plonky3 verifier is
//! compared with the verdict of the circuit. For value mutations the circuit compiled for the
//! honest shape is reused (a deployed fixed verifier) and its inputs are re-packed from the mutant;
//! for shape-bearing integers the circuit is rebuilt from the mutant (builder `Err` = reject).

#[path = "c01/kit.rs"]
mod kit;

use std::sync::Arc;

use kit::json::{self as js, Path};
use kit::{CircV, NativeV, Shape};
use p3r_verif::util::*;
use rand::RngExt;
use serde_json::{Value, json};

const CHUNK: usize = 192;

struct Job {
    shape: usize,
    lo: usize,
    hi: usize,
}

#[derive(Clone, Copy, PartialEq)]
enum MutKind {
    Plus1,
    Minus1,
    Zero,
    Random(u32),
}
impl MutKind {
    fn label(&self) -> String {
        match self {
            MutKind::Plus1 => "+1".into(),
            MutKind::Minus1 => "-1".into(),
            MutKind::Zero => "0".into(),
            MutKind::Random(k) => format!("rnd{k}"),
        }
    }
}

fn mutated_value(kind: MutKind, v: u64, is_int: bool, order: u64, rng: &mut rand::rngs::SmallRng) -> Option<u64> {
    let nv = match (kind, is_int) {
        (MutKind::Plus1, true) => v.checked_add(1)?,
        (MutKind::Minus1, true) => v.checked_sub(1)?,
        (MutKind::Zero, _) => 0,
        (MutKind::Random(_), true) => return None,
        (MutKind::Plus1, false) => {
            if v + 1 >= order {
                0
            } else {
                v + 1
            }
        }
        (MutKind::Minus1, false) => {
            if v == 0 {
                order - 1
            } else {
                v - 1
            }
        }
        (MutKind::Random(_), false) => rng.random_range(0..order),
    };
    (nv != v).then_some(nv)
}

fn in_scope(p: &Path) -> bool {
    // FRI parameters are configuration, not proof data (C15 mutates them)
    !matches!(p.first(), Some(js::Seg::K(k)) if k == "fri")
}

/// Verdicts for one mutant. `compiled` is the circuit of the honest shape.
fn judge(
    ctx: &dyn kit::Ctx,
    compiled: &dyn kit::Compiled,
    mutant: &Value,
    rebuild: bool,
) -> Result<(NativeV, CircV), String> {
    let n = ctx.native(mutant)?;
    let c = if rebuild {
        match ctx.compile(mutant)? {
            Ok(c2) => c2.run(mutant)?,
            Err(v) => v,
        }
    } else {
        compiled.run(mutant)?
    };
    Ok((n, c))
}

fn detail(shape: &str, path: &Path, kind: &str, old: u64, new: u64, n: &NativeV, c: &CircV, mutant: &Value) -> Value {
    json!({"shape": shape, "path": js::path_str(path), "mutation": kind, "old": old, "new": new,
        "native": n.label(), "circuit": c.label(), "bundle": mutant})
}

fn run_job(shapes: &[Box<dyn Shape>], honest: &[Option<Arc<Value>>], job: &Job, seed: u64, kinds: &[MutKind]) -> Vec<CaseResult> {
    let shape = &shapes[job.shape];
    let name = shape.name();
    let Some(h) = &honest[job.shape] else { return vec![] };
    let ctx = match shape.ctx() {
        Ok(c) => c,
        Err(e) => return vec![CaseResult::inconclusive(format!("{name}:ctx"), format!("context: {e}"))],
    };
    let compiled = match ctx.compile(h) {
        Ok(Ok(c)) => c,
        Ok(Err(v)) => {
            return vec![CaseResult::inconclusive(format!("{name}:compile"), format!("honest compile: {}", v.label()))];
        }
        Err(e) => return vec![CaseResult::inconclusive(format!("{name}:compile"), e)],
    };
    let leaves: Vec<Path> = js::numeric_leaves(h).into_iter().filter(in_scope).collect();
    let mut out = vec![];
    for (li, p) in leaves.iter().enumerate().take(job.hi).skip(job.lo) {
        let old = js::get(h, p).and_then(|v| v.as_u64());
        let Some(old) = old else {
            out.push(CaseResult::inconclusive(format!("{name}:{}", js::path_str(p)), "non-u64 numeric leaf"));
            continue;
        };
        let is_int = js::is_int_leaf(p);
        let class = js::path_class(p);
        let mut rng = case_rng(seed, &name, li as u64);
        let mut covered = false;
        for kind in kinds {
            let Some(new) = mutated_value(*kind, old, is_int, shape.order(), &mut rng) else { continue };
            let mut m = (**h).clone();
            js::set(&mut m, p, Value::from(new));
            let key = format!("{name}:{}:{}", js::path_str(p), kind.label());
            match judge(ctx.as_ref(), compiled.as_ref(), &m, is_int) {
                Err(_) => {
                    out.push(CaseResult::held(key, false).count("undeserializable-mutant", 1));
                }
                Ok((n, c)) => {
                    covered = true;
                    let mut r = if n.accepts() == c.accepts() {
                        let tag = if n.accepts() { "both-accept" } else { "both-reject" };
                        CaseResult::held(key, true)
                            .count(format!("{tag}/{}", shape.kind()), 1)
                            .count(if is_int { "shape-int-mutants" } else { "value-mutants" }, 1)
                    } else if c.accepts() {
                        CaseResult::violated(
                            key,
                            format!("soundness/{}/{class}", shape.kind()),
                            detail(&name, p, &kind.label(), old, new, &n, &c, &m),
                        )
                    } else {
                        CaseResult::violated(
                            key,
                            format!("completeness/{}/{class}", shape.kind()),
                            detail(&name, p, &kind.label(), old, new, &n, &c, &m),
                        )
                    };
                    if n.accepts() && c.accepts() {
                        r = r.count(format!("accepted-mutation/{class}"), 1);
                    }
                    if let NativeV::Panic(site) = &n {
                        r = r.count(format!("native-panic/{site}"), 1);
                    }
                    if let CircV::Panic { entry, msg } = &c {
                        r = r.count(format!("circuit-panic/{entry}/{}", kit::norm_site(msg)), 1);
                    }
                    if let CircV::BuildErr(e) = &c {
                        r = r.count(format!("rebuild-err/{e}"), 1);
                    }
                    out.push(r);
                }
            }
        }
        out.push(
            CaseResult::held(format!("{name}:{}:covered", js::path_str(p)), false)
                .count(if covered { "leaves-covered" } else { "leaves-not-covered" }, 1),
        );
    }
    out
}

/// Signature of a disagreement on the unmodified proof of the honest prover.
fn honest_sig(kind: &str, name: &str, n: &NativeV, c: &CircV) -> String {
    let side = if n.accepts() { "completeness" } else { "soundness" };
    let cls = if name.ends_with("-zk") || name.contains("-zk-") {
        "/zk"
    } else if c.label().contains("mmcs-private-data") {
        "/mmcs-path-length"
    } else if name.contains("subrl-") && c.label().starts_with("build-err:InvalidProofShape") {
        // a preprocessed column declared row-local: no preprocessed_next opening in the proof
        "/preprocessed-row-local:build-err-InvalidProofShape"
    } else {
        ""
    };
    format!("{side}/{kind}/honest-proof{cls}")
}

fn replay(path: &std::path::Path) -> Vec<CaseResult> {
    let v: Value = serde_json::from_str(&std::fs::read_to_string(path).expect("replay file")).expect("json");
    let d = &v["detail"];
    let name = d["shape"].as_str().unwrap_or("").to_string();
    let Some(shape) = kit::shape_by_name(&name) else {
        return vec![CaseResult::inconclusive("replay", format!("unknown shape {name}"))];
    };
    let honest = match shape.honest() {
        Ok(h) => h,
        Err(e) => return vec![CaseResult::inconclusive("replay", e)],
    };
    let ctx = match shape.ctx() {
        Ok(c) => c,
        Err(e) => return vec![CaseResult::inconclusive("replay", e)],
    };
    let mutant = if d["bundle"].is_null() { honest.clone() } else { d["bundle"].clone() };
    let p = js::parse_path(d["path"].as_str().unwrap_or(""));
    let is_int = js::is_int_leaf(&p);
    let class = js::path_class(&p);
    let compiled = match ctx.compile(&honest) {
        Ok(Ok(c)) => c,
        Ok(Err(e)) => return vec![CaseResult::inconclusive("replay", e.label())],
        Err(e) => return vec![CaseResult::inconclusive("replay", e)],
    };
    match judge(ctx.as_ref(), compiled.as_ref(), &mutant, is_int) {
        Err(e) => vec![CaseResult::inconclusive("replay", e)],
        Ok((n, c)) => {
            println!("replay {name} {}: native={} circuit={}", d["path"], n.label(), c.label());
            if n.accepts() == c.accepts() {
                vec![CaseResult::held("replay", true)]
            } else if let Some(label) = d["path"].as_str().and_then(|p| p.strip_prefix("forged:")) {
                let class = label.split('@').next().unwrap_or(label);
                let side = if c.accepts() { "soundness" } else { "completeness" };
                vec![CaseResult::violated("replay", format!("{side}/{}/forged-proof/{class}", shape.kind()), d.clone())]
            } else if d["path"].as_str() == Some("") {
                vec![CaseResult::violated("replay", honest_sig(shape.kind(), &name, &n, &c), d.clone())]
            } else if c.accepts() {
                vec![CaseResult::violated("replay", format!("soundness/{}/{class}", shape.kind()), d.clone())]
            } else {
                vec![CaseResult::violated("replay", format!("completeness/{}/{class}", shape.kind()), d.clone())]
            }
        }
    }
}

fn main() {
    let args = parse_args();
    let mut rep = Report::new(
        "C01",
        "fault_enumeration",
        &args,
        "case = (proof shape, numeric leaf of the serialized proof / public values / common data, mutation value); \
         non-trivial = the mutant deserializes and both verdicts (native verifier, verification circuit) were \
         obtained and compared; distinct by (shape, leaf path, mutation)",
    );
    rep.assume("native Plonky3 verifiers (p3-uni-stark / p3-batch-stark / BatchStarkProver::verify_all_tables) are the reference");
    rep.assume("circuit accept = CircuitRunner::run Ok on inputs re-packed from the mutant (MMCS private data from the mutant)");
    rep.assume("FRI test parameters of the repository (log_blowup 2, 2 queries, 1 PoW bit); MMCS verification enabled (with_mmcs)");
    if let Some(p) = &args.replay {
        let rs = replay(p);
        rep.add_all(rs);
        rep.finish(0);
    }
    let thorough = args.tier == Tier::Thorough;
    if let Some(spec) = args.extra.get("probe") {
        // ad-hoc: honest verdicts of shapes given as `cfg/kind/airs;cfg/kind/airs`
        for sp in spec.split(';') {
            let Some(s) = kit::probe_shape(sp) else {
                println!("{sp}: bad spec");
                continue;
            };
            let r = s.honest().and_then(|h| {
                let ctx = s.ctx()?;
                let n = ctx.native(&h)?;
                let c = match ctx.compile(&h)? {
                    Ok(c) => c.run(&h)?,
                    Err(v) => v,
                };
                Ok((n.label(), c.label()))
            });
            println!("{sp}: {r:?}");
        }
        return;
    }
    let mut shapes = kit::all_shapes(thorough);
    if let Some(f) = args.extra.get("shape") {
        shapes.retain(|s| s.name().contains(f.as_str()));
    }
    // shapes with a known honest-proof disagreement: honest verdicts only (see kit::defect_shapes)
    let zk_uni = if args.extra.contains_key("shape") { vec![] } else { kit::defect_shapes() };
    let n_main = shapes.len();
    shapes.extend(zk_uni);

    let kinds: Vec<MutKind> = if thorough {
        let mut k = vec![MutKind::Plus1, MutKind::Minus1, MutKind::Zero];
        k.extend((0..7).map(MutKind::Random));
        k
    } else {
        vec![MutKind::Plus1, MutKind::Random(0)]
    };

    // Honest proofs: native accepts and the circuit accepts.
    let mut honest: Vec<Option<Arc<Value>>> = vec![];
    let mut jobs = vec![];
    let mut all_complete = true;
    for (si, s) in shapes.iter().enumerate() {
        let name = s.name();
        rep.observe("shapes", name.clone());
        let h = match s.honest() {
            Ok(h) => h,
            Err(e) => {
                rep.add(CaseResult::inconclusive(format!("{name}:honest"), format!("honest proof: {e}")));
                honest.push(None);
                all_complete = false;
                continue;
            }
        };
        let verdicts = s.ctx().and_then(|ctx| {
            let n = ctx.native(&h)?;
            let c = match ctx.compile(&h)? {
                Ok(c) => c.run(&h)?,
                Err(v) => v,
            };
            Ok((n, c))
        });
        match verdicts {
            Err(e) => {
                rep.add(CaseResult::inconclusive(format!("{name}:honest"), format!("honest bundle: {e}")));
                honest.push(None);
                all_complete = false;
            }
            Ok((n, c)) if n.accepts() && c.accepts() => {
                let leaves = js::numeric_leaves(&h).into_iter().filter(in_scope).count();
                rep.add(
                    CaseResult::held(format!("{name}:honest"), true)
                        .count("honest-proofs-accepted-by-both", 1)
                        .count("leaves-total", leaves as u64)
                        .with_sample(json!({"shape": name, "numeric_leaves": leaves})),
                );
                if si < n_main {
                    let mut lo = 0;
                    while lo < leaves {
                        jobs.push(Job { shape: si, lo, hi: (lo + CHUNK).min(leaves) });
                        lo += CHUNK;
                    }
                    honest.push(Some(Arc::new(h)));
                } else {
                    honest.push(None);
                }
            }
            Ok((n, c)) => {
                if si < n_main {
                    all_complete = false;
                }
                rep.add(CaseResult::violated(
                    format!("{name}:honest"),
                    honest_sig(s.kind(), &name, &n, &c),
                    json!({"shape": name, "path": "", "native": n.label(), "circuit": c.label(), "bundle": Value::Null,
                        "note": "the unmodified proof of the honest prover"}),
                ));
                honest.push(None);
            }
        }
    }
    // Forged proofs (false statements through the real prover): only the algebraic checks can
    // reject them, so they exercise the constraint / quotient / lookup-sum comparisons that no
    // single-element mutation can reach (everything else is bound by the transcript or a Merkle root).
    for (si, s) in shapes.iter().enumerate().take(n_main) {
        if honest[si].is_none() {
            continue;
        }
        let name = s.name();
        let h = honest[si].clone().unwrap();
        let Ok(ctx) = s.ctx() else { continue };
        let Ok(Ok(compiled)) = ctx.compile(&h) else { continue };
        for (label, fb) in s.forged() {
            let key = format!("{name}:forged:{label}");
            let fb = match fb {
                Ok(b) => b,
                Err(e) => {
                    rep.add(CaseResult::held(key, false).count(format!("forging-failed/{}", e.chars().take(60).collect::<String>()), 1));
                    continue;
                }
            };
            match judge(ctx.as_ref(), compiled.as_ref(), &fb, false) {
                Err(e) => rep.add(CaseResult::inconclusive(key, e)),
                Ok((n, c)) => {
                    let class = label.split('@').next().unwrap_or(&label).to_string();
                    if n.accepts() == c.accepts() {
                        rep.add(
                            CaseResult::held(key, !n.accepts())
                                .count(format!("forged/{}/{}", s.kind(), if n.accepts() { "both-accept(ineffective)" } else { "both-reject" }), 1),
                        );
                    } else {
                        let side = if c.accepts() { "soundness" } else { "completeness" };
                        rep.add(CaseResult::violated(
                            key,
                            format!("{side}/{}/forged-proof/{class}", s.kind()),
                            json!({"shape": name, "path": format!("forged:{label}"), "native": n.label(), "circuit": c.label(), "bundle": fb}),
                        ));
                    }
                }
            }
        }
    }
    let seed = args.seed;
    let results = run_cases(jobs.len(), args.threads, |i| run_job(&shapes, &honest, &jobs[i], seed, &kinds));
    let mut not_covered = 0u64;
    for r in &results {
        if matches!(r.verdict, Verdict::Inconclusive(_)) {
            all_complete = false;
        }
        for (k, n) in &r.counters {
            if k == "leaves-not-covered" {
                not_covered += n;
            }
        }
    }
    rep.add_all(results);
    // a leaf is "not covered" only if none of its mutants deserialized
    rep.set_extra("leaves_without_deserializable_mutant", json!(not_covered));
    rep.set_exhaustive(all_complete && not_covered == 0 && !args.extra.contains_key("shape"));
    rep.finish(args.tier.pick(5_000, 50_000));
}
