//! C18 — compilation and key generation are deterministic.
//!
//! Runtime monitor over repeated executions: the same program is built R times in this process
//! (every `HashMap::new()` of the code under test gets a fresh hash seed) and in P freshly spawned
//! processes; a canonical digest of everything a prover and a verifier must agree on (op list,
//! witness numbering, input rows, expression map, rewrite map, preprocessed columns, AIR
//! kinds/degrees/order, preprocessed commitment) is compared across all of them. A canary map
//! with the code's own key type is iterated in every repetition so that the evidence shows the
//! iteration-order dimension was actually varied.

use std::collections::{BTreeMap, BTreeSet};
use std::process::Command;

use p3_baby_bear::{BabyBear, default_babybear_poseidon2_16};
use p3_batch_stark::ProverData;
use p3_circuit::ops::{Poseidon2Config, Poseidon2PermCall, generate_poseidon2_trace, generate_recompose_trace};
use p3_circuit::{Circuit, CircuitBuilder, WitnessId};
use p3_circuit_prover::batch_stark_prover::{poseidon2_air_builders, poseidon2_preprocessor, recompose_air_builders, recompose_preprocessor};
use p3_circuit_prover::common::{CircuitTableAir, NpoAirBuilder, NpoPreprocessor, get_airs_and_degrees_with_prep};
use p3_circuit_prover::config::{self, BabyBearConfig};
use p3_circuit_prover::{ConstraintProfile, TablePacking};
use p3_field::extension::BinomialExtensionField;
use p3_field::Field;
use p3_poseidon2_circuit_air::BabyBearD4Width16;
use p3r_verif::fields::*;
use p3r_verif::opsem::ops_text;
use p3r_verif::pgen::{GenOpts, gen_prog};
use p3r_verif::pipeline::{PackCfg, SETUP_NAMES};
use p3r_verif::prog::build;
use p3r_verif::util::*;
use p3r_verif::with_setup;
use rand::RngExt;
use serde_json::{Value, json};

type EF4 = BinomialExtensionField<BabyBear, 4>;

/// Digest components, each a (name, hash) pair so that a mismatch names the component.
type Parts = Vec<(String, u64)>;

fn h(s: &str) -> u64 {
    fnv(s)
}

fn circuit_parts<E: Field>(c: &Circuit<E>) -> Parts {
    let mut parts = vec![];
    parts.push(("ops".to_string(), h(&ops_text(c)[..c.ops.len()].join("\n"))));
    parts.push(("witness_count".into(), c.witness_count as u64));
    parts.push(("public_rows".into(), h(&format!("{:?}", c.public_rows))));
    parts.push(("private_input_rows".into(), h(&format!("{:?}", c.private_input_rows))));
    let mut e2w: Vec<(u32, u32)> = c.expr_to_widx.iter().map(|(e, w)| (e.0, w.0)).collect();
    e2w.sort();
    parts.push(("expr_to_widx".into(), h(&format!("{e2w:?}"))));
    let mut rw: Vec<(u32, u32)> = c.witness_rewrite.iter().flatten().map(|(a, b)| (a.0, b.0)).collect();
    rw.sort();
    parts.push(("witness_rewrite".into(), h(&format!("{rw:?}"))));
    let mut tags: Vec<(String, u32)> = c.tag_to_witness.iter().map(|(t, w)| (t.clone(), w.0)).collect();
    tags.sort();
    parts.push(("tag_to_witness".into(), h(&format!("{tags:?}"))));
    parts.push(("trace_generator_order".into(), h(&format!("{:?}", c.non_primitive_trace_generator_order))));
    parts
}

fn prep_parts<E: Field, const D: usize>(c: &Circuit<E>) -> Parts {
    let mut parts = vec![];
    match c.generate_preprocessed_columns::<D>() {
        Ok(p) => {
            parts.push(("prep.primitive".into(), h(&format!("{:?}", p.primitive))));
            let mut np: Vec<(String, String)> = p.non_primitive.iter().map(|(k, v)| (format!("{k:?}"), format!("{v:?}"))).collect();
            np.sort();
            parts.push(("prep.non_primitive".into(), h(&format!("{np:?}"))));
            parts.push(("prep.ext_reads".into(), h(&format!("{:?}", p.ext_reads))));
            let mut dup: Vec<(String, String)> = p.dup_npo_outputs.iter().map(|(k, v)| (format!("{k:?}"), format!("{v:?}"))).collect();
            dup.sort();
            parts.push(("prep.dup_npo_outputs".into(), h(&format!("{dup:?}"))));
            let mut hw: Vec<u32> = p.hint_output_wids.iter().copied().collect();
            hw.sort();
            parts.push(("prep.hint_output_wids".into(), h(&format!("{hw:?}"))));
        }
        Err(e) => parts.push(("prep.error".into(), h(&format!("{e:?}")))),
    }
    parts
}

fn air_kind<SC: p3_uni_stark::StarkGenericConfig, const D: usize>(a: &CircuitTableAir<SC, D>) -> String
where
    p3_uni_stark::SymbolicExpressionExt<p3_uni_stark::Val<SC>, SC::Challenge>: p3_field::Algebra<p3_uni_stark::SymbolicExpression<p3_uni_stark::Val<SC>>>,
{
    match a {
        CircuitTableAir::Const(_) => "const".into(),
        CircuitTableAir::Public(_) => "public".into(),
        CircuitTableAir::Alu(_) => "alu".into(),
        CircuitTableAir::Dynamic(d) => format!("dynamic(w={})", p3_air::BaseAir::<p3_uni_stark::Val<SC>>::width(d)),
    }
}

/// Stream A: a generated program on any setup.
fn parts_generated<S: Setup>(seed: u64, idx: usize) -> Option<Parts> {
    let mut rng = case_rng(seed, "c18", idx as u64);
    let opts = GenOpts {
        size: rng.random_range(4..40),
        connect_pct: 26,
        clean: idx % 2 == 0,
        recompose_npo: matches!(S::D, 2 | 4 | 5) && rng.random_range(0..3u32) == 0,
        ..Default::default()
    };
    let g = gen_prog::<S>(&mut rng, &opts);
    let cfg = PackCfg::random(&mut rng);
    let built = guarded(|| build::<S>(&g.prog)).ok()?.ok()?;
    let mut parts = circuit_parts(&built.circuit);
    let recompose = g.prog.recompose_npo;
    match guarded(|| S::prep_x(&built.circuit, &cfg.packing(), cfg.profile(), recompose)) {
        Ok(Ok(cpd)) => {
            parts.push(("keygen.primitive_columns".into(), h(&format!("{:?}", cpd.primitive_columns))));
            let mut np: Vec<(String, String)> = cpd.non_primitive_columns.iter().map(|(k, v)| (format!("{k:?}"), format!("{v:?}"))).collect();
            np.sort();
            parts.push(("keygen.non_primitive_columns".into(), h(&format!("{np:?}"))));
            parts.push(("keygen.commitment".into(), h(&commitment_json(cpd.common_data()))));
            parts.push(("keygen.lookups".into(), h(&format!("{:?}", cpd.common_data().lookups))));
        }
        Ok(Err(e)) => parts.push(("keygen.error".into(), h(&e))),
        Err(p) => parts.push(("keygen.panic".into(), h(&panic_site(&p)))),
    }
    Some(parts)
}

/// Stream B: BabyBear D4 circuit with Poseidon2 rows, recompose rows, many connects and tags.
fn parts_npo(seed: u64, idx: usize) -> Option<Parts> {
    let mut rng = case_rng(seed, "c18-npo", idx as u64);
    let perm = default_babybear_poseidon2_16();
    let mut b = CircuitBuilder::<EF4>::new();
    b.enable_poseidon2_perm::<BabyBearD4Width16, _>(generate_poseidon2_trace::<EF4, BabyBearD4Width16>, perm);
    let with_recompose = rng.random_range(0..2u32) == 0;
    if with_recompose {
        b.enable_recompose::<BabyBear>(generate_recompose_trace::<BabyBear, EF4>);
    }
    let cfg = Poseidon2Config::BABY_BEAR_D4_W16;
    let mut pool: Vec<p3_circuit::ExprId> = (0..4).map(|_| b.public_input()).collect();
    let n_steps = rng.random_range(2..10usize);
    for s in 0..n_steps {
        let pick = |rng: &mut rand::rngs::SmallRng, pool: &Vec<p3_circuit::ExprId>| pool[rng.random_range(0..pool.len())];
        match rng.random_range(0..5u32) {
            0 | 1 => {
                let ins: Vec<_> = (0..4).map(|_| Some(pick(&mut rng, &pool))).collect();
                if let Ok((_id, outs)) = b.add_poseidon2_perm(&Poseidon2PermCall {
                    config: cfg,
                    new_start: true,
                    merkle_path: false,
                    mmcs_bit: None,
                    mmcs_bit2: None,
                    inputs: ins,
                    out_ctl: vec![true, true],
                    return_all_outputs: false,
                    mmcs_index_sum: None,
                }) {
                    for o in outs.into_iter().flatten() {
                        pool.push(o);
                    }
                }
            }
            2 => {
                let x = pick(&mut rng, &pool);
                if let Ok(cs) = b.decompose_ext_to_base_coeffs::<BabyBear>(x) {
                    pool.extend(cs);
                }
            }
            3 => {
                let (x, y) = (pick(&mut rng, &pool), pick(&mut rng, &pool));
                let m = b.mul(x, y);
                let a = b.add(m, x);
                pool.push(a);
                let _ = b.tag(a, format!("t{s}"));
            }
            _ => {
                let x = pick(&mut rng, &pool);
                let p = b.public_input();
                b.connect(x, p);
            }
        }
    }
    let circuit = guarded(|| b.build()).ok()?.ok()?;
    let mut parts = circuit_parts(&circuit);
    parts.extend(prep_parts::<EF4, 4>(&circuit));
    // key generation with the plugin preprocessors / AIR builders
    let packing = TablePacking::new(rng.random_range(1..4), rng.random_range(1..5));
    let pre: Vec<Box<dyn NpoPreprocessor<BabyBear>>> = vec![poseidon2_preprocessor::<BabyBear>(), recompose_preprocessor::<BabyBear>(false)];
    let mut airb: Vec<Box<dyn NpoAirBuilder<BabyBearConfig, 4>>> = poseidon2_air_builders::<BabyBearConfig, 4>();
    airb.extend(recompose_air_builders::<BabyBearConfig, 4>(1, false));
    match guarded(|| get_airs_and_degrees_with_prep::<BabyBearConfig, EF4, 4>(&circuit, &packing, &pre, &airb, ConstraintProfile::Standard)) {
        Ok(Ok((ad, prim, np))) => {
            let kinds: Vec<(String, usize)> = ad.iter().map(|(a, d)| (air_kind(a), *d)).collect();
            parts.push(("keygen.air_kinds_degrees_order".into(), h(&format!("{kinds:?}"))));
            parts.push(("keygen.primitive_columns".into(), h(&format!("{prim:?}"))));
            let mut npv: Vec<(String, String)> = np.iter().map(|(k, v)| (format!("{k:?}"), format!("{v:?}"))).collect();
            npv.sort();
            parts.push(("keygen.non_primitive_columns".into(), h(&format!("{npv:?}"))));
            let (airs, degs): (Vec<_>, Vec<usize>) = ad.into_iter().unzip();
            match guarded(|| ProverData::from_airs_and_degrees(&config::baby_bear(), &airs, &degs)) {
                Ok(pd) => parts.push(("keygen.commitment".into(), h(&commitment_json(&pd.common)))),
                Err(p) => parts.push(("keygen.commitment.panic".into(), h(&panic_site(&p)))),
            }
        }
        Ok(Err(e)) => parts.push(("keygen.error".into(), h(&format!("{e:?}")))),
        Err(p) => parts.push(("keygen.panic".into(), h(&panic_site(&p)))),
    }
    Some(parts)
}

fn parts_for(seed: u64, idx: usize) -> Option<Parts> {
    if idx % 5 == 4 {
        parts_npo(seed, idx)
    } else {
        with_setup!(SETUP_NAMES[idx % SETUP_NAMES.len()], parts_generated, seed, idx)
    }
}

/// Iteration order of a fresh map with the code's key type: evidence that hash seeds vary.
fn canary_order() -> String {
    let mut m = hashbrown::HashMap::new();
    for i in 0..12u32 {
        m.insert(WitnessId(i * 7 + 1), i);
    }
    m.keys().map(|k| k.0.to_string()).collect::<Vec<_>>().join(",")
}

fn main() {
    let args = parse_args();
    if args.extra.contains_key("worker") {
        let from: usize = args.extra.get("from").and_then(|s| s.parse().ok()).unwrap_or(0);
        let to: usize = args.extra.get("to").and_then(|s| s.parse().ok()).unwrap_or(0);
        for idx in from..to {
            let parts = guarded(|| parts_for(args.seed, idx)).ok().flatten();
            println!("{}", json!({"idx": idx, "parts": parts, "canary": canary_order()}));
        }
        return;
    }
    let mut rep = Report::new(
        "C18",
        "exploration",
        &args,
        "case = (program, repetition set): R in-process rebuilds + P fresh processes of the same program; the digest of \
         ops / numbering / rows / maps / preprocessed columns / AIR order / preprocessed commitment must be identical; \
         non-trivial = the program built and >= 3 distinct canary iteration orders were observed in the run; distinct by \
         program index",
    );
    rep.assume("the `parallel` cargo feature of p3-circuit-prover is not enabled in the harness build (thread-count dimension not varied)");
    let n = args.tier.pick(2000usize, 60_000usize);
    let reps = args.tier.pick(5usize, 8usize);
    let procs = args.tier.pick(3usize, 6usize);
    let seed = args.seed;
    // in-process repetitions
    let canaries = std::sync::Mutex::new(BTreeSet::new());
    let inproc: Vec<(usize, Vec<Option<Parts>>)> = {
        let v = std::sync::Mutex::new(vec![]);
        let _ = run_cases(n, args.threads, |i| {
            let mut rs = vec![];
            for _ in 0..reps {
                canaries.lock().unwrap().insert(canary_order());
                rs.push(guarded(|| parts_for(seed, i)).ok().flatten());
            }
            v.lock().unwrap().push((i, rs));
            vec![]
        });
        let mut x = v.into_inner().unwrap();
        x.sort_by_key(|t| t.0);
        x
    };
    // fresh processes
    let exe = std::env::current_exe().unwrap();
    let mut by_proc: Vec<BTreeMap<usize, Option<Parts>>> = vec![];
    let mut worker_err = None;
    let outs: Vec<Result<(BTreeMap<usize, Option<Parts>>, BTreeSet<String>), String>> = std::thread::scope(|s| {
        let hs: Vec<_> = (0..procs)
            .map(|_| {
                let exe = exe.clone();
                s.spawn(move || {
                    let out = Command::new(&exe)
                        .args(["--worker", "1", "--seed", &seed.to_string(), "--from", "0", "--to", &n.to_string()])
                        .output()
                        .map_err(|e| format!("spawn: {e}"))?;
                    if !out.status.success() {
                        return Err(format!("worker exit {:?}", out.status.code()));
                    }
                    let mut m = BTreeMap::new();
                    let mut cs = BTreeSet::new();
                    for line in String::from_utf8_lossy(&out.stdout).lines() {
                        if let Ok(v) = serde_json::from_str::<Value>(line) {
                            let idx = v["idx"].as_u64().unwrap_or(0) as usize;
                            let parts: Option<Parts> = serde_json::from_value(v["parts"].clone()).ok().flatten();
                            m.insert(idx, parts);
                            cs.insert(v["canary"].as_str().unwrap_or("").to_string());
                        }
                    }
                    Ok((m, cs))
                })
            })
            .collect();
        hs.into_iter().map(|h| h.join().unwrap()).collect()
    });
    for o in outs {
        match o {
            Ok((m, cs)) => {
                by_proc.push(m);
                canaries.lock().unwrap().extend(cs);
            }
            Err(e) => worker_err = Some(e),
        }
    }
    if let Some(e) = &worker_err {
        rep.add(CaseResult::inconclusive("workers", format!("worker process failed: {e}")));
    }
    let n_canary = canaries.lock().unwrap().len();
    rep.set_extra("distinct_canary_iteration_orders", json!(n_canary));
    rep.set_extra("in_process_repetitions", json!(reps));
    rep.set_extra("fresh_processes", json!(by_proc.len()));
    let varied = n_canary >= 3;
    for (idx, runs) in &inproc {
        let key = format!("prog{idx}");
        let Some(Some(first)) = runs.first() else {
            rep.add(CaseResult::held(key, false).count("program-did-not-build", 1));
            continue;
        };
        let mut all: Vec<(String, &Option<Parts>)> = runs.iter().enumerate().map(|(k, r)| (format!("rep{k}"), r)).collect();
        for (p, m) in by_proc.iter().enumerate() {
            if let Some(r) = m.get(idx) {
                all.push((format!("proc{p}"), r));
            }
        }
        let mut differing: BTreeSet<String> = BTreeSet::new();
        for (_, r) in &all {
            match r {
                Some(parts) => {
                    if parts.len() != first.len() {
                        differing.insert("part-count".into());
                    }
                    for (a, b) in parts.iter().zip(first.iter()) {
                        if a != b {
                            differing.insert(if a.0 == b.0 { a.0.clone() } else { format!("{}|{}", a.0, b.0) });
                        }
                    }
                }
                None => {
                    differing.insert("build-outcome".into());
                }
            }
        }
        if differing.is_empty() {
            let stream = if idx % 5 == 4 { "npo-rich" } else { "generated" };
            let mut r = CaseResult::held(key, varied).count(format!("stream/{stream}"), 1).count("digests-compared", all.len() as u64);
            if *idx < 3 {
                r = r.with_sample(json!({"program": idx, "stream": stream, "executions_compared": all.len(),
                    "components": first.iter().map(|p| p.0.clone()).collect::<Vec<_>>()}));
            }
            rep.add(r);
        } else {
            let comp = differing.iter().next().unwrap().clone();
            rep.add(CaseResult::violated(
                key,
                format!("nondeterministic/{comp}"),
                json!({"seed": seed, "program_index": idx, "differing_components": differing,
                       "executions": all.iter().map(|(n, r)| (n.clone(), r.as_ref().map(|p| p.iter().map(|x| format!("{}={:x}", x.0, x.1)).collect::<Vec<_>>()))).collect::<Vec<_>>()}),
            ));
        }
    }
    if !varied {
        rep.add(CaseResult::inconclusive("canary", format!("only {n_canary} distinct map iteration orders observed")));
    }
    rep.finish(args.tier.pick(800, 20_000));
}
