//! C18 — compilation and key generation are deterministic.
//!
//! Runtime monitor over repeated executions: the same program is built R times in this process
//! (every `HashMap::new()` of the code under test gets a fresh hash seed) and in P freshly spawned
//! processes; a canonical digest of everything a prover and a verifier must agree on (op list,
//! witness numbering, input rows, expression map, rewrite map, preprocessed columns, AIR
//! kinds/degrees/order, preprocessed commitment) is compared across all of them. A canary map
//! with the code's own key type is iterated in every repetition so that the evidence shows the
//! iteration-order dimension was actually varied.

#![allow(dead_code, clippy::type_complexity, clippy::too_many_arguments)]

#[path = "c01/kit.rs"]
mod kit;
#[macro_use]
#[path = "c05.rs"]
mod c05;

use std::collections::{BTreeMap, BTreeSet};
use std::process::Command;

use p3_baby_bear::{BabyBear, default_babybear_poseidon2_16};
use p3_batch_stark::ProverData;
use p3_circuit::ops::{Poseidon2Config, Poseidon2PermCall, generate_poseidon2_trace, generate_recompose_trace};
use p3_circuit::{Circuit, CircuitBuilder, WitnessId};
use p3_circuit_prover::batch_stark_prover::{poseidon2_air_builders, poseidon2_preprocessor, recompose_air_builders, recompose_preprocessor};
use p3_circuit_prover::common::{CircuitTableAir, NpoAirBuilder, NpoPreprocessor, get_airs_and_degrees_with_prep};
use p3_circuit_prover::config::{self, BabyBearConfig};
use p3_circuit_prover::{ConstraintProfile, TablePacking};
use p3_field::extension::BinomialExtensionField;
use p3_field::Field;
use p3_poseidon2_circuit_air::BabyBearD4Width16;
use p3r_verif::fields::*;
use p3r_verif::opsem::ops_text;
use p3r_verif::pgen::{GenOpts, gen_prog};
use p3r_verif::pipeline::run_pipeline;
use c05::{BbD1P1, BbD1P2, BbD4P1, BbD4P2, GlD2P1, GlD2P2, KbD1P1, KbD1P2, KbD4P1, KbD4P2, KbD5P1, KbD5P2};
use p3r_verif::pipeline::{PackCfg, SETUP_NAMES};
use p3r_verif::prog::build;
use p3r_verif::util::*;
use p3r_verif::with_setup;
use rand::RngExt;
use serde_json::{Value, json};

type EF4 = BinomialExtensionField<BabyBear, 4>;

/// Digest components, each a (name, hash) pair so that a mismatch names the component.
type Parts = Vec<(String, u64)>;

fn h(s: &str) -> u64 {
    fnv(s)
}

fn circuit_parts<E: Field>(c: &Circuit<E>) -> Parts {
    let mut parts = vec![];
    parts.push(("ops".to_string(), h(&ops_text(c)[..c.ops.len()].join("\n"))));
    parts.push(("witness_count".into(), c.witness_count as u64));
    parts.push(("public_rows".into(), h(&format!("{:?}", c.public_rows))));
    parts.push(("private_input_rows".into(), h(&format!("{:?}", c.private_input_rows))));
    let mut e2w: Vec<(u32, u32)> = c.expr_to_widx.iter().map(|(e, w)| (e.0, w.0)).collect();
    e2w.sort();
    parts.push(("expr_to_widx".into(), h(&format!("{e2w:?}"))));
    let mut rw: Vec<(u32, u32)> = c.witness_rewrite.iter().flatten().map(|(a, b)| (a.0, b.0)).collect();
    rw.sort();
    parts.push(("witness_rewrite".into(), h(&format!("{rw:?}"))));
    let mut tags: Vec<(String, u32)> = c.tag_to_witness.iter().map(|(t, w)| (t.clone(), w.0)).collect();
    tags.sort();
    parts.push(("tag_to_witness".into(), h(&format!("{tags:?}"))));
    parts.push(("trace_generator_order".into(), h(&format!("{:?}", c.non_primitive_trace_generator_order))));
    parts
}

fn prep_parts<E: Field, const D: usize>(c: &Circuit<E>) -> Parts {
    let mut parts = vec![];
    match c.generate_preprocessed_columns::<D>() {
        Ok(p) => {
            parts.push(("prep.primitive".into(), h(&format!("{:?}", p.primitive))));
            let mut np: Vec<(String, String)> = p.non_primitive.iter().map(|(k, v)| (format!("{k:?}"), format!("{v:?}"))).collect();
            np.sort();
            parts.push(("prep.non_primitive".into(), h(&format!("{np:?}"))));
            parts.push(("prep.ext_reads".into(), h(&format!("{:?}", p.ext_reads))));
            let mut dup: Vec<(String, String)> = p.dup_npo_outputs.iter().map(|(k, v)| (format!("{k:?}"), format!("{v:?}"))).collect();
            dup.sort();
            parts.push(("prep.dup_npo_outputs".into(), h(&format!("{dup:?}"))));
            let mut hw: Vec<u32> = p.hint_output_wids.iter().copied().collect();
            hw.sort();
            parts.push(("prep.hint_output_wids".into(), h(&format!("{hw:?}"))));
        }
        Err(e) => parts.push(("prep.error".into(), h(&format!("{e:?}")))),
    }
    parts
}

fn air_kind<SC: p3_uni_stark::StarkGenericConfig, const D: usize>(a: &CircuitTableAir<SC, D>) -> String
where
    p3_uni_stark::SymbolicExpressionExt<p3_uni_stark::Val<SC>, SC::Challenge>: p3_field::Algebra<p3_uni_stark::SymbolicExpression<p3_uni_stark::Val<SC>>>,
{
    match a {
        CircuitTableAir::Const(_) => "const".into(),
        CircuitTableAir::Public(_) => "public".into(),
        CircuitTableAir::Alu(_) => "alu".into(),
        CircuitTableAir::Dynamic(d) => format!("dynamic(w={})", p3_air::BaseAir::<p3_uni_stark::Val<SC>>::width(d)),
    }
}

/// Stream A: a generated program on any setup.
fn parts_generated<S: Setup>(seed: u64, idx: usize) -> Option<Parts> {
    let mut rng = case_rng(seed, "c18", idx as u64);
    let opts = GenOpts {
        size: rng.random_range(4..40),
        connect_pct: 26,
        clean: idx % 2 == 0,
        recompose_npo: matches!(S::D, 2 | 4 | 5) && rng.random_range(0..3u32) == 0,
        recompose_variants: true,
        ..Default::default()
    };
    let g = gen_prog::<S>(&mut rng, &opts);
    let cfg = PackCfg::random(&mut rng);
    let built = guarded(|| build::<S>(&g.prog)).ok()?.ok()?;
    let mut parts = circuit_parts(&built.circuit);
    let recompose = g.prog.recompose_npo;
    let _rc = p3r_verif::fields::RecomposeCfg::set(g.prog.recompose_cfg());
    match guarded(|| S::prep_x(&built.circuit, &cfg.packing(), cfg.profile(), recompose)) {
        Ok(Ok(cpd)) => {
            parts.push(("keygen.primitive_columns".into(), h(&format!("{:?}", cpd.primitive_columns))));
            let mut np: Vec<(String, String)> = cpd.non_primitive_columns.iter().map(|(k, v)| (format!("{k:?}"), format!("{v:?}"))).collect();
            np.sort();
            parts.push(("keygen.non_primitive_columns".into(), h(&format!("{np:?}"))));
            parts.push(("keygen.commitment".into(), h(&commitment_json(cpd.common_data()))));
            parts.push(("keygen.lookups".into(), h(&format!("{:?}", cpd.common_data().lookups))));
        }
        Ok(Err(e)) => parts.push(("keygen.error".into(), h(&e))),
        Err(p) => parts.push(("keygen.panic".into(), h(&panic_site(&p)))),
    }
    if idx % 16 == 0 {
        // trace generation + proving: the main-trace commitment is a deterministic function of the
        // generated traces (non-hiding PCS), so it observes trace generation end to end
        let pl = run_pipeline::<S>(&g.prog, &g.publics, &g.privates, &cfg, false, true);
        parts.push(("run.stage_outcomes".into(), h(&format!("{}|{}|{}", pl.run.class(), pl.prove.class(), pl.verify.class()))));
        if let (Some(t), Some(b)) = (&pl.traces, &pl.built) {
            if let Ok(m) = S::mains(&b.circuit, t, &cfg.packing()) {
                parts.push(("run.primitive_main_matrices".into(), h(&format!("{m:?}"))));
            }
        }
        if let Some(proof) = &pl.proof {
            proof_parts(proof, &mut parts);
        }
    }
    Some(parts)
}

/// Digest of what a proof says about the traces it was made from: the main-trace commitment
/// (function of every table's main matrix) is compared; the digest of the whole proof is only an
/// observation (`obs.` parts never make a violation: the upstream prover may legitimately use
/// randomness).
fn proof_parts<P: serde::Serialize>(proof: &P, parts: &mut Parts) {
    if let Ok(v) = serde_json::to_value(proof) {
        let main = &v["proof"]["commitments"]["main"];
        if !main.is_null() {
            parts.push(("prove.main_trace_commitment".into(), h(&main.to_string())));
        }
        parts.push(("prove.table_metadata".into(), h(&format!("{}|{}|{}|{}", v["rows"], v["table_packing"], v["non_primitives"].as_array().map_or(0, |a| a.len()), v["ext_degree"]))));
        parts.push(("obs.proof_bytes".into(), h(&v.to_string())));
    }
}

/// Stream C: a circuit built by the library's in-circuit challenger (Poseidon2 / Poseidon1 rows,
/// recompose rows, decomposition hints) on a random transcript history; compiled, keys generated
/// with the plugin table provers, run, proven. This is the stream in which the `parallel` feature
/// matters: the Poseidon AIR trace matrices are filled with `par_chunks_exact_mut`.
fn parts_chal<C: c05::Cfg>(seed: u64, idx: usize) -> Option<Parts> {
    let mut rng = case_rng(seed, "c18-chal", idx as u64);
    let recompose = rng.random_range(0..2u32) == 0;
    let o = c05::GenOpts {
        max_ops: rng.random_range(4..40),
        max_perms: 12,
        pow: true,
        clear: true,
        bits: true,
        end_sample: true,
        const_pct: 30,
    };
    let hist = c05::gen_history::<C>(&mut rng, &o);
    let built = guarded(|| c05::build_history::<C>(&hist, recompose, true, None, None)).ok()?.ok()?;
    let mut parts = circuit_parts(&built.circuit);
    if C::PROVABLE {
        match guarded(|| C::prove_kit(&built.circuit, recompose)) {
            Ok(Ok(kit)) => {
                parts.push(("keygen.primitive_columns".into(), h(&format!("{:?}", kit.cpd.primitive_columns))));
                let mut np: Vec<(String, String)> = kit.cpd.non_primitive_columns.iter().map(|(k, v)| (format!("{k:?}"), format!("{v:?}"))).collect();
                np.sort();
                parts.push(("keygen.non_primitive_columns".into(), h(&format!("{np:?}"))));
                parts.push(("keygen.commitment".into(), h(&commitment_json(kit.cpd.common_data()))));
                match guarded(|| c05::run_built::<C>(&built, &built.publics)) {
                    Ok(Ok(traces)) => match guarded(|| <C::S as Setup>::prove(&kit.prover, &traces, &kit.cpd)) {
                        Ok(Ok(proof)) => {
                            proof_parts(&proof, &mut parts);
                            let v = guarded(|| <C::S as Setup>::verify(&kit.prover, &proof).is_ok());
                            parts.push(("prove.verifies".into(), h(&format!("{v:?}"))));
                        }
                        Ok(Err(e)) => parts.push(("prove.error".into(), h(&variant_of_dbg(&e)))),
                        Err(p) => parts.push(("prove.panic".into(), h(&panic_site(&p)))),
                    },
                    Ok(Err(e)) => parts.push(("run.error".into(), h(&c05::err_variant(&e)))),
                    Err(p) => parts.push(("run.panic".into(), h(&panic_site(&p)))),
                }
            }
            Ok(Err(e)) => parts.push(("keygen.error".into(), h(&variant_of_dbg(&e)))),
            Err(p) => parts.push(("keygen.panic".into(), h(&panic_site(&p)))),
        }
    }
    Some(parts)
}

fn variant_of_dbg(s: &str) -> String {
    s.split(|c: char| !c.is_alphanumeric() && c != '_').find(|x| !x.is_empty()).unwrap_or("Err").to_string()
}

/// Stream D: the recursive verifier circuits of the shared proof-shape kit (uni-STARK, batch-STARK
/// and circuit-prover proofs over every kit configuration): the circuit `verify_*_circuit` builds
/// for the honest proof and the one `build_next_layer_circuit` builds, as structural fingerprints
/// (ops with witness ids and constants, input rows), plus the packed input lengths.
fn parts_kit(shapes: &[Box<dyn kit::Shape>], idx: usize) -> Option<Parts> {
    let shape = shapes.get(idx)?;
    let hb = shape.honest().ok()?;
    let ctx = shape.ctx().ok()?;
    let mut parts: Parts = vec![];
    // honest proofs of the kit come from seeded provers: observation only
    parts.push(("obs.honest_proof".into(), h(&hb.to_string())));
    match ctx.compile(&hb) {
        Ok(Ok(c)) => {
            parts.push(("verifier.circuit_fingerprint".into(), c.fingerprint()));
            let (a, b) = c.flat_lens();
            parts.push(("verifier.flat_lens".into(), h(&format!("{a}/{b}"))));
            parts.push(("verifier.public_rows".into(), h(&format!("{:?}", c.public_rows()))));
            parts.push(("verifier.private_rows".into(), h(&format!("{:?}", c.private_rows()))));
            if let Ok(es) = c.entries() {
                let w: Vec<(u32, Option<u32>)> = es.iter().map(|e| (e.target, c.widx(e.target))).collect();
                parts.push(("verifier.target_slots".into(), h(&format!("{w:?}"))));
            }
        }
        Ok(Err(v)) => parts.push(("verifier.build".into(), h(&v.label()))),
        Err(_) => return None,
    }
    if let Ok(list) = ctx.extra_entry_points(&hb) {
        for (ep, v) in list {
            if ep.ends_with("#fingerprint") {
                parts.push((format!("next_layer.{ep}"), h(&v.label())));
            }
        }
    }
    Some(parts)
}

/// Stream E: circuits with TWO Poseidon2 tables (KoalaBear D4 width 16 and width 32) whose rows feed
/// each other across the tables (an exposed output of one table is an input limb / the MMCS index
/// accumulator of a row of the other), compiled and key-generated with the per-configuration AIR
/// builders. Compile-only: key generation does not depend on an execution.
fn parts_two_tables(seed: u64, idx: usize) -> Option<Parts> {
    use p3_circuit_prover::batch_stark_prover::poseidon2_air_builders_for_configs;
    use p3_circuit_prover::config::KoalaBearConfig;
    use p3_koala_bear::{KoalaBear, default_koalabear_poseidon2_16, default_koalabear_poseidon2_32};
    use p3_poseidon2_circuit_air::{KoalaBearD4Width16, KoalaBearD4Width32};
    type KE = BinomialExtensionField<KoalaBear, 4>;
    const W16: Poseidon2Config = Poseidon2Config::KOALA_BEAR_D4_W16;
    const W32: Poseidon2Config = Poseidon2Config::KOALA_BEAR_D4_W32;
    let mut rng = case_rng(seed, "c18-two-tables", idx as u64);
    let mut b = CircuitBuilder::<KE>::new();
    b.enable_poseidon2_perm::<KoalaBearD4Width16, _>(generate_poseidon2_trace::<KE, KoalaBearD4Width16>, default_koalabear_poseidon2_16());
    b.enable_poseidon2_perm_width_32::<KoalaBearD4Width32, _>(generate_poseidon2_trace::<KE, KoalaBearD4Width32>, default_koalabear_poseidon2_32());
    let mut pool16: Vec<p3_circuit::ExprId> = vec![];
    let mut pool32: Vec<p3_circuit::ExprId> = vec![];
    let n_rows = rng.random_range(2..7usize);
    for _ in 0..n_rows {
        let wide = rng.random_range(0..2u32) == 0;
        let cfg = if wide { W32 } else { W16 };
        // inputs: fresh publics or exposed outputs of the OTHER table
        let other: Vec<p3_circuit::ExprId> = if wide { pool16.clone() } else { pool32.clone() };
        let inputs: Vec<Option<p3_circuit::ExprId>> = (0..cfg.width_ext())
            .map(|_| Some(if !other.is_empty() && rng.random_range(0..3u32) == 0 { other[rng.random_range(0..other.len())] } else { b.public_input() }))
            .collect();
        let merkle = !wide && rng.random_range(0..2u32) == 0;
        let bit = if merkle { Some(b.alloc_const(<KE as p3_field::PrimeCharacteristicRing>::ONE, "bit")) } else { None };
        let index = if merkle && rng.random_range(0..2u32) == 0 {
            Some(if !other.is_empty() && rng.random_range(0..2u32) == 0 { other[rng.random_range(0..other.len())] } else { b.public_input() })
        } else {
            None
        };
        let n_exp = rng.random_range(0..=cfg.rate_ext().min(2));
        let out_ctl: Vec<bool> = (0..cfg.rate_ext()).map(|j| j < n_exp).collect();
        let Ok((_, outs)) = b.add_poseidon2_perm(&Poseidon2PermCall {
            config: cfg,
            new_start: true,
            merkle_path: merkle,
            mmcs_bit: bit,
            mmcs_bit2: None,
            inputs,
            out_ctl,
            return_all_outputs: false,
            mmcs_index_sum: index,
        }) else {
            return None;
        };
        for o in outs.into_iter().flatten() {
            if wide { pool32.push(o) } else { pool16.push(o) }
        }
    }
    // readers for the exposed outputs
    let all: Vec<p3_circuit::ExprId> = pool16.iter().chain(pool32.iter()).copied().collect();
    for w in all.windows(2) {
        let _ = b.mul(w[0], w[1]);
    }
    let circuit = guarded(|| b.build()).ok()?.ok()?;
    let mut parts = circuit_parts(&circuit);
    parts.extend(prep_parts::<KE, 4>(&circuit));
    let packing = if rng.random_range(0..2u32) == 0 { TablePacking::default().with_min_trace_height(64) } else { TablePacking::new(rng.random_range(1..3), rng.random_range(1..4)) };
    let pre: Vec<Box<dyn NpoPreprocessor<KoalaBear>>> = vec![poseidon2_preprocessor::<KoalaBear>()];
    let airb = poseidon2_air_builders_for_configs::<KoalaBearConfig, 4>(vec![W16, W32]);
    match guarded(|| get_airs_and_degrees_with_prep::<KoalaBearConfig, KE, 4>(&circuit, &packing, &pre, &airb, ConstraintProfile::Standard)) {
        Ok(Ok((ad, prim, np))) => {
            let kinds: Vec<(String, usize)> = ad.iter().map(|(a, d)| (air_kind(a), *d)).collect();
            parts.push(("keygen.air_kinds_degrees_order".into(), h(&format!("{kinds:?}"))));
            parts.push(("keygen.primitive_columns".into(), h(&format!("{prim:?}"))));
            let mut npv: Vec<(String, String)> = np.iter().map(|(k, v)| (format!("{k:?}"), format!("{v:?}"))).collect();
            npv.sort();
            parts.push(("keygen.non_primitive_columns".into(), h(&format!("{npv:?}"))));
            let (airs, degs): (Vec<_>, Vec<usize>) = ad.into_iter().unzip();
            match guarded(|| ProverData::from_airs_and_degrees(&config::koala_bear(), &airs, &degs)) {
                Ok(pd) => parts.push(("keygen.commitment".into(), h(&commitment_json(&pd.common)))),
                Err(p) => parts.push(("keygen.commitment.panic".into(), h(&panic_site(&p)))),
            }
        }
        Ok(Err(e)) => parts.push(("keygen.error".into(), h(&format!("{e:?}")))),
        Err(p) => parts.push(("keygen.panic".into(), h(&panic_site(&p)))),
    }
    Some(parts)
}

/// Stream B: BabyBear D4 circuit with Poseidon2 rows, recompose rows, many connects and tags.
fn parts_npo(seed: u64, idx: usize) -> Option<Parts> {
    let mut rng = case_rng(seed, "c18-npo", idx as u64);
    let perm = default_babybear_poseidon2_16();
    let mut b = CircuitBuilder::<EF4>::new();
    b.enable_poseidon2_perm::<BabyBearD4Width16, _>(generate_poseidon2_trace::<EF4, BabyBearD4Width16>, perm);
    let with_recompose = rng.random_range(0..2u32) == 0;
    if with_recompose {
        b.enable_recompose::<BabyBear>(generate_recompose_trace::<BabyBear, EF4>);
    }
    let cfg = Poseidon2Config::BABY_BEAR_D4_W16;
    let mut pool: Vec<p3_circuit::ExprId> = (0..4).map(|_| b.public_input()).collect();
    let n_steps = rng.random_range(2..10usize);
    for s in 0..n_steps {
        let pick = |rng: &mut rand::rngs::SmallRng, pool: &Vec<p3_circuit::ExprId>| pool[rng.random_range(0..pool.len())];
        match rng.random_range(0..5u32) {
            0 | 1 => {
                let ins: Vec<_> = (0..4).map(|_| Some(pick(&mut rng, &pool))).collect();
                if let Ok((_id, outs)) = b.add_poseidon2_perm(&Poseidon2PermCall {
                    config: cfg,
                    new_start: true,
                    merkle_path: false,
                    mmcs_bit: None,
                    mmcs_bit2: None,
                    inputs: ins,
                    out_ctl: vec![true, true],
                    return_all_outputs: false,
                    mmcs_index_sum: None,
                }) {
                    for o in outs.into_iter().flatten() {
                        pool.push(o);
                    }
                }
            }
            2 => {
                let x = pick(&mut rng, &pool);
                if let Ok(cs) = b.decompose_ext_to_base_coeffs::<BabyBear>(x) {
                    pool.extend(cs);
                }
            }
            3 => {
                let (x, y) = (pick(&mut rng, &pool), pick(&mut rng, &pool));
                let m = b.mul(x, y);
                let a = b.add(m, x);
                pool.push(a);
                let _ = b.tag(a, format!("t{s}"));
            }
            _ => {
                let x = pick(&mut rng, &pool);
                let p = b.public_input();
                b.connect(x, p);
            }
        }
    }
    let circuit = guarded(|| b.build()).ok()?.ok()?;
    let mut parts = circuit_parts(&circuit);
    parts.extend(prep_parts::<EF4, 4>(&circuit));
    // key generation with the plugin preprocessors / AIR builders
    let packing = TablePacking::new(rng.random_range(1..4), rng.random_range(1..5));
    let pre: Vec<Box<dyn NpoPreprocessor<BabyBear>>> = vec![poseidon2_preprocessor::<BabyBear>(), recompose_preprocessor::<BabyBear>(false)];
    let mut airb: Vec<Box<dyn NpoAirBuilder<BabyBearConfig, 4>>> = poseidon2_air_builders::<BabyBearConfig, 4>();
    airb.extend(recompose_air_builders::<BabyBearConfig, 4>(1, false));
    match guarded(|| get_airs_and_degrees_with_prep::<BabyBearConfig, EF4, 4>(&circuit, &packing, &pre, &airb, ConstraintProfile::Standard)) {
        Ok(Ok((ad, prim, np))) => {
            let kinds: Vec<(String, usize)> = ad.iter().map(|(a, d)| (air_kind(a), *d)).collect();
            parts.push(("keygen.air_kinds_degrees_order".into(), h(&format!("{kinds:?}"))));
            parts.push(("keygen.primitive_columns".into(), h(&format!("{prim:?}"))));
            let mut npv: Vec<(String, String)> = np.iter().map(|(k, v)| (format!("{k:?}"), format!("{v:?}"))).collect();
            npv.sort();
            parts.push(("keygen.non_primitive_columns".into(), h(&format!("{npv:?}"))));
            let (airs, degs): (Vec<_>, Vec<usize>) = ad.into_iter().unzip();
            match guarded(|| ProverData::from_airs_and_degrees(&config::baby_bear(), &airs, &degs)) {
                Ok(pd) => parts.push(("keygen.commitment".into(), h(&commitment_json(&pd.common)))),
                Err(p) => parts.push(("keygen.commitment.panic".into(), h(&panic_site(&p)))),
            }
        }
        Ok(Err(e)) => parts.push(("keygen.error".into(), h(&format!("{e:?}")))),
        Err(p) => parts.push(("keygen.panic".into(), h(&panic_site(&p)))),
    }
    Some(parts)
}

fn parts_for(seed: u64, idx: usize) -> Option<Parts> {
    if idx % 5 == 4 {
        parts_npo(seed, idx)
    } else {
        with_setup!(SETUP_NAMES[idx % SETUP_NAMES.len()], parts_generated, seed, idx)
    }
}

/// Job keys: `g<i>` generated / npo-rich program, `c<i>` challenger circuit, `k<i>` verifier circuit.
fn parts_job(seed: u64, key: &str, shapes: &[Box<dyn kit::Shape>]) -> Option<Parts> {
    let idx: usize = key[1..].parse().ok()?;
    match &key[..1] {
        "g" => parts_for(seed, idx),
        "c" => {
            let name = c05::ALL_CONFIGS[idx % c05::ALL_CONFIGS.len()];
            with_cfg!(name, parts_chal, seed, idx)
        }
        "k" => parts_kit(shapes, idx),
        "t" => parts_two_tables(seed, idx),
        _ => None,
    }
}

/// Upstream p3-fri 0.6.3 deadlocks in `HidingFriPcs::get_quotient_ldes` when its `parallel` feature is
/// on and a batch has several instances (a spin lock around the blinding RNG is held across a rayon
/// call and re-entered by work stealing; observed with gdb, all threads in `SpinMutex::lock`). Not this
/// repository's code: the `parallel`-feature workers leave the hiding-PCS kit shapes out.
fn skip_in_this_build(key: &str, shapes: &[Box<dyn kit::Shape>]) -> bool {
    if !cfg!(feature = "parallel") || !key.starts_with('k') {
        return false;
    }
    key[1..].parse::<usize>().ok().and_then(|i| shapes.get(i)).is_some_and(|s| s.name().contains("-zk"))
}

fn job_keys(n: usize, nchal: usize, nkit: usize) -> Vec<String> {
    // the two-table stream has one case per 16 generated programs
    (0..n).map(|i| format!("g{i}")).chain((0..nchal).map(|i| format!("c{i}"))).chain((0..nkit).map(|i| format!("k{i}"))).chain((0..n / 16).map(|i| format!("t{i}"))).collect()
}

/// Iteration order of a fresh map with the code's key type: evidence that hash seeds vary.
fn canary_order() -> String {
    let mut m = hashbrown::HashMap::new();
    for i in 0..12u32 {
        m.insert(WitnessId(i * 7 + 1), i);
    }
    m.keys().map(|k| k.0.to_string()).collect::<Vec<_>>().join(",")
}

fn output_with_timeout(cmd: &mut Command, limit: std::time::Duration) -> Result<std::process::Output, String> {
    use std::io::Read;
    let mut child = cmd.stdout(std::process::Stdio::piped()).stderr(std::process::Stdio::null()).spawn().map_err(|e| format!("spawn: {e}"))?;
    let mut so = child.stdout.take().unwrap();
    let reader = std::thread::spawn(move || {
        let mut buf = vec![];
        let _ = so.read_to_end(&mut buf);
        buf
    });
    let t0 = std::time::Instant::now();
    let status = loop {
        match child.try_wait() {
            Ok(Some(st)) => break st,
            Ok(None) => {
                if t0.elapsed() > limit {
                    let _ = child.kill();
                    let _ = child.wait();
                    return Err(format!("watchdog: worker still running after {} s", limit.as_secs()));
                }
                std::thread::sleep(std::time::Duration::from_millis(50));
            }
            Err(e) => return Err(format!("wait: {e}")),
        }
    };
    Ok(std::process::Output { status, stdout: reader.join().unwrap_or_default(), stderr: vec![] })
}

fn main() {
    let args = parse_args();
    let thorough = matches!(args.tier, Tier::Thorough);
    let shapes = kit::all_shapes(thorough);
    if args.extra.contains_key("worker") {
        let geti = |k: &str| args.extra.get(k).and_then(|s| s.parse::<usize>().ok()).unwrap_or(0);
        let mut keys = job_keys(geti("n"), geti("nchal"), geti("nkit").min(shapes.len()));
        if let Some(k) = args.extra.get("only") {
            keys = vec![k.clone()];
        }
        let lines = std::sync::Mutex::new(Vec::<String>::new());
        let seed = args.seed;
        let _ = run_cases(keys.len(), geti("wthreads").max(1), |i| {
            if skip_in_this_build(&keys[i], &shapes) {
                return vec![];
            }
            let parts = guarded(|| parts_job(seed, &keys[i], &shapes)).ok().flatten();
            lines.lock().unwrap().push(json!({"key": keys[i], "parts": parts, "canary": canary_order()}).to_string());
            vec![]
        });
        for l in lines.into_inner().unwrap() {
            println!("{l}");
        }
        return;
    }
    let mut rep = Report::new(
        "C18",
        "exploration",
        &args,
        "case = (program, repetition set): R in-process rebuilds + P fresh processes of the same program + 3 fresh \
         processes of a build with the `parallel` cargo feature (RAYON_NUM_THREADS = 1, 4, 16); programs = generated \
         builder programs and NPO-rich circuits (g*), library-built challenger circuits with Poseidon2/Poseidon1/recompose \
         tables that are also run and proven (c*), recursive verifier circuits of every kit proof shape incl. the \
         next-layer builder (k*). The digest of ops / numbering / rows / maps / preprocessed columns / AIR order / \
         preprocessed commitment / (where proven) primitive main matrices and main-trace commitment must be identical \
         in every execution; `obs.*` components (whole proof bytes) are reported, never judged. non-trivial = the program \
         built and >= 3 distinct canary iteration orders were observed in the run; distinct by program key",
    );
    rep.assume("hash seeds of the code under test are not controlled: each HashMap::new() / process draws its own (the canary counts how many iteration orders were seen)");
    rep.assume("the main-trace commitment of a non-hiding proof is a deterministic function of the table matrices (used as the observable of trace generation, serial and parallel)");
    let geti = |k: &str, d: usize| args.extra.get(k).and_then(|s| s.parse::<usize>().ok()).unwrap_or(d);
    let n = geti("n", args.tier.pick(2000usize, 60_000usize));
    let nchal = geti("nchal", args.tier.pick(96usize, 2400usize));
    let nkit = geti("nkit", shapes.len()).min(shapes.len());
    let reps = args.tier.pick(5usize, 8usize);
    let procs = args.tier.pick(3usize, 6usize);
    let seed = args.seed;
    let mut keys = job_keys(n, nchal, nkit);
    let mut only: Option<String> = args.extra.get("only").cloned();
    if let Some(p) = &args.replay {
        let v: Value = serde_json::from_str(&std::fs::read_to_string(p).expect("replay file")).expect("json");
        only = v["detail"]["program_key"].as_str().map(str::to_string);
    }
    if let Some(k) = &only {
        keys = vec![k.clone()];
    }
    // in-process repetitions
    let canaries = std::sync::Mutex::new(BTreeSet::new());
    let inproc: Vec<(usize, Vec<Option<Parts>>)> = {
        let v = std::sync::Mutex::new(vec![]);
        let _ = run_cases(keys.len(), args.threads, |i| {
            let mut rs = vec![];
            let r = if keys[i].starts_with('g') { reps } else { 2 };
            for _ in 0..r {
                canaries.lock().unwrap().insert(canary_order());
                rs.push(guarded(|| parts_job(seed, &keys[i], &shapes)).ok().flatten());
            }
            v.lock().unwrap().push((i, rs));
            vec![]
        });
        let mut x = v.into_inner().unwrap();
        x.sort_by_key(|t| t.0);
        x
    };
    // fresh processes: `procs` of this binary, and three of the `parallel`-feature build
    let exe = std::env::current_exe().unwrap();
    let par_exe = std::env::var("P3R_C18_PAR_EXE").map(std::path::PathBuf::from).unwrap_or_else(|_| {
        exe.parent().unwrap().join("../../target-par/release/c18")
    });
    let mut specs: Vec<(String, std::path::PathBuf, Option<&str>)> = (0..procs).map(|p| (format!("proc{p}"), exe.clone(), None)).collect();
    let have_par = par_exe.exists() && !args.extra.contains_key("nopar");
    if have_par {
        for t in ["1", "4", "16"] {
            specs.push((format!("parallel-feature/threads{t}"), par_exe.clone(), Some(t)));
        }
    }
    let wthreads = (args.threads * 2 / specs.len().max(1)).max(2);
    let tier_s = if thorough { "thorough" } else { "quick" };
    let mut by_proc: Vec<(String, BTreeMap<String, Option<Parts>>)> = vec![];
    let mut worker_err = None;
    let outs: Vec<(String, Result<(BTreeMap<String, Option<Parts>>, BTreeSet<String>), String>)> = std::thread::scope(|s| {
        let hs: Vec<_> = specs
            .iter()
            .map(|(name, exe, rayon)| {
                let (name, exe, rayon) = (name.clone(), exe.clone(), *rayon);
                let only = only.clone();
                s.spawn(move || {
                    let mut cmd = Command::new(&exe);
                    cmd.args(["--worker", "1", "--tier", tier_s, "--seed", &seed.to_string(), "--n", &n.to_string(), "--nchal", &nchal.to_string(),
                        "--nkit", &nkit.to_string(), "--wthreads", &wthreads.to_string()]);
                    if let Some(k) = &only {
                        cmd.args(["--only", k]);
                    }
                    if let Some(t) = rayon {
                        cmd.env("RAYON_NUM_THREADS", t);
                    }
                    let r = (|| {
                        // generous wall-clock watchdog; its firing is inconclusive, never a violation
                        let out = output_with_timeout(&mut cmd, std::time::Duration::from_secs(if thorough { 4 * 3600 } else { 900 }))?;
                        if !out.status.success() {
                            return Err(format!("worker exit {:?}", out.status.code()));
                        }
                        let mut m = BTreeMap::new();
                        let mut cs = BTreeSet::new();
                        for line in String::from_utf8_lossy(&out.stdout).lines() {
                            if let Ok(v) = serde_json::from_str::<Value>(line) {
                                let Some(key) = v["key"].as_str() else { continue };
                                let parts: Option<Parts> = serde_json::from_value(v["parts"].clone()).ok().flatten();
                                m.insert(key.to_string(), parts);
                                cs.insert(v["canary"].as_str().unwrap_or("").to_string());
                            }
                        }
                        Ok((m, cs))
                    })();
                    (name, r)
                })
            })
            .collect();
        hs.into_iter().map(|h| h.join().unwrap()).collect()
    });
    for (name, o) in outs {
        match o {
            Ok((m, cs)) => {
                by_proc.push((name, m));
                canaries.lock().unwrap().extend(cs);
            }
            Err(e) => worker_err = Some(format!("{name}: {e}")),
        }
    }
    if let Some(e) = &worker_err {
        rep.add(CaseResult::inconclusive("workers", format!("worker process failed: {e}")));
    }
    if !have_par {
        rep.add(CaseResult::inconclusive("parallel-feature", format!("no `parallel`-feature build of this monitor at {} (./check builds it); thread-count dimension not varied in this run", par_exe.display())));
    }
    let n_canary = canaries.lock().unwrap().len();
    rep.set_extra("distinct_canary_iteration_orders", json!(n_canary));
    rep.set_extra("in_process_repetitions", json!(reps));
    rep.set_extra("fresh_processes", json!(by_proc.iter().map(|(n, m)| (n.clone(), m.len())).collect::<Vec<_>>()));
    rep.set_extra("parallel_feature_build_compared", json!(have_par));
    let varied = n_canary >= 3;
    for (ji, runs) in &inproc {
        let key = keys[*ji].clone();
        let stream = match &key[..1] {
            "g" if key[1..].parse::<usize>().map_or(false, |i| i % 5 == 4) => "npo-rich",
            "g" => "generated",
            "c" => "challenger-circuit",
            "t" => "two-poseidon-tables",
            _ => "verifier-circuit",
        };
        let Some(Some(first)) = runs.first() else {
            rep.add(CaseResult::held(format!("prog-{key}"), false).count(format!("program-did-not-build/{stream}"), 1));
            continue;
        };
        let mut all: Vec<(String, &Option<Parts>)> = runs.iter().enumerate().map(|(k, r)| (format!("rep{k}"), r)).collect();
        for (pname, m) in by_proc.iter() {
            if let Some(r) = m.get(&key) {
                all.push((pname.clone(), r));
            }
        }
        let mut differing: BTreeSet<String> = BTreeSet::new();
        let mut obs_differing: BTreeSet<String> = BTreeSet::new();
        for (_, r) in &all {
            match r {
                Some(parts) => {
                    if parts.len() != first.len() {
                        differing.insert("part-count".into());
                    }
                    for (a, b) in parts.iter().zip(first.iter()) {
                        if a != b {
                            let name = if a.0 == b.0 { a.0.clone() } else { format!("{}|{}", a.0, b.0) };
                            if name.starts_with("obs.") { obs_differing.insert(name); } else { differing.insert(name); }
                        }
                    }
                }
                None => {
                    differing.insert("build-outcome".into());
                }
            }
        }
        if differing.is_empty() {
            let proven = first.iter().any(|p| p.0 == "prove.main_trace_commitment");
            let mut r = CaseResult::held(format!("prog-{key}"), varied)
                .count(format!("stream/{stream}"), 1)
                .count("digests-compared", all.len() as u64)
                .count("components-compared", (all.len() * first.len()) as u64);
            if proven {
                r = r.count(format!("run-and-proven/{stream}"), 1);
            }
            if all.iter().any(|(n, _)| n.starts_with("parallel-feature")) {
                r = r.count("compared-with-parallel-feature-build", 1);
            }
            for o in &obs_differing {
                r = r.count(format!("observation-differs/{o}/{stream}"), 1);
            }
            if matches!(key.as_str(), "g0" | "g4" | "c0" | "c4" | "k0" | "k3") {
                r = r.with_sample(json!({"program": key, "stream": stream, "executions_compared": all.iter().map(|(n, _)| n.clone()).collect::<Vec<_>>(),
                    "components": first.iter().map(|p| p.0.clone()).collect::<Vec<_>>()}));
            }
            rep.add(r);
        } else {
            let comp = differing.iter().next().unwrap().clone();
            rep.add(CaseResult::violated(
                format!("prog-{key}"),
                format!("nondeterministic/{comp}"),
                json!({"seed": seed, "program_key": key, "stream": stream, "differing_components": differing,
                       "executions": all.iter().map(|(n, r)| (n.clone(), r.as_ref().map(|p| p.iter().map(|x| format!("{}={:x}", x.0, x.1)).collect::<Vec<_>>()))).collect::<Vec<_>>()}),
            ));
        }
    }
    if !varied {
        rep.add(CaseResult::inconclusive("canary", format!("only {n_canary} distinct map iteration orders observed")));
    }
    if only.is_some() {
        rep.finish(0);
    }
    rep.finish(args.tier.pick(800, 20_000));
}
