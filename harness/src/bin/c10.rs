//! C10 — every buildable circuit with satisfying inputs can be proven and verified.
//!
//! Monitor: generated programs (satisfying input by construction) are taken through the real
//! build → key generation → run → prove → verify pipeline under random prover configurations;
//! every stage must succeed.

use p3_circuit::{AluOpKind, Op};
use p3r_verif::fields::Setup;
use p3r_verif::pgen::{GenOpts, gen_prog};
use p3r_verif::pipeline::*;
use p3r_verif::prog::{Prog, Stmt, eval, shrink};
use p3r_verif::util::*;
use p3r_verif::with_setup;
use rand::RngExt;
use serde_json::{Value, json};

/// Shape classes of the compiled circuit that matter for provability (used in signatures so that
/// a known finding for one shape does not hide another).
fn shape_tags<S: Setup>(prog: &Prog, p: &Pipeline<S>) -> Vec<&'static str> {
    let mut t = vec![];
    let Some(b) = &p.built else { return t };
    let ops = &b.circuit.ops;
    let alu: Vec<&Op<S::E>> = ops.iter().filter(|o| matches!(o, Op::Alu { .. })).collect();
    // Horner step whose accumulator is not the previous ALU op's output.
    // A proper chain starts from the zero constant and continues with the previous *Horner*
    // step's output.
    let zero_slots: Vec<u32> = ops
        .iter()
        .filter_map(|o| match o {
            Op::Const { out, val } if *val == S::E::default() => Some(out.0),
            _ => None,
        })
        .collect();
    let mut prev_horner_out = None;
    let mut foreign = false;
    let mut adjacent = false;
    let mut horner = false;
    for o in &alu {
        if let Op::Alu {
            kind,
            out,
            intermediate_out,
            ..
        } = o
        {
            if *kind == AluOpKind::HornerAcc {
                horner = true;
                let acc = intermediate_out.map(|w| w.0);
                let starts = acc.is_some_and(|a| zero_slots.contains(&a));
                if !(starts || (acc.is_some() && acc == prev_horner_out)) {
                    foreign = true;
                }
                // a new chain starting right after another chain's last step
                if starts && prev_horner_out.is_some() && acc != prev_horner_out {
                    adjacent = true;
                }
                prev_horner_out = Some(out.0);
            } else {
                prev_horner_out = None;
            }
        }
    }
    if horner {
        t.push("horner");
    }
    if foreign {
        t.push("horner-foreign-acc");
    }
    if adjacent {
        t.push("horner-adjacent-chains");
    }
    if alu.is_empty() {
        t.push("empty-alu");
    }
    if prog.n_public() <= 1 {
        t.push("le1-public");
    }
    if ops.iter().any(|o| matches!(o, Op::Hint { .. })) {
        t.push("hint");
    }
    if ops.iter().any(|o| matches!(o, Op::NonPrimitiveOpWithExecutor { .. })) {
        t.push("npo");
    }
    if prog.n_private() > 0 {
        t.push("private");
    }
    t
}

/// If the honest trace's witness bus is unbalanced (C09's business), name the root-cause class.
fn bus_class<S: Setup>(prog: &Prog, p: &Pipeline<S>, cfg: &PackCfg) -> Option<String> {
    let built = p.built.as_ref()?;
    let traces = p.traces.as_ref()?;
    let recompose = prog.recompose_npo && S::D > 1;
    let _rc = p3r_verif::fields::RecomposeCfg::set(prog.recompose_cfg());
    let events = guarded(|| S::bus(&built.circuit, traces, &cfg.packing(), recompose)).ok()?.ok()?;
    let mut npo_slots = std::collections::BTreeSet::new();
    for op in &built.circuit.ops {
        if let Op::NonPrimitiveOpWithExecutor { inputs, outputs, .. } = op {
            for w in inputs.iter().chain(outputs.iter()).flatten() {
                npo_slots.insert(w.0 as u64);
            }
        }
    }
    let mut classes: Vec<String> = p3r_verif::bus::anomalies(&built.circuit, &events, S::D)
        .into_iter()
        .filter(|a| !npo_slots.contains(&a.slot))
        .map(|a| {
            let c = p3r_verif::bus::anomaly_class(&built.circuit, a.slot);
            // imbalance shape (creator rows, sign of the net multiplicity), as in C09: a different
            // defect on the same kind of slot must not be absorbed by a listed finding
            let shape = a.pattern.splitn(2, "/creators=").nth(1).map(|r| format!("creators={r}")).unwrap_or_default();
            if c == "other" {
                format!("other/{}", a.pattern)
            } else if c.starts_with("first-use") {
                c
            } else {
                format!("{c}/{shape}")
            }
        })
        .collect();
    classes.sort();
    classes.dedup();
    // unknown classes first, so that a new kind of imbalance is never hidden behind a known one
    // shapes the pinned tree produces for the three shaped classes (the C09 list)
    const LISTED_SHAPES: [&str; 9] = [
        "horner-referenced/creators=0/net=-",
        "horner-referenced/creators=1/net=+",
        "horner-referenced/creators=2/net=+",
        "horner-referenced/creators=3/net=+",
        "multi-leaf-class/creators=0/net=-",
        "multi-leaf-class/creators=1/net=+",
        "multi-leaf-class/creators=2/net=+",
        "multi-leaf-class/creators=3/net=+",
        "solved-operand-of-private-out/creators=0/net=-",
    ];
    let prio = |c: &String| -> usize {
        if c.starts_with("other") || (!c.starts_with("first-use") && !LISTED_SHAPES.contains(&c.as_str())) {
            0
        } else if c.starts_with("solved-operand") {
            1
        } else if c.starts_with("first-use") {
            2
        } else if c.starts_with("horner") {
            3
        } else {
            4
        }
    };
    classes.sort_by_key(prio);
    classes.into_iter().next()
}

/// Slots only plugin tables touch are not visible to O3; ask upstream's lookup debugger.
fn npo_imbalance<S: Setup>(prog: &Prog, p: &Pipeline<S>, cfg: &PackCfg) -> bool {
    let Some(built) = p.built.as_ref() else { return false };
    if !built.circuit.ops.iter().any(|o| matches!(o, Op::NonPrimitiveOpWithExecutor { .. })) {
        return false;
    }
    let (Some(traces), Some(cpd)) = (p.traces.as_ref(), p.cpd.as_ref()) else { return false };
    let recompose = prog.recompose_npo && S::D > 1;
    let _rc = p3r_verif::fields::RecomposeCfg::set(prog.recompose_cfg());
    let prover = S::prover_x(cfg.packing(), recompose, true);
    matches!(guarded(|| S::prove(&prover, traces, cpd)), Err(m) if m.contains("Lookup mismatch"))
}

/// Key generation refused the circuit with `UnclaimedPrivateInput`: is some private input of the
/// program one whose expression lives in a slot that an ALU / plugin-table op of the compiled
/// circuit refers to?
fn used_private_refused<S: Setup>(prog: &Prog, p: &Pipeline<S>) -> Option<&'static str> {
    let built = p.built.as_ref()?;
    let c = &built.circuit;
    // 1 = read by a plugin-table row, 2 = referred to by an ALU op
    let mut referenced = vec![0u8; c.witness_count as usize];
    let mut mark = |w: &p3_circuit::WitnessId, how: u8| {
        if let Some(x) = referenced.get_mut(w.0 as usize) {
            *x = (*x).max(how);
        }
    };
    for op in &c.ops {
        match op {
            Op::Alu { kind, a, b, c: cc, out, .. } => {
                mark(a, 2);
                if *kind != AluOpKind::BoolCheck {
                    mark(b, 2);
                    mark(out, 2);
                }
                if let Some(x) = cc {
                    if matches!(kind, AluOpKind::MulAdd | AluOpKind::HornerAcc) {
                        mark(x, 2);
                    }
                }
            }
            Op::NonPrimitiveOpWithExecutor { inputs, outputs, .. } => {
                for w in inputs.iter().chain(outputs.iter()).flatten() {
                    mark(w, 1);
                }
            }
            _ => {}
        }
    }
    // the refused input: position of the reported slot among the circuit's private input rows
    let refused: Option<u32> = match &p.prep {
        Stage::Err(m) => m.split("WitnessId(").nth(1).and_then(|r| r.split(')').next()).and_then(|n| n.trim().parse().ok()),
        _ => None,
    };
    let pos = refused.and_then(|w| c.private_input_rows.iter().position(|r| r.0 == w))?;
    let mut var = 0usize;
    let mut k = 0usize;
    for st in &prog.stmts {
        if matches!(st, Stmt::Private) {
            if k == pos {
                // the slot of the input's own expression (where every reader of the input looks)
                return match built.var_expr.get(var).and_then(|e| c.expr_to_widx.get(e)).and_then(|w| referenced.get(w.0 as usize).copied()) {
                    Some(2) => Some("private-input-referred-to-by-an-alu-op"),
                    Some(1) => Some("private-input-read-only-by-plugin-rows"),
                    _ => None,
                };
            }
            k += 1;
        }
        var += st.n_out(S::D);
    }
    None
}

fn signature<S: Setup>(prog: &Prog, p: &Pipeline<S>, cfg: &PackCfg) -> Option<String> {
    let (name, st) = p.first_failure()?;
    // the directed recompose-dense family has its own keys (flavour and lane count): the classes
    // below are too coarse to tell a lane-stride defect from the known double-creator one
    if prog.recompose_npo && p3r_verif::pgen::is_recompose_dense(prog) && name != "build" {
        let (lanes, split) = prog.recompose_cfg();
        return Some(format!("unprovable/directed-recompose-dense/{}-lanes{lanes}/{name}", if split { "split-coeff" } else { "standard" }));
    }
    match name {
        "build" => None,
        // key generation refusing a circuit is "the builder does not accept it", unless it panics
        // ... except that an input the compiled circuit does read cannot be "unclaimed": the
        // private input's expression resolves to a slot that a table op refers to, yet key
        // generation says no op creates it
        "prep" if matches!(st, Stage::Err(m) if m.contains("UnclaimedPrivateInput")) && used_private_refused::<S>(prog, p).is_some() => {
            Some(format!("prep/err:UnclaimedPrivateInput/{}", used_private_refused::<S>(prog, p).unwrap()))
        }
        "prep" if matches!(st, Stage::Err(_)) => None,
        "prove" | "verify" if bus_class::<S>(prog, p, cfg).is_some() => {
            Some(format!("unprovable/bus-imbalance/{}", bus_class::<S>(prog, p, cfg).unwrap()))
        }
        "prove" | "verify" if npo_imbalance::<S>(prog, p, cfg) => {
            // keyed by what the op list says about the plugin rows: the bare key absorbed a seed
            Some(format!("unprovable/bus-imbalance/npo-table-slot/{}", p3r_verif::bus::npo_static_cause(&p.built.as_ref().unwrap().circuit)))
        }
        _ => {
            let tags = shape_tags::<S>(prog, p);
            let tag = if tags.contains(&"horner-foreign-acc") {
                "horner-foreign-acc"
            } else if tags.contains(&"horner-adjacent-chains") {
                "horner-adjacent-chains"
            } else if tags.contains(&"horner") {
                "horner-chain"
            } else if tags.contains(&"npo") {
                "npo"
            } else if tags.contains(&"hint") {
                "hint"
            } else if tags.contains(&"private") {
                "private"
            } else {
                "alu"
            };
            Some(format!("{name}/{}/{tag}", st.class()))
        }
    }
}

fn one<S: Setup>(prog: &Prog, publics: &[S::E], privates: &[S::E], cfg: &PackCfg, key: String, sample: bool) -> CaseResult {
    let ev = eval::<S>(prog, publics, privates);
    if !ev.all_hold() || ev.div_zero {
        return CaseResult::inconclusive(key, "generator produced a non-satisfying input");
    }
    let p = run_pipeline::<S>(prog, publics, privates, cfg, false, true);
    let n_alu = p
        .built
        .as_ref()
        .map(|b| b.circuit.ops.iter().filter(|o| matches!(o, Op::Alu { .. })).count())
        .unwrap_or(0);
    let tags = shape_tags::<S>(prog, &p);
    // a program that trips the known C02 finding (select with an extension-valued selector, then
    // decompose_ext) fails here for that reason: attribute it to that finding, not to C10's own
    let trig = p3r_verif::prog::trigger_ext_selector_decompose::<S>(prog, &ev);
    let sig0 = signature::<S>(prog, &p, cfg).map(|s| if trig { "c02-known/ext-selector-select-then-decompose_ext".to_string() } else { s });
    let mut r = match sig0 {
        None => {
            if p.first_failure().is_some() {
                let (n, st) = p.first_failure().unwrap();
                CaseResult::held(key, false).count(format!("rejected-at-{n}/{}", st.class()), 1)
            } else {
                CaseResult::held(key, n_alu >= 1)
            }
        }
        Some(sig) if !first_time(&sig) || trig => CaseResult::violated(
            key,
            sig,
            case_detail::<S>(prog, publics, privates, cfg, p.built.as_ref(), json!({"stages": p.stages_json()})),
        ),
        Some(sig) => {
            // shrink while the signature stays the same
            let pred = |q: &Prog, a: &[S::E], b: &[S::E]| -> bool {
                let e = eval::<S>(q, a, b);
                if !e.all_hold() || e.div_zero {
                    return false;
                }
                let pp = run_pipeline::<S>(q, a, b, cfg, false, true);
                signature::<S>(q, &pp, cfg).as_deref() == Some(sig.as_str())
            };
            let (q, a, b) = shrink::<S>(prog, publics, privates, &pred);
            let pp = run_pipeline::<S>(&q, &a, &b, cfg, false, true);
            CaseResult::violated(
                key,
                sig,
                case_detail::<S>(&q, &a, &b, cfg, pp.built.as_ref(), json!({"stages": pp.stages_json(), "tags": shape_tags::<S>(&q, &pp)})),
            )
        }
    };
    for t in tags {
        r = r.count(format!("shape/{t}"), 1);
    }
    r = r.count(format!("setup/{}", S::NAME), 1).count(format!("cfg/{}", cfg.key()), 1);
    if prog.recompose_npo && S::D > 1 {
        let (lanes, split) = prog.recompose_cfg();
        let rows = p.built.as_ref().map_or(0, |b| b.circuit.ops.iter().filter(|o| matches!(o, Op::NonPrimitiveOpWithExecutor { .. })).count());
        let verified = p.verify.is_ok() && p.prove.is_ok();
        r = r.count(format!("recompose-tables/{}-lanes{lanes}/{}/{}", if split { "split-coeff" } else { "standard" }, if rows >= 2 { "rows>=2" } else { "rows<2" }, if verified { "verified" } else { "not-verified" }), 1);
    }
    if sample {
        r = r.with_sample(json!({"setup": S::NAME, "packing": cfg.json(), "stmts": prog.stmts.len(),
            "prog": prog.stmts.iter().take(20).map(|s| format!("{s:?}")).collect::<Vec<_>>(), "stages": p.stages_json()}));
    }
    r
}

fn first_time(sig: &str) -> bool {
    static SEEN: std::sync::Mutex<std::collections::BTreeSet<String>> = std::sync::Mutex::new(std::collections::BTreeSet::new());
    SEEN.lock().unwrap().insert(sig.to_string())
}

fn case<S: Setup>(seed: u64, idx: usize, tier: Tier) -> Vec<CaseResult> {
    let mut rng = case_rng(seed, "c10", idx as u64);
    let size = rng.random_range(1..tier.pick(30usize, 50usize));
    let opts = GenOpts {
        size,
        recompose_npo: matches!(S::D, 2 | 4 | 5) && rng.random_range(0..3u32) == 0,
        recompose_variants: true,
        clean: idx % 4 != 3,
        ..Default::default()
    };
    let g = gen_prog::<S>(&mut rng, &opts);
    let n_cfg = if rng.random_range(0..3u32) == 0 { 2 } else { 1 };
    let mut out = vec![];
    for k in 0..n_cfg {
        let cfg = PackCfg::random(&mut rng);
        let key = format!("{}:{}:{}", S::NAME, fnv(&serde_json::to_string(&g.prog.stmts).unwrap()), cfg.key());
        out.push(one::<S>(&g.prog, &g.publics, &g.privates, &cfg, key, idx < 4 && k == 0));
    }
    out
}

/// Directed shapes named in the property text (Horner with arbitrary accumulator, adjacent
/// chains, empty / single-row tables, aliased inputs) – run on every setup so that they are
/// always observed, independent of generator luck.
fn directed<S: Setup>() -> Vec<CaseResult> {
    let c = |v: u64| Stmt::Const(S::coeffs(&S::el(&[v])));
    let shapes: Vec<(&str, Vec<Stmt>)> = vec![
        ("only-const", vec![c(5)]),
        ("single-public", vec![Stmt::Public]),
        ("one-add", vec![Stmt::Public, Stmt::Public, Stmt::Add(0, 1)]),
        (
            "horner-public-acc",
            vec![Stmt::Public, Stmt::Public, Stmt::Public, Stmt::Public, Stmt::Horner { acc: 0, alpha: 1, z: 2, x: 3 }],
        ),
        (
            "horner-chain-3",
            vec![
                c(0),
                Stmt::Public,
                Stmt::Public,
                Stmt::Public,
                Stmt::Horner { acc: 0, alpha: 1, z: 2, x: 3 },
                Stmt::Horner { acc: 4, alpha: 1, z: 3, x: 2 },
                Stmt::Horner { acc: 5, alpha: 1, z: 2, x: 2 },
            ],
        ),
        (
            "two-adjacent-chains",
            vec![
                c(0),
                Stmt::Public,
                Stmt::Public,
                Stmt::Public,
                Stmt::Horner { acc: 0, alpha: 1, z: 2, x: 3 },
                Stmt::Horner { acc: 4, alpha: 1, z: 3, x: 2 },
                Stmt::Horner { acc: 0, alpha: 2, z: 3, x: 1 },
                Stmt::Horner { acc: 6, alpha: 2, z: 1, x: 3 },
            ],
        ),
        (
            "two-chains-split-by-one-mul",
            vec![
                c(0),
                Stmt::Public,
                Stmt::Public,
                Stmt::Public,
                Stmt::Horner { acc: 0, alpha: 1, z: 2, x: 3 },
                Stmt::Horner { acc: 4, alpha: 1, z: 3, x: 2 },
                Stmt::Horner { acc: 5, alpha: 1, z: 2, x: 2 },
                Stmt::Mul(2, 3),
                Stmt::Horner { acc: 0, alpha: 2, z: 3, x: 1 },
                Stmt::Horner { acc: 8, alpha: 2, z: 1, x: 3 },
                Stmt::Horner { acc: 9, alpha: 2, z: 7, x: 3 },
                Stmt::Horner { acc: 10, alpha: 2, z: 1, x: 1 },
            ],
        ),
        (
            // one chain whose evaluation point changes and comes back (x,y,x,x,y,y,x): packed-Horner
            // windows must end where `b` changes
            "horner-chain-alpha-x-y-x",
            vec![
                c(0),
                Stmt::Public,
                Stmt::Public,
                Stmt::Public,
                Stmt::Horner { acc: 0, alpha: 1, z: 2, x: 3 },
                Stmt::Horner { acc: 4, alpha: 2, z: 3, x: 1 },
                Stmt::Horner { acc: 5, alpha: 1, z: 2, x: 2 },
                Stmt::Horner { acc: 6, alpha: 1, z: 3, x: 3 },
                Stmt::Horner { acc: 7, alpha: 2, z: 1, x: 3 },
                Stmt::Horner { acc: 8, alpha: 2, z: 3, x: 2 },
                Stmt::Horner { acc: 9, alpha: 1, z: 2, x: 1 },
            ],
        ),
        (
            "connect-two-publics",
            vec![Stmt::Public, Stmt::Public, Stmt::Connect(0, 1), Stmt::Add(0, 1)],
        ),
        ("connect-public-const", vec![Stmt::Public, c(3), Stmt::Connect(0, 1), Stmt::Mul(0, 1)]),
        (
            "private-in-alu",
            vec![Stmt::Private, Stmt::Public, Stmt::Mul(0, 1), Stmt::Public, Stmt::Connect(2, 3)],
        ),
    ];
    let mut out = vec![];
    for (name, stmts) in shapes {
        let prog = Prog {
            stmts,
            recompose_npo: false,
            recompose_variant: 0,
        };
        // choose inputs = 3 for every input, then fix up connects by evaluating: simple shapes only
        let np = prog.n_public();
        let nq = prog.n_private();
        let mut publics = vec![S::el(&[3]); np];
        let privates = vec![S::el(&[3]); nq];
        // satisfy "expected output" connects by iterating the interpreter (at most a few rounds)
        for _ in 0..4 {
            let ev = eval::<S>(&prog, &publics, &privates);
            if ev.all_hold() {
                break;
            }
            // set the last public to the value of its connect partner
            let mut vi = 0usize;
            let mut pub_of_var = std::collections::BTreeMap::new();
            let mut k = 0usize;
            for st in &prog.stmts {
                if matches!(st, Stmt::Public) {
                    pub_of_var.insert(vi, k);
                    k += 1;
                }
                vi += st.n_out(S::D);
            }
            for st in &prog.stmts {
                if let Stmt::Connect(a, b) = st {
                    if let (Some(pa), Some(vb)) = (pub_of_var.get(b), ev.vals[*a]) {
                        publics[*pa] = vb;
                    } else if let (Some(pa), Some(vb)) = (pub_of_var.get(a), ev.vals[*b]) {
                        publics[*pa] = vb;
                    }
                }
            }
        }
        let mut cfgs = vec![PackCfg::default_cfg(), PackCfg { public_lanes: 2, alu_lanes: 3, min_height: 8, horner_k: 3, optimized_profile: false }];
        if name.contains("chain") {
            for (l, k) in [(2, 2), (4, 2), (2, 3), (3, 5), (4, 4)] {
                cfgs.push(PackCfg { public_lanes: 1, alu_lanes: l, min_height: 1, horner_k: k, optimized_profile: false });
            }
        }
        for cfg in cfgs {
            let key = format!("{}:directed:{name}:{}", S::NAME, cfg.key());
            out.push(one::<S>(&prog, &publics, &privates, &cfg, key, false).count(format!("directed/{name}"), 1));
        }
    }
    // every first appearance of a private input in an ALU row (operand positions, repeated, result
    // connected back to the input), see `pgen::first_use_programs`
    if matches!(S::NAME, "babybear-d1" | "koalabear-d4" | "koalabear-d5-quintic") {
        for (name, prog, pu, pr) in p3r_verif::pgen::first_use_programs::<S>() {
            for cfg in [PackCfg::default_cfg(), PackCfg { public_lanes: 2, alu_lanes: 3, min_height: 1, horner_k: 2, optimized_profile: false }] {
                let key = format!("{}:directed:first-use:{name}:{}", S::NAME, cfg.key());
                out.push(one::<S>(&prog, &pu, &pr, &cfg, key, false).count("directed/first-use", 1));
            }
        }
    }
    // recompose tables dense in rows, every flavour / lane count (`pgen::recompose_dense_programs`)
    for (variant, n, prog, publics) in p3r_verif::pgen::recompose_dense_programs::<S>() {
        let ev = eval::<S>(&prog, &publics, &[]);
        if !ev.all_hold() {
            out.push(CaseResult::inconclusive(format!("{}:directed:recompose-dense:v{variant}:n{n}", S::NAME), "directed recompose program does not hold in the reference evaluator"));
            continue;
        }
        for cfg in [PackCfg::default_cfg(), PackCfg { public_lanes: 2, alu_lanes: 3, min_height: 1, horner_k: 2, optimized_profile: false }] {
            let key = format!("{}:directed:recompose-dense:v{variant}:n{n}:{}", S::NAME, cfg.key());
            out.push(one::<S>(&prog, &publics, &[], &cfg, key, false).count("directed/recompose-dense", 1));
        }
    }
    out
}

fn replay<S: Setup>(d: &Value) -> Vec<CaseResult> {
    let (prog, pu, pr, cfg) = decode_case::<S>(d);
    vec![one::<S>(&prog, &pu, &pr, &cfg, "replay".into(), true)]
}

fn main() {
    let args = parse_args();
    let mut rep = Report::new(
        "C10",
        "exploration",
        &args,
        "case = (generated or directed program with a satisfying input, prover configuration: lanes, min height, \
         horner packing, constraint profile); second stream (keys C10:npo:..): row programs over the Poseidon2/Poseidon1 \
         permutation tables from c04npo; non-trivial = the circuit has >=1 ALU row and was accepted by build + \
         key generation; distinct by (setup, program hash, configuration)",
    );
    rep.assume("satisfying inputs are produced by construction and re-checked with the field interpreter O1");
    rep.assume("a circuit refused by build() or by key generation with an error (not a panic) is outside the quantifier");
    if let Some(p) = &args.replay {
        let v: Value = serde_json::from_str(&std::fs::read_to_string(p).expect("replay file")).unwrap();
        let d = v["detail"].clone();
        if d["stream"].as_str() == Some("npo") {
            // cases of the permutation-row-program stream are replayed by the sibling binary
            let exe = std::env::current_exe().unwrap().with_file_name("c04npo");
            let st = std::process::Command::new(exe).arg("--replay").arg(p).arg("--honest-only").status().expect("run c04npo");
            std::process::exit(st.code().unwrap_or(2));
        }
        let name = d["setup"].as_str().unwrap().to_string();
        let rs = with_setup!(name.as_str(), replay, &d);
        rep.add_all(rs);
        rep.finish(0);
    }
    let n = args.tier.pick(1200usize, 25_000usize);
    let (seed, tier) = (args.seed, args.tier);
    let mut rs = run_cases_isolated(SETUP_NAMES.len(), args.threads, |i| with_setup!(SETUP_NAMES[i], directed,));
    rs.extend(run_cases_isolated(n, args.threads, |i| with_setup!(SETUP_NAMES[i % SETUP_NAMES.len()], case, seed, i, tier)));
    rep.add_all(rs);
    // second stream: row programs over the Poseidon permutation tables (sponge / Merkle chains, index
    // accumulator exposure, tables with exactly 2^k rows, add_mmcs_verify, add_hash_slice) produced
    // by the sibling binary c04npo: built, run on satisfying inputs, proven, verified
    rep.add_all(import_emitted("c04npo", "C10", &args, |r| r.key.starts_with("C10:")));
    rep.finish(args.tier.pick(400, 8_000));
}
