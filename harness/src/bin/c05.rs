//! C05 — the in-circuit Fiat-Shamir transcript equals the native transcript.
//!
//! Monitor: random challenger histories over {observe base / ext / slice, sample base / ext,
//! sample_bits, check_pow_witness (ground and wrong witnesses), clear} are executed by the real
//! `CircuitChallenger` (built into a circuit, compiled, run by `CircuitRunner`) for every
//! challenger configuration the repository supports, and every sampled value / bit vector / PoW
//! verdict is compared with `p3_challenger::DuplexChallenger` driven by the same history.
//!
//! This file is also included as a module by `c06.rs` (`#[path = "c05.rs"] mod c05;`): the
//! configuration table, the history type, the generator, the circuit builder for a history and
//! the native evaluation are shared; C06 plugs deviation hooks into the permutation wrapper.
#![allow(dead_code, clippy::type_complexity, clippy::too_many_arguments)]

use std::sync::Arc;
use std::sync::atomic::{AtomicUsize, Ordering};

use p3_baby_bear::{BabyBear, Poseidon1BabyBear, Poseidon2BabyBear};
use p3_batch_stark::ProverData;
use p3_challenger::{CanObserve, CanSample, CanSampleBits, DuplexChallenger, FieldChallenger};
use p3_circuit::ops::{
    Poseidon1Config, Poseidon2Config, generate_poseidon1_trace, generate_poseidon2_trace,
    generate_recompose_trace,
};
use p3_circuit::{Circuit, CircuitBuilder, CircuitError, ExprId, Traces};
use p3_circuit_prover::batch_stark_prover::{
    BatchStarkProof, poseidon1_air_builders, poseidon1_air_builders_d5, poseidon2_air_builders,
    poseidon2_air_builders_d5, recompose_air_builders,
};
use p3_circuit_prover::common::{NpoPreprocessor, get_airs_and_degrees_with_prep};
use p3_circuit_prover::{
    BatchStarkProver, CircuitProverData, ConstraintProfile, Poseidon1Preprocessor,
    Poseidon2Preprocessor, RecomposePreprocessor, TablePacking, config,
};
use p3_field::{BasedVectorSpace, PrimeCharacteristicRing, PrimeField64};
use p3_goldilocks::Poseidon2Goldilocks;
use p3_koala_bear::{KoalaBear, Poseidon1KoalaBear, Poseidon2KoalaBear};
use p3_recursion::CircuitChallenger;
use p3_recursion::traits::RecursiveChallenger;
use p3_symmetric::{CryptographicPermutation, Permutation};
use p3r_verif::fields::*;
use p3r_verif::util::*;
use rand::rngs::SmallRng;
use rand::{RngExt, SeedableRng};
use serde::{Deserialize, Serialize};
use serde_json::{Value, json};

// ------------------------------------------------------------------------------------------
// Permutation wrappers
// ------------------------------------------------------------------------------------------

/// Called on the output limbs of every permutation call (C06 installs deviations here;
/// C05 installs nothing, the wrapper is then a pure delegate).
pub type LimbHook<T> = Arc<dyn Fn(&mut [T]) + Send + Sync>;

#[derive(Clone)]
pub struct Hooked<P, T, const W: usize> {
    pub inner: P,
    pub hook: Option<LimbHook<T>>,
}

impl<P, T, const W: usize> Permutation<[T; W]> for Hooked<P, T, W>
where
    T: Clone + Send + Sync + 'static,
    P: Permutation<[T; W]>,
{
    fn permute_mut(&self, x: &mut [T; W]) {
        self.inner.permute_mut(x);
        if let Some(h) = &self.hook {
            h(&mut x[..]);
        }
    }
}

/// Counts permutation calls of the native challenger (clones get a fresh counter so that
/// grinding on a fork does not disturb the count of the main transcript).
pub struct CountPerm<P> {
    inner: P,
    n: Arc<AtomicUsize>,
}

impl<P: Clone> Clone for CountPerm<P> {
    fn clone(&self) -> Self {
        Self { inner: self.inner.clone(), n: Arc::new(AtomicUsize::new(0)) }
    }
}

impl<T: Clone, P: Permutation<T>> Permutation<T> for CountPerm<P> {
    fn permute_mut(&self, x: &mut T) {
        self.n.fetch_add(1, Ordering::Relaxed);
        self.inner.permute_mut(x);
    }
}

impl<T: Clone, P: CryptographicPermutation<T>> CryptographicPermutation<T> for CountPerm<P> {}

// ------------------------------------------------------------------------------------------
// Native oracle: p3_challenger::DuplexChallenger behind an object-safe facade
// ------------------------------------------------------------------------------------------

pub trait NativeCh<B, E> {
    fn observe(&mut self, v: B);
    fn observe_slice(&mut self, vs: &[B]);
    fn observe_ext(&mut self, e: E);
    fn sample(&mut self) -> B;
    fn sample_ext(&mut self) -> E;
    /// Low `n` bits of the next sampled base element (little endian integer).
    fn sample_bits(&mut self, n: usize) -> u64;
    fn in_len(&self) -> usize;
    fn out_len(&self) -> usize;
    /// Number of permutations of the main transcript so far (not meaningful on forks).
    fn perms(&self) -> usize;
    fn fork(&self) -> Box<dyn NativeCh<B, E>>;
    /// `clear` of the circuit challenger = a fresh native challenger.
    fn reset(&mut self);
}

pub struct NativeImpl<B, P, const W: usize, const R: usize>
where
    B: PrimeField64,
    P: CryptographicPermutation<[B; W]>,
{
    ch: DuplexChallenger<B, CountPerm<P>, W, R>,
    base: P,
    counter: Arc<AtomicUsize>,
}

impl<B, P, const W: usize, const R: usize> NativeImpl<B, P, W, R>
where
    B: PrimeField64,
    P: CryptographicPermutation<[B; W]>,
{
    pub fn new(base: P) -> Self {
        let counter = Arc::new(AtomicUsize::new(0));
        let ch = DuplexChallenger::new(CountPerm { inner: base.clone(), n: counter.clone() });
        Self { ch, base, counter }
    }
}

impl<B, E, P, const W: usize, const R: usize> NativeCh<B, E> for NativeImpl<B, P, W, R>
where
    B: PrimeField64,
    E: BasedVectorSpace<B> + Copy + 'static,
    P: CryptographicPermutation<[B; W]> + 'static,
{
    fn observe(&mut self, v: B) {
        CanObserve::<B>::observe(&mut self.ch, v);
    }
    fn observe_slice(&mut self, vs: &[B]) {
        CanObserve::<B>::observe_slice(&mut self.ch, vs);
    }
    fn observe_ext(&mut self, e: E) {
        self.ch.observe_algebra_element(e);
    }
    fn sample(&mut self) -> B {
        <DuplexChallenger<B, CountPerm<P>, W, R> as CanSample<B>>::sample(&mut self.ch)
    }
    fn sample_ext(&mut self) -> E {
        self.ch.sample_algebra_element::<E>()
    }
    fn sample_bits(&mut self, n: usize) -> u64 {
        if n < 63 && (1u128 << n) < B::ORDER_U64 as u128 {
            <DuplexChallenger<B, CountPerm<P>, W, R> as CanSampleBits<usize>>::sample_bits(&mut self.ch, n)
                as u64
        } else {
            // The native helper asserts 2^n < p; the documented meaning (low n bits of the
            // canonical value of one base sample) is evaluated directly for the boundary sizes.
            let v: B = <DuplexChallenger<B, CountPerm<P>, W, R> as CanSample<B>>::sample(&mut self.ch);
            let c = v.as_canonical_u64();
            if n >= 64 { c } else { c & ((1u64 << n) - 1) }
        }
    }
    fn in_len(&self) -> usize {
        self.ch.input_buffer.len()
    }
    fn out_len(&self) -> usize {
        self.ch.output_buffer.len()
    }
    fn perms(&self) -> usize {
        self.counter.load(Ordering::Relaxed)
    }
    fn fork(&self) -> Box<dyn NativeCh<B, E>> {
        Box::new(NativeImpl::<B, P, W, R> {
            ch: self.ch.clone(),
            base: self.base.clone(),
            counter: Arc::new(AtomicUsize::new(0)),
        })
    }
    fn reset(&mut self) {
        self.ch = DuplexChallenger::new(CountPerm { inner: self.base.clone(), n: self.counter.clone() });
    }
}

// ------------------------------------------------------------------------------------------
// Challenger configurations
// ------------------------------------------------------------------------------------------

pub type BOf<C> = <<C as Cfg>::S as Setup>::B;
pub type EOf<C> = <<C as Cfg>::S as Setup>::E;
pub type SCOf<C> = <<C as Cfg>::S as Setup>::SC;

pub struct ProveKit<SC: p3_uni_stark::StarkGenericConfig + 'static> {
    pub prover: BatchStarkProver<SC>,
    pub cpd: CircuitProverData<SC>,
}

pub trait Cfg: 'static {
    type S: Setup;
    const NAME: &'static str;
    const WIDTH: usize;
    const RATE: usize;
    /// Extension degree the permutation table packs (1 = base permutation, capacity chained
    /// inside the table; >1 = packed permutation, full state passed through witness slots).
    const PERM_D: usize;
    const POSEIDON1: bool;
    /// Whether circuits of this configuration can be proven (NPO table provers exist only for
    /// trace degrees 2, 4 and 5).
    const PROVABLE: bool;

    fn native() -> Box<dyn NativeCh<BOf<Self>, EOf<Self>>>;
    fn circuit_challenger() -> Box<dyn RecursiveChallenger<BOf<Self>, EOf<Self>>>;
    fn enable(
        b: &mut CircuitBuilder<EOf<Self>>,
        recompose: bool,
        base_hook: Option<LimbHook<BOf<Self>>>,
        ext_hook: Option<LimbHook<EOf<Self>>>,
    );
    fn prove_kit(_circuit: &Circuit<EOf<Self>>, _recompose: bool) -> Result<ProveKit<SCOf<Self>>, String> {
        Err("no non-primitive table provers for trace degree 1".into())
    }
    fn pin(_proof: &BatchStarkProof<SCOf<Self>>) -> String {
        String::new()
    }
    /// The plain (un-hooked) permutation of this configuration on `WIDTH` base limbs (used by
    /// C06 to recompute a permutation row from prover-chosen row inputs; C05 does not call it).
    fn raw_permute(x: &mut [BOf<Self>]);
}

fn goldilocks_poseidon2_8() -> Poseidon2Goldilocks<8> {
    // Same construction as recursion/tests/goldilocks.rs and the examples (matches the AIR constants).
    let mut rng = SmallRng::seed_from_u64(1);
    Poseidon2Goldilocks::<8>::new_from_rng_128(&mut rng)
}

macro_rules! prove_kit_body {
    ($slf:ty, $circuit:ident, $recompose:ident, d=$d:literal, permd=$pd:literal, prep=$prep:expr,
     airs=$airs:expr, reg=$reg:ident, cc=$cc:expr, cfgfn=$cfgfn:path) => {{
        type SC = SCOf<$slf>;
        let packing = TablePacking::default();
        let split = $pd != $d;
        let mut npo: Vec<Box<dyn NpoPreprocessor<BOf<$slf>>>> = vec![Box::new($prep)];
        if $recompose {
            npo.push(Box::new(RecomposePreprocessor::new(split)));
        }
        let mut airb = $airs;
        if $recompose {
            airb.extend(recompose_air_builders::<SC, $d>(1, split));
        }
        let (ad, prim, nonprim) = get_airs_and_degrees_with_prep::<SC, EOf<$slf>, $d>(
            $circuit,
            &packing,
            &npo,
            &airb,
            ConstraintProfile::Standard,
        )
        .map_err(|e| format!("prep: {e:?}"))?;
        let (airs, degs): (Vec<_>, Vec<usize>) = ad.into_iter().unzip();
        let cfg = $cfgfn();
        let pd = ProverData::from_airs_and_degrees(&cfg, &airs, &degs);
        let cpd = CircuitProverData::new(pd, prim, nonprim);
        let mut prover = <<$slf as Cfg>::S as Setup>::prover(packing);
        prover.$reg::<$d>($cc);
        if $recompose {
            prover.register_recompose_table::<$d>(split);
        }
        Ok(ProveKit { prover, cpd })
    }};
}

macro_rules! def_cfg {
    ($ty:ident, $label:literal, setup=$setup:ty, w=$w:literal, r=$r:literal, permd=$pd:literal, p1=$p1:literal,
     perm=$permty:ty => $permfn:expr, cc=$ccty:ty => $cc:expr,
     enable=($b:ident, $q:ident, $eh:ident) $enable:block
     $(, prove=(d=$d:literal, prep=$prep:expr, airs=$airs:expr, reg=$reg:ident, cfgfn=$cfgfn:path))?) => {
        pub struct $ty;
        impl Cfg for $ty {
            type S = $setup;
            const NAME: &'static str = $label;
            const WIDTH: usize = $w;
            const RATE: usize = $r;
            const PERM_D: usize = $pd;
            const POSEIDON1: bool = $p1;
            const PROVABLE: bool = false $(|| $d > 1)?;
            fn native() -> Box<dyn NativeCh<BOf<Self>, EOf<Self>>> {
                let p: $permty = $permfn;
                Box::new(NativeImpl::<BOf<Self>, $permty, $w, $r>::new(p))
            }
            fn circuit_challenger() -> Box<dyn RecursiveChallenger<BOf<Self>, EOf<Self>>> {
                Box::new(CircuitChallenger::<$w, $r, $ccty>::new($cc))
            }
            fn raw_permute(x: &mut [BOf<Self>]) {
                let p: $permty = $permfn;
                let mut a: [BOf<Self>; $w] = core::array::from_fn(|i| x[i]);
                p.permute_mut(&mut a);
                x.copy_from_slice(&a);
            }
            #[allow(unused_variables)]
            fn enable(
                $b: &mut CircuitBuilder<EOf<Self>>,
                recompose: bool,
                base_hook: Option<LimbHook<BOf<Self>>>,
                $eh: Option<LimbHook<EOf<Self>>>,
            ) {
                let p: $permty = $permfn;
                let $q = Hooked::<$permty, BOf<Self>, $w> { inner: p, hook: base_hook };
                $enable
                if recompose {
                    $b.enable_recompose::<BOf<Self>>(generate_recompose_trace::<BOf<Self>, EOf<Self>>);
                }
                if $pd == 1 && <Self::S as Setup>::D > 1 {
                    // base permutation under an extension circuit (as the examples do)
                    $b.set_recompose_coeff_ctl_for_decompose_links(true);
                }
            }
            $(
            fn prove_kit(circuit: &Circuit<EOf<Self>>, recompose: bool) -> Result<ProveKit<SCOf<Self>>, String> {
                prove_kit_body!($ty, circuit, recompose, d=$d, permd=$pd, prep=$prep, airs=$airs, reg=$reg, cc=$cc, cfgfn=$cfgfn)
            }
            fn pin(proof: &BatchStarkProof<SCOf<Self>>) -> String {
                commitment_json(&proof.stark_common)
            }
            )?
        }
    };
}

type Bb4 = <BbD4 as Setup>::E;
type Kb4 = <KbD4 as Setup>::E;
type Kb5 = <KbD5 as Setup>::E;
type Gl2 = <GlD2 as Setup>::E;

// ---- Poseidon2 ----
def_cfg!(BbD4P2, "babybear-d4-w16-poseidon2", setup=BbD4, w=16, r=8, permd=4, p1=false,
    perm=Poseidon2BabyBear<16> => p3_baby_bear::default_babybear_poseidon2_16(),
    cc=Poseidon2Config => Poseidon2Config::BABY_BEAR_D4_W16,
    enable=(b, q, eh) {
        b.enable_poseidon2_perm::<p3_poseidon2_circuit_air::BabyBearD4Width16, _>(
            generate_poseidon2_trace::<Bb4, p3_poseidon2_circuit_air::BabyBearD4Width16>, q);
    },
    prove=(d=4, prep=Poseidon2Preprocessor, airs=poseidon2_air_builders::<SC, 4>(), reg=register_poseidon2_table, cfgfn=config::baby_bear));
def_cfg!(KbD4P2, "koalabear-d4-w16-poseidon2", setup=KbD4, w=16, r=8, permd=4, p1=false,
    perm=Poseidon2KoalaBear<16> => p3_koala_bear::default_koalabear_poseidon2_16(),
    cc=Poseidon2Config => Poseidon2Config::KOALA_BEAR_D4_W16,
    enable=(b, q, eh) {
        b.enable_poseidon2_perm::<p3_poseidon2_circuit_air::KoalaBearD4Width16, _>(
            generate_poseidon2_trace::<Kb4, p3_poseidon2_circuit_air::KoalaBearD4Width16>, q);
    },
    prove=(d=4, prep=Poseidon2Preprocessor, airs=poseidon2_air_builders::<SC, 4>(), reg=register_poseidon2_table, cfgfn=config::koala_bear));
def_cfg!(BbD1P2, "babybear-d1-w16-poseidon2", setup=BbD1, w=16, r=8, permd=1, p1=false,
    perm=Poseidon2BabyBear<16> => p3_baby_bear::default_babybear_poseidon2_16(),
    cc=Poseidon2Config => Poseidon2Config::BABY_BEAR_D1_W16,
    enable=(b, q, eh) {
        b.enable_poseidon2_perm_base::<p3_circuit::ops::BabyBearD1Width16, _>(
            generate_poseidon2_trace::<BabyBear, p3_circuit::ops::BabyBearD1Width16>, q);
    });
def_cfg!(KbD1P2, "koalabear-d1-w16-poseidon2", setup=KbD1, w=16, r=8, permd=1, p1=false,
    perm=Poseidon2KoalaBear<16> => p3_koala_bear::default_koalabear_poseidon2_16(),
    cc=Poseidon2Config => Poseidon2Config::KOALA_BEAR_D1_W16,
    enable=(b, q, eh) {
        b.enable_poseidon2_perm_base::<p3_circuit::ops::KoalaBearD1Width16, _>(
            generate_poseidon2_trace::<KoalaBear, p3_circuit::ops::KoalaBearD1Width16>, q);
    });
def_cfg!(KbD5P2, "koalabear-d5q-over-d1-w16-poseidon2", setup=KbD5, w=16, r=8, permd=1, p1=false,
    perm=Poseidon2KoalaBear<16> => p3_koala_bear::default_koalabear_poseidon2_16(),
    cc=Poseidon2Config => Poseidon2Config::KOALA_BEAR_D1_W16,
    enable=(b, q, eh) {
        let lifted = p3_test_utils::LiftPermToQuintic::<KoalaBear, _, 16>::new(q);
        let outer = Hooked::<_, Kb5, 16> { inner: lifted, hook: eh };
        b.enable_poseidon2_perm_base::<p3_circuit::ops::KoalaBearD1Width16, _>(
            generate_poseidon2_trace::<Kb5, p3_circuit::ops::KoalaBearD1Width16>, outer);
    },
    prove=(d=5, prep=Poseidon2Preprocessor, airs=poseidon2_air_builders_d5::<SC>(), reg=register_poseidon2_table, cfgfn=config::koala_bear));
def_cfg!(GlD2P2, "goldilocks-d2-w8-poseidon2", setup=GlD2, w=8, r=4, permd=2, p1=false,
    perm=Poseidon2Goldilocks<8> => goldilocks_poseidon2_8(),
    cc=Poseidon2Config => Poseidon2Config::GOLDILOCKS_D2_W8,
    enable=(b, q, eh) {
        b.enable_poseidon2_perm_width_8::<p3_circuit::ops::GoldilocksD2Width8, _>(
            generate_poseidon2_trace::<Gl2, p3_circuit::ops::GoldilocksD2Width8>, q);
    },
    prove=(d=2, prep=Poseidon2Preprocessor, airs=poseidon2_air_builders::<SC, 2>(), reg=register_poseidon2_table, cfgfn=config::goldilocks));

// ---- Poseidon1 ----
def_cfg!(BbD4P1, "babybear-d4-w16-poseidon1", setup=BbD4, w=16, r=8, permd=4, p1=true,
    perm=Poseidon1BabyBear<16> => p3_baby_bear::default_babybear_poseidon1_16(),
    cc=Poseidon1Config => Poseidon1Config::BABY_BEAR_D4_W16,
    enable=(b, q, eh) {
        b.enable_poseidon1_perm::<p3_circuit::ops::poseidon1_perm::BabyBearD4Width16, _>(
            generate_poseidon1_trace::<Bb4, p3_circuit::ops::poseidon1_perm::BabyBearD4Width16>, q);
    },
    prove=(d=4, prep=Poseidon1Preprocessor, airs=poseidon1_air_builders::<SC, 4>(), reg=register_poseidon1_table, cfgfn=config::baby_bear));
def_cfg!(KbD4P1, "koalabear-d4-w16-poseidon1", setup=KbD4, w=16, r=8, permd=4, p1=true,
    perm=Poseidon1KoalaBear<16> => p3_koala_bear::default_koalabear_poseidon1_16(),
    cc=Poseidon1Config => Poseidon1Config::KOALA_BEAR_D4_W16,
    enable=(b, q, eh) {
        b.enable_poseidon1_perm::<p3_circuit::ops::poseidon1_perm::KoalaBearD4Width16, _>(
            generate_poseidon1_trace::<Kb4, p3_circuit::ops::poseidon1_perm::KoalaBearD4Width16>, q);
    },
    prove=(d=4, prep=Poseidon1Preprocessor, airs=poseidon1_air_builders::<SC, 4>(), reg=register_poseidon1_table, cfgfn=config::koala_bear));
def_cfg!(BbD1P1, "babybear-d1-w16-poseidon1", setup=BbD1, w=16, r=8, permd=1, p1=true,
    perm=Poseidon1BabyBear<16> => p3_baby_bear::default_babybear_poseidon1_16(),
    cc=Poseidon1Config => Poseidon1Config::BABY_BEAR_D1_W16,
    enable=(b, q, eh) {
        b.enable_poseidon1_perm_base::<p3_circuit::ops::poseidon1_perm::BabyBearD1Width16, _>(
            generate_poseidon1_trace::<BabyBear, p3_circuit::ops::poseidon1_perm::BabyBearD1Width16>, q);
    });
def_cfg!(KbD1P1, "koalabear-d1-w16-poseidon1", setup=KbD1, w=16, r=8, permd=1, p1=true,
    perm=Poseidon1KoalaBear<16> => p3_koala_bear::default_koalabear_poseidon1_16(),
    cc=Poseidon1Config => Poseidon1Config::KOALA_BEAR_D1_W16,
    enable=(b, q, eh) {
        b.enable_poseidon1_perm_base::<p3_circuit::ops::poseidon1_perm::KoalaBearD1Width16, _>(
            generate_poseidon1_trace::<KoalaBear, p3_circuit::ops::poseidon1_perm::KoalaBearD1Width16>, q);
    });
def_cfg!(KbD5P1, "koalabear-d5q-over-d1-w16-poseidon1", setup=KbD5, w=16, r=8, permd=1, p1=true,
    perm=Poseidon1KoalaBear<16> => p3_koala_bear::default_koalabear_poseidon1_16(),
    cc=Poseidon1Config => Poseidon1Config::KOALA_BEAR_D1_W16,
    enable=(b, q, eh) {
        let lifted = p3_test_utils::LiftPermToQuintic::<KoalaBear, _, 16>::new(q);
        let outer = Hooked::<_, Kb5, 16> { inner: lifted, hook: eh };
        b.enable_poseidon1_perm_base::<p3_circuit::ops::poseidon1_perm::KoalaBearD1Width16, _>(
            generate_poseidon1_trace::<Kb5, p3_circuit::ops::poseidon1_perm::KoalaBearD1Width16>, outer);
    },
    prove=(d=5, prep=Poseidon1Preprocessor, airs=poseidon1_air_builders_d5::<SC>(), reg=register_poseidon1_table, cfgfn=config::koala_bear));
def_cfg!(GlD2P1, "goldilocks-d2-w8-poseidon1", setup=GlD2, w=8, r=4, permd=2, p1=true,
    perm=p3_goldilocks::poseidon1::Poseidon1Goldilocks<8> => p3_goldilocks::poseidon1::default_goldilocks_poseidon1_8(),
    cc=Poseidon1Config => Poseidon1Config::GOLDILOCKS_D2_W8,
    enable=(b, q, eh) {
        b.enable_poseidon1_perm_width_8::<p3_circuit::ops::poseidon1_perm::GoldilocksD2Width8, _>(
            generate_poseidon1_trace::<Gl2, p3_circuit::ops::poseidon1_perm::GoldilocksD2Width8>, q);
    },
    prove=(d=2, prep=Poseidon1Preprocessor, airs=poseidon1_air_builders::<SC, 2>(), reg=register_poseidon1_table, cfgfn=config::goldilocks));

pub const ALL_CONFIGS: [&str; 12] = [
    "babybear-d4-w16-poseidon2",
    "koalabear-d4-w16-poseidon2",
    "babybear-d1-w16-poseidon2",
    "koalabear-d1-w16-poseidon2",
    "koalabear-d5q-over-d1-w16-poseidon2",
    "goldilocks-d2-w8-poseidon2",
    "babybear-d4-w16-poseidon1",
    "koalabear-d4-w16-poseidon1",
    "babybear-d1-w16-poseidon1",
    "koalabear-d1-w16-poseidon1",
    "koalabear-d5q-over-d1-w16-poseidon1",
    "goldilocks-d2-w8-poseidon1",
];

/// `with_cfg!(name, f, args..)` calls `f::<Config>(args..)` for the configuration called `name`.
macro_rules! with_cfg {
    ($name:expr, $f:ident $(, $args:expr)*) => {
        match $name {
            "babybear-d4-w16-poseidon2" => $f::<BbD4P2>($($args),*),
            "koalabear-d4-w16-poseidon2" => $f::<KbD4P2>($($args),*),
            "babybear-d1-w16-poseidon2" => $f::<BbD1P2>($($args),*),
            "koalabear-d1-w16-poseidon2" => $f::<KbD1P2>($($args),*),
            "koalabear-d5q-over-d1-w16-poseidon2" => $f::<KbD5P2>($($args),*),
            "goldilocks-d2-w8-poseidon2" => $f::<GlD2P2>($($args),*),
            "babybear-d4-w16-poseidon1" => $f::<BbD4P1>($($args),*),
            "koalabear-d4-w16-poseidon1" => $f::<KbD4P1>($($args),*),
            "babybear-d1-w16-poseidon1" => $f::<BbD1P1>($($args),*),
            "koalabear-d1-w16-poseidon1" => $f::<KbD1P1>($($args),*),
            "koalabear-d5q-over-d1-w16-poseidon1" => $f::<KbD5P1>($($args),*),
            "goldilocks-d2-w8-poseidon1" => $f::<GlD2P1>($($args),*),
            other => panic!("unknown configuration {other}"),
        }
    };
}

// ------------------------------------------------------------------------------------------
// Histories
// ------------------------------------------------------------------------------------------

/// One challenger operation. `k` = the observed targets are constants (else public inputs).
#[derive(Clone, Debug, Serialize, Deserialize, PartialEq)]
pub enum HOp {
    Obs { v: u64, k: bool },
    ObsExt { v: Vec<u64>, k: bool },
    ObsSlice { vs: Vec<u64>, k: bool },
    ObsExtSlice { vs: Vec<Vec<u64>>, k: bool },
    Sample,
    SampleExt,
    SampleExtVec { n: usize },
    SampleBits { n: usize },
    /// `w` is a natively ground witness (the check passes), `bad` one for which it fails
    /// (`bad == w` when `bits == 0`: every witness passes). The witness is a public input.
    Pow { bits: usize, w: u64, bad: u64 },
    Clear,
}

impl HOp {
    pub fn kind(&self) -> &'static str {
        match self {
            HOp::Obs { .. } => "obs",
            HOp::ObsExt { .. } => "obs_ext",
            HOp::ObsSlice { .. } => "obs_slice",
            HOp::ObsExtSlice { .. } => "obs_ext_slice",
            HOp::Sample => "sample",
            HOp::SampleExt => "sample_ext",
            HOp::SampleExtVec { .. } => "sample_ext_vec",
            HOp::SampleBits { .. } => "sample_bits",
            HOp::Pow { .. } => "pow",
            HOp::Clear => "clear",
        }
    }
}

#[derive(Clone, Debug, PartialEq)]
pub enum Expect {
    Base(u64),
    Ext(Vec<u64>),
    Bits(Vec<u64>),
}

pub fn bel<C: Cfg>(v: u64) -> BOf<C> {
    BOf::<C>::from_u64(v)
}
pub fn eel<C: Cfg>(c: &[u64]) -> EOf<C> {
    <C::S as Setup>::el(c)
}
pub fn bf_bits<C: Cfg>() -> usize {
    (64 - (<C::S as Setup>::order() - 1).leading_zeros()) as usize
}

/// Applies `op` to the native challenger, returning what the circuit must reproduce
/// (one `Expect` per sampled target group, in order) and the PoW verdict with witness `w`.
pub fn apply_native<C: Cfg>(
    nat: &mut dyn NativeCh<BOf<C>, EOf<C>>,
    op: &HOp,
    pow_witness: Option<u64>,
) -> (Vec<Expect>, Option<bool>) {
    let mut out = vec![];
    let mut pow = None;
    match op {
        HOp::Obs { v, .. } => nat.observe(bel::<C>(*v)),
        HOp::ObsExt { v, .. } => nat.observe_ext(eel::<C>(v)),
        HOp::ObsSlice { vs, .. } => {
            let b: Vec<_> = vs.iter().map(|v| bel::<C>(*v)).collect();
            nat.observe_slice(&b);
        }
        HOp::ObsExtSlice { vs, .. } => {
            for v in vs {
                nat.observe_ext(eel::<C>(v));
            }
        }
        HOp::Sample => out.push(Expect::Base(nat.sample().as_canonical_u64())),
        HOp::SampleExt => out.push(Expect::Ext(<C::S as Setup>::coeffs(&nat.sample_ext()))),
        HOp::SampleExtVec { n } => {
            for _ in 0..*n {
                out.push(Expect::Ext(<C::S as Setup>::coeffs(&nat.sample_ext())));
            }
        }
        HOp::SampleBits { n } => {
            let x = nat.sample_bits(*n);
            out.push(Expect::Bits((0..*n).map(|i| (x >> i) & 1).collect()));
        }
        HOp::Pow { bits, w, .. } => {
            let w = pow_witness.unwrap_or(*w);
            if *bits == 0 {
                pow = Some(true);
            } else {
                nat.observe(bel::<C>(w));
                pow = Some(nat.sample_bits(*bits) == 0);
            }
        }
        HOp::Clear => nat.reset(),
    }
    (out, pow)
}

pub struct NativeRun {
    pub expects: Vec<Expect>,
    /// (op index, verdict) of every PoW check with the witnesses used.
    pub pow: Vec<(usize, bool)>,
    /// "kind:i<in_len>:o<out_len>" before every op.
    pub phases: Vec<String>,
    pub perms: usize,
}

/// `bad_op`: use the wrong witness for the PoW check at that op index.
pub fn native_eval<C: Cfg>(h: &[HOp], bad_op: Option<usize>) -> NativeRun {
    let mut nat = C::native();
    let mut r = NativeRun { expects: vec![], pow: vec![], phases: vec![], perms: 0 };
    for (i, op) in h.iter().enumerate() {
        r.phases.push(format!("{}:i{}:o{}", op.kind(), nat.in_len(), nat.out_len()));
        let wit = match (op, bad_op) {
            (HOp::Pow { bad, .. }, Some(b)) if b == i => Some(*bad),
            _ => None,
        };
        let (e, p) = apply_native::<C>(nat.as_mut(), op, wit);
        r.expects.extend(e);
        if let Some(p) = p {
            r.pow.push((i, p));
        }
    }
    r.perms = nat.perms();
    r
}

#[derive(Clone, Debug)]
pub struct GenOpts {
    pub max_ops: usize,
    pub max_perms: usize,
    pub pow: bool,
    pub clear: bool,
    pub bits: bool,
    pub end_sample: bool,
    /// percentage of observed targets that are constants rather than public inputs
    pub const_pct: u32,
}

fn rand_val(rng: &mut SmallRng, order: u64) -> u64 {
    match rng.random_range(0..12u32) {
        0 => 0,
        1 => 1,
        2 => order - 1,
        3 => rng.random_range(0..16u64),
        _ => rng.random::<u64>() % order,
    }
}

/// Random history, biased towards buffer boundaries of the duplex sponge. The native
/// challenger is carried along so that moves can be chosen relative to the current buffer
/// phase (fill to k*RATE-1 / k*RATE / k*RATE+1, drain the output buffer exactly / by one more,
/// sample after a partial absorb, clear in the middle) and PoW witnesses can be ground.
pub fn gen_history<C: Cfg>(rng: &mut SmallRng, o: &GenOpts) -> Vec<HOp> {
    let d = <C::S as Setup>::D;
    let r = C::RATE;
    let order = <C::S as Setup>::order();
    let nbits = bf_bits::<C>();
    let mut nat = C::native();
    let target = if chance(rng, 1, 2) {
        rng.random_range(1..=o.max_ops.max(1))
    } else {
        rng.random_range(o.max_ops.max(3) / 3..=o.max_ops.max(3))
    };
    let mut h: Vec<HOp> = vec![];
    let mut nops = 0usize;
    let push = |h: &mut Vec<HOp>, nat: &mut Box<dyn NativeCh<BOf<C>, EOf<C>>>, op: HOp| {
        apply_native::<C>(nat.as_mut(), &op, None);
        h.push(op);
    };
    while nops < target && nat.perms() < o.max_perms {
        let m = rng.random_range(0..100u32);
        if m < 42 {
            // ---- observe run ----
            let to_b = r - nat.in_len(); // observations until the next duplexing
            let mut cands = vec![1, to_b, to_b + 1, r - 1, r, r + 1, 2 * r - 1, 2 * r, 2 * r + 1, to_b + r];
            if to_b > 1 {
                cands.push(to_b - 1);
            }
            cands.push(rng.random_range(1..=3 * r));
            let k = (*pick(rng, &cands)).min(target.saturating_sub(nops).max(1));
            let konst_mode = rng.random_range(0..100u32);
            let kf = |rng: &mut SmallRng| {
                if konst_mode < 50 { false } else if konst_mode < 70 { true } else { chance(rng, o.const_pct, 100) }
            };
            match rng.random_range(0..10u32) {
                0..=4 => {
                    for _ in 0..k {
                        let op = HOp::Obs { v: rand_val(rng, order), k: kf(rng) };
                        push(&mut h, &mut nat, op);
                    }
                }
                5..=6 => {
                    let op = HOp::ObsSlice { vs: (0..k).map(|_| rand_val(rng, order)).collect(), k: kf(rng) };
                    push(&mut h, &mut nat, op);
                }
                7..=8 => {
                    let n = k.div_ceil(d).max(1);
                    for _ in 0..n {
                        let v: Vec<u64> = if chance(rng, 1, 5) {
                            let mut v = vec![0; d];
                            v[0] = rand_val(rng, order); // base value observed as an algebra element
                            v
                        } else {
                            (0..d).map(|_| rand_val(rng, order)).collect()
                        };
                        let op = HOp::ObsExt { v, k: kf(rng) };
                        push(&mut h, &mut nat, op);
                    }
                }
                _ => {
                    let n = k.div_ceil(d).max(1);
                    let op = HOp::ObsExtSlice {
                        vs: (0..n).map(|_| (0..d).map(|_| rand_val(rng, order)).collect()).collect(),
                        k: kf(rng),
                    };
                    push(&mut h, &mut nat, op);
                }
            }
            nops += k;
        } else if m < 70 {
            // ---- sample run ----
            let ol = nat.out_len();
            let mut cands = vec![1, 1, 2, ol + 1, r, r + 1, rng.random_range(1..=r + 2)];
            if ol > 0 {
                cands.push(ol);
            }
            let j = (*pick(rng, &cands)).min(target.saturating_sub(nops).max(1));
            for _ in 0..j {
                push(&mut h, &mut nat, HOp::Sample);
            }
            nops += j;
        } else if m < 79 {
            if chance(rng, 1, 3) {
                let n = rng.random_range(1..=3usize);
                push(&mut h, &mut nat, HOp::SampleExtVec { n });
                nops += n;
            } else {
                let n = rng.random_range(1..=3usize);
                for _ in 0..n {
                    push(&mut h, &mut nat, HOp::SampleExt);
                }
                nops += n;
            }
        } else if m < 88 {
            if o.bits {
                let rb = rng.random_range(1..=nbits);
                let n = *pick(rng, &[0usize, 1, 2, 3, 5, 8, 16, nbits - 1, nbits, rb]);
                push(&mut h, &mut nat, HOp::SampleBits { n });
                nops += 1;
            }
        } else if m < 95 {
            if o.pow {
                let bits = *pick(rng, &[0usize, 1, 1, 2, 3, 4, 6]);
                let start = rng.random::<u64>() % order;
                let (mut good, mut bad) = (None, None);
                for i in 0..6000u64 {
                    let c = (start.wrapping_add(i)) % order;
                    let ok = if bits == 0 {
                        true
                    } else {
                        let mut f = nat.fork();
                        f.observe(bel::<C>(c));
                        f.sample_bits(bits) == 0
                    };
                    if ok && good.is_none() {
                        good = Some(c);
                    }
                    if !ok && bad.is_none() {
                        bad = Some(c);
                    }
                    if good.is_some() && (bad.is_some() || bits == 0) {
                        break;
                    }
                }
                if let Some(w) = good {
                    push(&mut h, &mut nat, HOp::Pow { bits, w, bad: bad.unwrap_or(w) });
                    nops += 1;
                }
            }
        } else if o.clear && chance(rng, 3, 5) {
            push(&mut h, &mut nat, HOp::Clear);
            nops += 1;
        }
    }
    if o.end_sample && !matches!(h.last(), Some(HOp::Sample | HOp::SampleExt | HOp::SampleBits { .. } | HOp::SampleExtVec { .. })) {
        push(&mut h, &mut nat, HOp::Sample);
    }
    h
}

// ------------------------------------------------------------------------------------------
// Building / running the in-circuit challenger for a history
// ------------------------------------------------------------------------------------------

#[derive(Clone, Debug)]
pub enum Probe {
    One(ExprId),
    Bits(Vec<ExprId>),
}

pub struct Built<C: Cfg> {
    pub circuit: Circuit<EOf<C>>,
    /// (op index, probe), aligned with `NativeRun::expects`.
    pub probes: Vec<(usize, Probe)>,
    /// Public input values with the ground PoW witnesses.
    pub publics: Vec<EOf<C>>,
    /// (op index, position in `publics`, wrong witness) of every PoW check.
    pub pow_pos: Vec<(usize, usize, u64)>,
}

/// Applies one history operation to one challenger instance (shared by the single-challenger and
/// the interleaved builders).
fn apply_op<C: Cfg>(
    b: &mut CircuitBuilder<EOf<C>>,
    ch: &mut dyn RecursiveChallenger<BOf<C>, EOf<C>>,
    publics: &mut Vec<EOf<C>>,
    probes: &mut Vec<(usize, Probe)>,
    pow_pos: &mut Vec<(usize, usize, u64)>,
    i: usize,
    op: &HOp,
    consume: bool,
    seven: ExprId,
) -> Result<(), String> {
    let target = |b: &mut CircuitBuilder<EOf<C>>, publics: &mut Vec<EOf<C>>, val: EOf<C>, k: bool| -> ExprId {
        if k {
            b.define_const(val)
        } else {
            publics.push(val);
            b.public_input()
        }
    };
    match op {
        HOp::Obs { v, k } => {
            let t = target(b, publics, eel::<C>(&[*v]), *k);
            ch.observe(b, t);
        }
        HOp::ObsExt { v, k } => {
            let t = target(b, publics, eel::<C>(v), *k);
            ch.observe_ext(b, t);
        }
        HOp::ObsSlice { vs, k } => {
            let ts: Vec<ExprId> = vs.iter().map(|v| target(b, publics, eel::<C>(&[*v]), *k)).collect();
            ch.observe_slice(b, &ts);
        }
        HOp::ObsExtSlice { vs, k } => {
            let ts: Vec<ExprId> = vs.iter().map(|v| target(b, publics, eel::<C>(v), *k)).collect();
            ch.observe_ext_slice(b, &ts);
        }
        HOp::Sample => {
            let t = ch.sample(b);
            if consume {
                b.mul(t, seven);
            }
            probes.push((i, Probe::One(t)));
        }
        HOp::SampleExt => {
            let t = ch.sample_ext(b);
            if consume {
                b.mul(t, seven);
            }
            probes.push((i, Probe::One(t)));
        }
        HOp::SampleExtVec { n } => {
            for t in ch.sample_ext_vec(b, *n) {
                if consume {
                    b.mul(t, seven);
                }
                probes.push((i, Probe::One(t)));
            }
        }
        HOp::SampleBits { n } => {
            let bits = ch.sample_bits(b, *n).map_err(|e| format!("sample_bits({n}): {e:?}"))?;
            probes.push((i, Probe::Bits(bits)));
        }
        HOp::Pow { bits, w, bad } => {
            pow_pos.push((i, publics.len(), *bad));
            let t = target(b, publics, eel::<C>(&[*w]), false);
            ch.check_pow_witness(b, *bits, t).map_err(|e| format!("check_pow_witness({bits}): {e:?}"))?;
        }
        HOp::Clear => ch.clear(b),
    }
    Ok(())
}

/// `consume`: every sampled base / extension target is read by an ALU operation, as any real
/// verifier circuit does with its challenges (a target nobody reads has no reader on the witness
/// bus, so its creator's value is not checked — and nothing depends on it).
pub fn build_history<C: Cfg>(
    h: &[HOp],
    recompose: bool,
    consume: bool,
    base_hook: Option<LimbHook<BOf<C>>>,
    ext_hook: Option<LimbHook<EOf<C>>>,
) -> Result<Built<C>, String> {
    let mut b = CircuitBuilder::<EOf<C>>::new();
    C::enable(&mut b, recompose, base_hook, ext_hook);
    let mut ch: Box<dyn RecursiveChallenger<BOf<C>, EOf<C>>> = C::circuit_challenger();
    let seven = b.define_const(eel::<C>(&[7]));
    let mut probes = vec![];
    let mut publics: Vec<EOf<C>> = vec![];
    let mut pow_pos = vec![];
    for (i, op) in h.iter().enumerate() {
        apply_op::<C>(&mut b, ch.as_mut(), &mut publics, &mut probes, &mut pow_pos, i, op, consume, seven)?;
    }
    let circuit = b.build().map_err(|e| format!("build: {e:?}"))?;
    Ok(Built { circuit, probes, publics, pow_pos })
}

/// Several independent challengers in ONE circuit, their operations interleaved: `order[k]` names
/// the challenger that executes its next operation at step k. Returns the circuit, the public
/// values and, per challenger, its probes (aligned with `native_eval(hs[c]).expects`).
pub fn build_interleaved<C: Cfg>(hs: &[Vec<HOp>], order: &[usize], recompose: bool) -> Result<(Built<C>, Vec<Vec<(usize, Probe)>>), String> {
    let mut b = CircuitBuilder::<EOf<C>>::new();
    C::enable(&mut b, recompose, None, None);
    let mut chs: Vec<Box<dyn RecursiveChallenger<BOf<C>, EOf<C>>>> = hs.iter().map(|_| C::circuit_challenger()).collect();
    let seven = b.define_const(eel::<C>(&[7]));
    let mut probes: Vec<Vec<(usize, Probe)>> = vec![vec![]; hs.len()];
    let mut publics: Vec<EOf<C>> = vec![];
    let mut pow_pos = vec![];
    let mut next = vec![0usize; hs.len()];
    for &c in order {
        let i = next[c];
        let Some(op) = hs[c].get(i) else { continue };
        next[c] += 1;
        apply_op::<C>(&mut b, chs[c].as_mut(), &mut publics, &mut probes[c], &mut pow_pos, i, op, true, seven)?;
    }
    let circuit = b.build().map_err(|e| format!("build: {e:?}"))?;
    Ok((Built { circuit, probes: vec![], publics, pow_pos }, probes))
}

pub fn run_built<C: Cfg>(built: &Built<C>, publics: &[EOf<C>]) -> Result<Traces<EOf<C>>, CircuitError> {
    let mut runner = built.circuit.runner();
    runner.set_public_inputs(publics).and_then(|_| runner.run())
}

pub fn read_expr<C: Cfg>(built: &Built<C>, traces: &Traces<EOf<C>>, e: ExprId) -> Option<Vec<u64>> {
    let w = built.circuit.expr_to_widx.get(&e)?;
    traces.witness_trace.get_value(*w).map(<C::S as Setup>::coeffs)
}

/// What the circuit holds for every probe, in the `Expect` vocabulary (`None` = no slot).
pub fn read_probes<C: Cfg>(built: &Built<C>, traces: &Traces<EOf<C>>) -> Vec<Option<Vec<Vec<u64>>>> {
    built
        .probes
        .iter()
        .map(|(_, p)| match p {
            Probe::One(e) => read_expr::<C>(built, traces, *e).map(|c| vec![c]),
            Probe::Bits(es) => es.iter().map(|e| read_expr::<C>(built, traces, *e)).collect(),
        })
        .collect()
}

/// Does the circuit value of a probe equal the native expectation?
pub fn probe_matches<C: Cfg>(exp: &Expect, got: &Option<Vec<Vec<u64>>>) -> bool {
    let d = <C::S as Setup>::D;
    let embed = |v: u64| {
        let mut c = vec![0u64; d];
        c[0] = v;
        c
    };
    let Some(got) = got else { return false };
    match exp {
        Expect::Base(v) => got.len() == 1 && got[0] == embed(*v),
        Expect::Ext(c) => got.len() == 1 && &got[0] == c,
        Expect::Bits(bs) => got.len() == bs.len() && bs.iter().zip(got).all(|(b, g)| *g == embed(*b)),
    }
}

/// C05 varies whether sampled targets are consumed; derived from the history so that a replay
/// rebuilds exactly the same circuit.
pub fn consume_flag(h: &[HOp]) -> bool {
    h.len() % 3 != 0
}

pub fn err_variant(e: &CircuitError) -> String {
    let s = format!("{e:?}");
    s.split(|c: char| !c.is_alphanumeric()).next().unwrap_or("Err").to_string()
}

pub fn path_hash(cfg: &str, phases: &[String]) -> String {
    format!("{cfg}:{:016x}", fnv(&phases.join("|")))
}

// ------------------------------------------------------------------------------------------
// The C05 check of one history
// ------------------------------------------------------------------------------------------

fn detail<C: Cfg>(h: &[HOp], recompose: bool, bad_op: Option<usize>, extra: Value) -> Value {
    json!({"config": C::NAME, "recompose_npo": recompose, "history": h, "bad_op": bad_op, "extra": extra})
}

fn check_history<C: Cfg>(h: &[HOp], recompose: bool, bad_op: Option<usize>, idx: usize) -> Vec<CaseResult> {
    let nat = native_eval::<C>(h, None);
    let key = format!("{}:{}", path_hash(C::NAME, &nat.phases), if recompose { "npo" } else { "alu" });
    if nat.pow.iter().any(|(_, ok)| !ok) {
        return vec![CaseResult::inconclusive(key, "generator: ground PoW witness does not pass natively")];
    }
    let built = match guarded(|| build_history::<C>(h, recompose, consume_flag(h), None, None)) {
        Ok(Ok(b)) => b,
        Ok(Err(e)) => {
            let cls = e.split(':').next().unwrap_or("").to_string();
            return vec![CaseResult::violated(
                key,
                format!("builder-error/{}/{}", C::NAME, cls.split('(').next().unwrap_or("")),
                detail::<C>(h, recompose, bad_op, json!({"error": e})),
            )];
        }
        Err(p) => {
            return vec![CaseResult::violated(
                key,
                format!("builder-panic/{}/{}", C::NAME, panic_site(&p)),
                detail::<C>(h, recompose, bad_op, json!({"panic": p})),
            )];
        }
    };
    let mut out = vec![];
    let n_cmp = nat.expects.len() + nat.pow.len();
    let nontrivial = n_cmp > 0 && nat.perms >= 1;
    // (1) ground witnesses: the run succeeds and every sampled value equals the native one
    let verdict = match guarded(|| run_built::<C>(&built, &built.publics)) {
        Err(p) => Some((
            format!("runner-panic/{}/{}", C::NAME, panic_site(&p)),
            json!({"panic": p}),
        )),
        Ok(Err(e)) => Some((
            format!("run-failed/{}/{}", C::NAME, err_variant(&e)),
            json!({"error": format!("{e:?}"), "native_pow": nat.pow}),
        )),
        Ok(Ok(traces)) => {
            let got = read_probes::<C>(&built, &traces);
            let mut bad = None;
            for (j, (exp, g)) in nat.expects.iter().zip(&got).enumerate() {
                if !probe_matches::<C>(exp, g) {
                    let op_idx = built.probes[j].0;
                    bad = Some((
                        format!("transcript-mismatch/{}/{}", C::NAME, h[op_idx].kind()),
                        json!({"probe": j, "op_index": op_idx, "phase": nat.phases[op_idx],
                               "expected": format!("{exp:?}"), "got": g}),
                    ));
                    break;
                }
            }
            bad
        }
    };
    let mut first = match verdict {
        Some((sig, extra)) => {
            let d = shrink::<C>(h, recompose, &sig).unwrap_or_else(|| detail::<C>(h, recompose, None, extra));
            CaseResult::violated(key.clone(), sig, d)
        }
        None => CaseResult::held(key.clone(), nontrivial),
    };
    first = first
        .count(format!("config/{}", C::NAME), 1)
        .count(if recompose { "recompose/npo" } else { "recompose/alu" }, 1)
        .count("ops", h.len() as u64)
        .count("permutations", nat.perms as u64)
        .count("sampled-values-compared", nat.expects.len() as u64)
        .count("pow-checks-ground", nat.pow.len() as u64);
    for p in &nat.phases {
        first = first.count(format!("phase/{p}"), 1);
    }
    if idx < 12 {
        first = first.with_sample(json!({"config": C::NAME, "recompose_npo": recompose, "ops": h.len(),
            "permutations": nat.perms, "phases": nat.phases.iter().take(40).collect::<Vec<_>>() }));
    }
    out.push(first);
    // (2) a wrong PoW witness: both sides must reject
    if let Some(b) = bad_op {
        let natb = native_eval::<C>(h, Some(b));
        let native_rejects = natb.pow.iter().any(|(i, ok)| *i == b && !ok);
        if let (true, Some((_, pos, bad))) = (native_rejects, built.pow_pos.iter().find(|(i, _, _)| *i == b)) {
            let mut pubs = built.publics.clone();
            pubs[*pos] = eel::<C>(&[*bad]);
            let kb = format!("{key}:wrong-pow@{}", nat.phases[b]);
            let r = match guarded(|| run_built::<C>(&built, &pubs)) {
                Ok(Ok(_)) => CaseResult::violated(
                    kb,
                    format!("pow-wrong-witness-accepted/{}", C::NAME),
                    detail::<C>(h, recompose, bad_op, json!({"op_index": b})),
                ),
                Ok(Err(e)) => CaseResult::held(kb, true).count(format!("pow-wrong-rejected/{}", err_variant(&e)), 1),
                Err(p) => CaseResult::violated(
                    kb,
                    format!("runner-panic/{}/{}", C::NAME, panic_site(&p)),
                    detail::<C>(h, recompose, bad_op, json!({"panic": p})),
                ),
            };
            out.push(r);
        } else {
            out.push(CaseResult::inconclusive(format!("{key}:wrong-pow"), "generator: no natively failing PoW witness"));
        }
    }
    out
}

/// Signature of the ground-witness check of a history (None = held), used for shrinking.
fn quick_sig<C: Cfg>(h: &[HOp], recompose: bool) -> Option<(String, Value)> {
    let nat = native_eval::<C>(h, None);
    if nat.pow.iter().any(|(_, ok)| !ok) {
        return None;
    }
    let built = match guarded(|| build_history::<C>(h, recompose, consume_flag(h), None, None)) {
        Ok(Ok(b)) => b,
        _ => return None,
    };
    match guarded(|| run_built::<C>(&built, &built.publics)) {
        Err(p) => Some((format!("runner-panic/{}/{}", C::NAME, panic_site(&p)), json!({"panic": p}))),
        Ok(Err(e)) => Some((format!("run-failed/{}/{}", C::NAME, err_variant(&e)), json!({"error": format!("{e:?}")}))),
        Ok(Ok(traces)) => {
            let got = read_probes::<C>(&built, &traces);
            for (j, (exp, g)) in nat.expects.iter().zip(&got).enumerate() {
                if !probe_matches::<C>(exp, g) {
                    let op_idx = built.probes[j].0;
                    return Some((
                        format!("transcript-mismatch/{}/{}", C::NAME, h[op_idx].kind()),
                        json!({"probe": j, "op_index": op_idx, "phase": nat.phases[op_idx],
                               "expected": format!("{exp:?}"), "got": g}),
                    ));
                }
            }
            None
        }
    }
}

/// Greedy minimisation of a violating history: drop ops / shrink slices while the same
/// signature is reported (PoW ops are dropped rather than re-ground).
fn shrink<C: Cfg>(h: &[HOp], recompose: bool, sig: &str) -> Option<Value> {
    // only the first few violations of a run are minimised: a broken tree yields thousands of
    // violations and the quick tier must still finish within its budget
    static SHRINKS: AtomicUsize = AtomicUsize::new(0);
    if SHRINKS.fetch_add(1, Ordering::Relaxed) >= 48 {
        return None;
    }
    let mut cur: Vec<HOp> = h.to_vec();
    let mut extra = quick_sig::<C>(&cur, recompose).filter(|(s, _)| s == sig)?.1;
    let mut budget = 400usize;
    // truncate after the failing op first
    if let Some(k) = extra.get("op_index").and_then(|v| v.as_u64()) {
        let t: Vec<HOp> = cur[..=(k as usize).min(cur.len() - 1)].to_vec();
        if let Some((s, e)) = quick_sig::<C>(&t, recompose) {
            if s == sig {
                cur = t;
                extra = e;
            }
        }
    }
    let mut progress = true;
    while progress && budget > 0 {
        progress = false;
        let mut i = 0;
        while i < cur.len() && budget > 0 {
            if cur.len() == 1 {
                break;
            }
            let mut t = cur.clone();
            t.remove(i);
            budget -= 1;
            match quick_sig::<C>(&t, recompose) {
                Some((s, e)) if s == sig => {
                    cur = t;
                    extra = e;
                    progress = true;
                }
                _ => i += 1,
            }
        }
    }
    Some(detail::<C>(&cur, recompose, None, json!({"shrunk_from_ops": h.len(), "witness": extra})))
}

fn case<C: Cfg>(seed: u64, idx: usize, tier: Tier) -> Vec<CaseResult> {
    let mut rng = case_rng(seed, "c05", idx as u64);
    let recompose = rng.random_range(0..2u32) == 0;
    let o = GenOpts {
        max_ops: *pick(&mut rng, &[8usize, 20, 40, 80, tier.pick(120, 160)]),
        max_perms: 48,
        pow: true,
        clear: true,
        bits: true,
        end_sample: chance(&mut rng, 3, 4),
        const_pct: 40,
    };
    let h = gen_history::<C>(&mut rng, &o);
    if h.is_empty() {
        return vec![CaseResult::inconclusive(format!("{}:empty", C::NAME), "generator produced an empty history")];
    }
    let pows: Vec<usize> = h
        .iter()
        .enumerate()
        .filter(|(_, op)| matches!(op, HOp::Pow { bits, w, bad } if *bits > 0 && w != bad))
        .map(|(i, _)| i)
        .collect();
    let bad_op = if !pows.is_empty() && chance(&mut rng, 2, 3) { Some(*pick(&mut rng, &pows)) } else { None };
    check_history::<C>(&h, recompose, bad_op, idx)
}

/// Two or three independent challengers in one circuit with interleaved operations: each must
/// reproduce its own native transcript (the challengers share the Poseidon table and its executor
/// state; nothing in the property ties a transcript to being alone in its circuit).
fn check_interleaved<C: Cfg>(hs: &[Vec<HOp>], order: &[usize], recompose: bool, sample: bool) -> Vec<CaseResult> {
    let nats: Vec<NativeRun> = hs.iter().map(|h| native_eval::<C>(h, None)).collect();
    let key = format!("{}:interleaved:{}:{}", C::NAME, fnv(&format!("{hs:?}{order:?}")), if recompose { "npo" } else { "alu" });
    if nats.iter().any(|n| n.pow.iter().any(|(_, ok)| !ok)) {
        return vec![CaseResult::inconclusive(key, "generator: ground PoW witness does not pass natively")];
    }
    let det = |extra: Value| json!({"config": C::NAME, "recompose_npo": recompose, "interleaved": {"histories": hs, "order": order}, "extra": extra});
    let (built, probes) = match guarded(|| build_interleaved::<C>(hs, order, recompose)) {
        Ok(Ok(x)) => x,
        Ok(Err(e)) => return vec![CaseResult::violated(key, format!("builder-error/{}/interleaved", C::NAME), det(json!({"error": e})))],
        Err(p) => return vec![CaseResult::violated(key, format!("builder-panic/{}/{}", C::NAME, panic_site(&p)), det(json!({"panic": p})))],
    };
    // switches = how often consecutive permuting steps belong to different challengers
    let switches = order.windows(2).filter(|w| w[0] != w[1]).count();
    let perms: usize = nats.iter().map(|n| n.perms).sum();
    let n_cmp: usize = nats.iter().map(|n| n.expects.len()).sum();
    let nontrivial = n_cmp > 0 && nats.iter().filter(|n| n.perms >= 1).count() >= 2 && switches >= 1;
    let verdict = match guarded(|| run_built::<C>(&built, &built.publics)) {
        Err(p) => Some((format!("runner-panic/{}/{}", C::NAME, panic_site(&p)), json!({"panic": p}))),
        Ok(Err(e)) => Some((format!("interleaved-run-failed/{}/{}", C::NAME, err_variant(&e)), json!({"error": format!("{e:?}")}))),
        Ok(Ok(traces)) => {
            let mut bad = None;
            'outer: for (c, (nat, ps)) in nats.iter().zip(&probes).enumerate() {
                for (j, (exp, (op_idx, p))) in nat.expects.iter().zip(ps).enumerate() {
                    let got = match p {
                        Probe::One(e) => read_expr::<C>(&built, &traces, *e).map(|c| vec![c]),
                        Probe::Bits(es) => es.iter().map(|e| read_expr::<C>(&built, &traces, *e)).collect(),
                    };
                    if !probe_matches::<C>(exp, &got) {
                        bad = Some((
                            format!("interleaved-transcript-mismatch/{}", C::NAME),
                            json!({"challenger": c, "probe": j, "op_index": op_idx, "op": hs[c][*op_idx].kind(), "expected": format!("{exp:?}"), "got": got}),
                        ));
                        break 'outer;
                    }
                }
            }
            bad
        }
    };
    let mut r = match verdict {
        Some((sig, extra)) => CaseResult::violated(key, sig, det(extra)),
        None => CaseResult::held(key, nontrivial),
    };
    r = r
        .count(format!("interleaved/config/{}", C::NAME), 1)
        .count(format!("interleaved/challengers/{}", hs.len()), 1)
        .count("interleaved/switches", switches as u64)
        .count("interleaved/permutations", perms as u64)
        .count("interleaved/sampled-values-compared", n_cmp as u64);
    if sample {
        r = r.with_sample(json!({"config": C::NAME, "stream": "interleaved", "challengers": hs.len(), "order": order.iter().take(40).collect::<Vec<_>>(),
            "ops": hs.iter().map(|h| h.len()).collect::<Vec<_>>()}));
    }
    vec![r]
}

fn case_interleaved<C: Cfg>(seed: u64, idx: usize) -> Vec<CaseResult> {
    let mut rng = case_rng(seed, "c05-interleaved", idx as u64);
    let recompose = rng.random_range(0..2u32) == 0;
    let n_ch = if chance(&mut rng, 1, 4) { 3 } else { 2 };
    let o = GenOpts { max_ops: *pick(&mut rng, &[4usize, 8, 16, 30]), max_perms: 12, pow: true, clear: true, bits: true, end_sample: true, const_pct: 40 };
    let hs: Vec<Vec<HOp>> = (0..n_ch).map(|_| gen_history::<C>(&mut rng, &o)).collect();
    if hs.iter().any(|h| h.is_empty()) {
        return vec![CaseResult::inconclusive(format!("{}:interleaved:empty", C::NAME), "generator produced an empty history")];
    }
    // random merge; sometimes in runs (a few operations of one challenger, then of the other)
    let mut left: Vec<usize> = hs.iter().map(|h| h.len()).collect();
    let mut order = vec![];
    let burst = chance(&mut rng, 1, 2);
    while left.iter().any(|l| *l > 0) {
        let c = loop {
            let c = rng.random_range(0..n_ch);
            if left[c] > 0 {
                break c;
            }
        };
        let k = if burst { rng.random_range(1..5usize).min(left[c]) } else { 1 };
        for _ in 0..k {
            order.push(c);
        }
        left[c] -= k;
    }
    check_interleaved::<C>(&hs, &order, recompose, idx < 4)
}

fn replay_one<C: Cfg>(d: &Value) -> Vec<CaseResult> {
    if !d["interleaved"].is_null() {
        let hs: Vec<Vec<HOp>> = serde_json::from_value(d["interleaved"]["histories"].clone()).expect("histories");
        let order: Vec<usize> = serde_json::from_value(d["interleaved"]["order"].clone()).expect("order");
        let mut rs = check_interleaved::<C>(&hs, &order, d["recompose_npo"].as_bool().unwrap_or(true), false);
        for r in rs.iter_mut() {
            r.key = format!("replay:{}", r.key);
        }
        return rs;
    }
    let h: Vec<HOp> = serde_json::from_value(d["history"].clone()).expect("history");
    let recompose = d["recompose_npo"].as_bool().unwrap_or(true);
    let bad_op = d["bad_op"].as_u64().map(|x| x as usize);
    // replay without shrinking noise: report the plain verdict of this exact history
    match quick_sig::<C>(&h, recompose) {
        Some((sig, extra)) => vec![CaseResult::violated("replay", sig, detail::<C>(&h, recompose, bad_op, extra))],
        None => {
            let mut rs = check_history::<C>(&h, recompose, bad_op, usize::MAX);
            for r in rs.iter_mut() {
                r.key = format!("replay:{}", r.key);
            }
            rs
        }
    }
}

fn main() {
    let mut args = parse_args();
    if let Some(p) = &args.replay {
        // replay files of a replay run must not overwrite the files of the original run
        args.seed = 4_000_000_000 + fnv(&p.to_string_lossy()) % 1_000_000;
    }
    let mut rep = Report::new(
        "C05",
        "exploration",
        &args,
        "case = (challenger configuration, recompose table on/off, random history of observe base/ext/slice, \
         sample base/ext, sample_bits, check_pow_witness, clear); the compiled circuit is run and every sampled \
         target / bit vector is compared with p3_challenger::DuplexChallenger on the same history; ground PoW \
         witnesses must run, a wrong PoW witness must make the run fail (second result of the case). \
         non-trivial = at least one permutation and one compared value; distinct = (configuration, recompose \
         mode, hash of the (op kind, input-buffer length, output-buffer length) sequence)",
    );
    rep.assume("p3_challenger::DuplexChallenger (crates.io 0.6.3) with the repository's default permutations is the reference transcript");
    rep.assume("clear() of the circuit challenger corresponds to a freshly constructed native challenger");
    rep.assume("sample_bits(n) for 2^n >= p (where the native helper asserts) means the low n bits of the canonical value of one base sample");
    if let Some(p) = &args.replay {
        let v: Value = serde_json::from_str(&std::fs::read_to_string(p).expect("replay file")).expect("json");
        let d = v["detail"].clone();
        let name = d["config"].as_str().expect("config").to_string();
        let rs = with_cfg!(name.as_str(), replay_one, &d);
        rep.add_all(rs);
        rep.finish(0);
    }
    let n: usize = args
        .extra
        .get("n")
        .and_then(|s| s.parse().ok())
        .unwrap_or(args.tier.pick(60_000, 3_000_000));
    let only = args.extra.get("config").cloned();
    let (seed, tier) = (args.seed, args.tier);
    // processed in chunks so that the per-case counters of millions of cases are folded into the
    // report as they are produced
    let chunk = 100_000usize;
    let mut start = 0usize;
    while start < n {
        let len = chunk.min(n - start);
        let results = run_cases(len, args.threads, |j| {
            let i = start + j;
            let name = match &only {
                Some(c) => c.as_str(),
                None => ALL_CONFIGS[i % ALL_CONFIGS.len()],
            };
            with_cfg!(name, case, seed, i, tier)
        });
        for r in &results {
            if matches!(r.verdict, Verdict::Held) && r.nontrivial && !r.key.contains("wrong-pow") {
                // key = <config>:<path hash>:<recompose mode>
                let mut it = r.key.split(':');
                if let (Some(c), Some(h)) = (it.next(), it.next()) {
                    rep.observe("configs", c.to_string());
                    rep.observe("buffer_state_paths", h.to_string());
                }
            }
        }
        rep.add_all(results);
        start += len;
    }
    // second stream: several challengers in one circuit, operations interleaved
    if args.extra.get("n").is_none() || args.extra.contains_key("interleaved") {
        let ni: usize = args.extra.get("interleaved").and_then(|s| s.parse().ok()).unwrap_or(args.tier.pick(3_000, 150_000));
        let results = run_cases(ni, args.threads, |i| {
            let name = match &only {
                Some(c) => c.as_str(),
                None => ALL_CONFIGS[i % ALL_CONFIGS.len()],
            };
            with_cfg!(name, case_interleaved, seed, i)
        });
        rep.add_all(results);
    }
    rep.finish(args.tier.pick(30_000, 1_500_000));
}
