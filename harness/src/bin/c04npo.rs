//! C04NPO — second stream of C04 ("an accepted circuit proof attests a satisfying assignment") over
//! the NON-PRIMITIVE rows: Poseidon2 / Poseidon1 permutation tables in sponge, chained-sponge and
//! Merkle-path mode (arity 2, packed extension limbs: BabyBear / KoalaBear D4 W16, Goldilocks D2 W8).
//!
//! Workload: random *row programs* written against the public builder API (`add_perm` rows forming
//! sponge chains and Merkle chains with witness-fed or private siblings, direction bits that are
//! public inputs or constants, exposed outputs that are read by ALU rows or connected to expected
//! public values), plus the library gadgets `add_mmcs_verify` and `add_hash_slice`. Every circuit is
//! run honestly, keys are generated with the plugin table provers, and the *recorded permutation
//! rows* of the execution trace (`Poseidon{1,2}Trace::operations`, all fields public) are forged the
//! way a malicious prover would:
//!   * `chain-limb`           one coefficient of an input limb that must equal the previous row's
//!                            output (chained sponge state / running Merkle digest), nothing else;
//!   * `chain-limb-carried`   the same, with the permutation recomputed and the new output carried
//!                            into the following rows of the chain (so that exactly one chaining
//!                            relation is broken);
//!   * `ctl-limb[-carried]`   one coefficient of an input limb the circuit binds to a witness slot;
//!   * `zero-limb`            a limb of a sponge-start row that is neither witness-fed nor chained
//!                            (the row's function fixes it to zero);
//!   * `bit-flip`             the direction bit of a Merkle row (halves swapped accordingly).
//! The forged traces are labelled by an independent model of the row relation (written from the
//! documentation of `ops/poseidon_perm`, see `Model`), proven with the honest prover data and shown
//! to `verify_all_tables`. Oracle: a forged trace the model labels unsatisfying must be rejected
//! (a prover-side error or panic counts as rejected). The model is validated on the honest rows of
//! every circuit first (a disagreement is a harness problem: inconclusive).
//!
//! `--emit C04` prints the results as `R <json>` lines for `c04` (which registers them); without it
//! this is a stand-alone monitor "C04NPO" for manual use (`--replay file`, `--n N`).

#![allow(dead_code, clippy::type_complexity, clippy::too_many_arguments)]

#[macro_use]
#[path = "c05.rs"]
mod c05;

use c05::*;
use p3_circuit::tables::NonPrimitiveTrace;
use p3_circuit::ops::{PermCall, PermConfig, Poseidon1Config, Poseidon1Trace, Poseidon2Config, Poseidon2Trace, perm_private_data};
use p3_circuit::tables::Traces;
use p3_circuit::{Circuit, CircuitBuilder, ExprId, NonPrimitiveOpId, Op, WitnessId};
use p3_field::{PrimeCharacteristicRing, PrimeField64};
use p3r_verif::fields::Setup;
use p3r_verif::util::*;
use rand::RngExt;
use rand::rngs::SmallRng;
use serde::{Deserialize, Serialize};
use serde_json::{Value, json};

pub const NPO_CONFIGS: [&str; 6] = [
    "babybear-d4-w16-poseidon2",
    "koalabear-d4-w16-poseidon2",
    "goldilocks-d2-w8-poseidon2",
    "babybear-d4-w16-poseidon1",
    "koalabear-d4-w16-poseidon1",
    "goldilocks-d2-w8-poseidon1",
];

fn perm_config(name: &str) -> PermConfig {
    match name {
        "babybear-d4-w16-poseidon2" => PermConfig::Poseidon2(Poseidon2Config::BABY_BEAR_D4_W16),
        "koalabear-d4-w16-poseidon2" => PermConfig::Poseidon2(Poseidon2Config::KOALA_BEAR_D4_W16),
        "goldilocks-d2-w8-poseidon2" => PermConfig::Poseidon2(Poseidon2Config::GOLDILOCKS_D2_W8),
        "babybear-d4-w16-poseidon1" => PermConfig::Poseidon1(Poseidon1Config::BABY_BEAR_D4_W16),
        "koalabear-d4-w16-poseidon1" => PermConfig::Poseidon1(Poseidon1Config::KOALA_BEAR_D4_W16),
        "goldilocks-d2-w8-poseidon1" => PermConfig::Poseidon1(Poseidon1Config::GOLDILOCKS_D2_W8),
        other => panic!("no perm config for {other}"),
    }
}

// ------------------------------------------------------------------------------------------
// Row programs
// ------------------------------------------------------------------------------------------

#[derive(Serialize, Deserialize, Clone, Debug)]
pub struct RowSpec {
    pub ns: bool,
    pub mk: bool,
    /// direction bit value (Merkle rows) and whether its target is a constant
    pub bit: bool,
    pub bit_const: bool,
    /// per logical limb: Some(coefficients) = witness-fed (a public input), None = not exposed
    pub limbs: Vec<Option<Vec<u64>>>,
    /// private sibling (Merkle rows, capacity_ext limbs) if any
    pub sibling: Option<Vec<Vec<u64>>>,
    pub out_ctl: Vec<bool>,
    /// per rate limb: 0 = exposed output not consumed, 1 = read by an ALU row, 2 = connected to a
    /// public input holding the expected value
    pub consume: Vec<u8>,
    /// expose the MMCS index accumulator of this (Merkle continuation) row through a public input
    #[serde(default)]
    pub idx: bool,
}

#[derive(Serialize, Deserialize, Clone, Debug)]
pub enum Gadget {
    /// explicit rows through `add_perm`
    Rows(Vec<RowSpec>),
    /// `add_mmcs_verify(config, openings, directions, root)`: (openings per level (empty = none),
    /// direction bits, private siblings per compression step, tail digest)
    Mmcs { openings: Vec<Vec<Vec<u64>>>, bits: Vec<bool>, siblings: Vec<Vec<Vec<u64>>> },
    /// `add_hash_slice(config, inputs, reset = true)` (Poseidon2 only)
    HashSlice { inputs: Vec<Vec<u64>> },
}

#[derive(Serialize, Deserialize, Clone, Debug)]
pub struct Spec {
    pub config: String,
    pub gadgets: Vec<Gadget>,
}

fn rand_limb<C: Cfg>(rng: &mut SmallRng) -> Vec<u64> {
    let d = <C::S as Setup>::D;
    let order = <C::S as Setup>::order();
    (0..d).map(|_| if chance(rng, 1, 6) { rng.random_range(0..3u64) } else { rng.random::<u64>() % order }).collect()
}

fn gen_rows<C: Cfg>(rng: &mut SmallRng, pc: PermConfig) -> Vec<RowSpec> {
    let (we, re, ce) = (pc.width_ext(), pc.rate_ext(), pc.capacity_ext());
    let mut rows = vec![];
    let chains = rng.random_range(1..4usize);
    for _ in 0..chains {
        let merkle = chance(rng, 3, 5);
        let len = rng.random_range(1..6usize);
        let expose_idx = rng.random_range(0..len + 1); // one inner row may expose too
        for k in 0..len {
            let last = k == len - 1;
            let mut limbs: Vec<Option<Vec<u64>>> = vec![None; we];
            let mut sibling = None;
            if merkle {
                if k == 0 {
                    for l in limbs.iter_mut().take(re) {
                        if !chance(rng, 1, 10) {
                            *l = Some(rand_limb::<C>(rng));
                        }
                    }
                } else if chance(rng, 1, 12) {
                    // a CTL-loaded digest limb overrides the chained one
                    limbs[rng.random_range(0..re)] = Some(rand_limb::<C>(rng));
                }
                match rng.random_range(0..10u32) {
                    0..=3 => {
                        for l in limbs.iter_mut().skip(re).take(ce) {
                            *l = Some(rand_limb::<C>(rng));
                        }
                    }
                    4..=8 => sibling = Some((0..ce).map(|_| rand_limb::<C>(rng)).collect()),
                    _ => {}
                }
            } else if k == 0 {
                for l in limbs.iter_mut() {
                    if chance(rng, 3, 5) {
                        *l = Some(rand_limb::<C>(rng));
                    }
                }
            } else {
                for l in limbs.iter_mut().take(re) {
                    if chance(rng, 3, 5) {
                        *l = Some(rand_limb::<C>(rng));
                    }
                }
                if chance(rng, 1, 8) {
                    limbs[re + rng.random_range(0..ce)] = Some(rand_limb::<C>(rng));
                }
            }
            let expose = last && chance(rng, 5, 6) || k == expose_idx && chance(rng, 1, 3);
            // the builder wants exposed outputs to be a prefix of the rate limbs
            let n_exp = if !expose { 0 } else if chance(rng, 1, 6) { rng.random_range(1..=re) } else { re };
            let out_ctl: Vec<bool> = (0..re).map(|j| j < n_exp).collect();
            let consume: Vec<u8> = out_ctl.iter().map(|e| if *e { [1u8, 2, 2, 0][rng.random_range(0..4usize)] } else { 0 }).collect();
            let idx = merkle && k > 0 && last && chance(rng, 1, 3);
            rows.push(RowSpec { ns: k == 0, mk: merkle, bit: merkle && chance(rng, 1, 2), bit_const: chance(rng, 1, 4), limbs, sibling, out_ctl, consume, idx });
        }
    }
    rows
}

fn gen_spec<C: Cfg>(rng: &mut SmallRng) -> Spec {
    let pc = perm_config(C::NAME);
    let (re, ce) = (pc.rate_ext(), pc.capacity_ext());
    let mut gadgets = vec![];
    let n = rng.random_range(1..3usize);
    for _ in 0..n {
        match rng.random_range(0..10u32) {
            0..=5 => gadgets.push(Gadget::Rows(gen_rows::<C>(rng, pc))),
            6..=8 => {
                let levels = rng.random_range(1..5usize);
                let tail = chance(rng, 1, 3);
                let mut openings: Vec<Vec<Vec<u64>>> = vec![];
                for i in 0..levels + usize::from(tail) {
                    if i == 0 || i == levels || chance(rng, 1, 3) {
                        openings.push((0..re).map(|_| rand_limb::<C>(rng)).collect());
                    } else {
                        openings.push(vec![]);
                    }
                }
                let bits = (0..levels).map(|_| chance(rng, 1, 2)).collect();
                let siblings = (0..levels).map(|_| (0..ce).map(|_| rand_limb::<C>(rng)).collect()).collect();
                gadgets.push(Gadget::Mmcs { openings, bits, siblings });
            }
            _ => {
                if C::POSEIDON1 {
                    gadgets.push(Gadget::Rows(gen_rows::<C>(rng, pc)));
                } else {
                    let k = rng.random_range(1..3 * re + 2);
                    gadgets.push(Gadget::HashSlice { inputs: (0..k).map(|_| rand_limb::<C>(rng)).collect() });
                }
            }
        }
    }
    // one spec in four: the permutation table gets exactly 2^k rows (no padding row) and ends with
    // a Merkle continuation row that exposes the index accumulator
    if chance(rng, 1, 4) {
        let count = |g: &Gadget| -> usize {
            match g {
                Gadget::Rows(r) => r.len(),
                Gadget::Mmcs { openings, bits, .. } => {
                    bits.len() + (1..bits.len()).filter(|i| !openings[*i].is_empty()).count() + usize::from(openings.len() > bits.len() && !openings[bits.len()].is_empty())
                }
                Gadget::HashSlice { inputs } => inputs.len().div_ceil(re),
            }
        };
        let mut tail = gen_rows::<C>(rng, pc);
        // keep only a final Merkle chain of length >= 2
        let mk_len = 2 + rng.random_range(0..3usize);
        tail.clear();
        for k in 0..mk_len {
            let mut limbs: Vec<Option<Vec<u64>>> = vec![None; pc.width_ext()];
            if k == 0 {
                for l in limbs.iter_mut().take(re) {
                    *l = Some(rand_limb::<C>(rng));
                }
            }
            let last = k == mk_len - 1;
            tail.push(RowSpec {
                ns: k == 0,
                mk: true,
                bit: chance(rng, 1, 2),
                bit_const: false,
                limbs,
                sibling: Some((0..ce).map(|_| rand_limb::<C>(rng)).collect()),
                out_ctl: (0..re).map(|_| last).collect(),
                consume: (0..re).map(|_| if last { 2 } else { 0 }).collect(),
                idx: last,
            });
        }
        let so_far: usize = gadgets.iter().map(count).sum::<usize>() + tail.len();
        let target = so_far.next_power_of_two();
        let mut filler = vec![];
        for _ in so_far..target {
            let mut limbs: Vec<Option<Vec<u64>>> = vec![None; pc.width_ext()];
            limbs[0] = Some(rand_limb::<C>(rng));
            filler.push(RowSpec { ns: true, mk: false, bit: false, bit_const: false, limbs, sibling: None, out_ctl: vec![false; re], consume: vec![0; re], idx: false });
        }
        filler.extend(tail);
        gadgets.push(Gadget::Rows(filler));
    }
    Spec { config: C::NAME.to_string(), gadgets }
}

// ------------------------------------------------------------------------------------------
// Building (with a shadow execution that supplies the expected values of connected outputs)
// ------------------------------------------------------------------------------------------

pub struct BuiltNpo<C: Cfg> {
    pub circuit: Circuit<EOf<C>>,
    pub publics: Vec<EOf<C>>,
    pub private: Vec<(NonPrimitiveOpId, Vec<EOf<C>>)>,
}

struct Shadow<C: Cfg> {
    last_normal: Option<Vec<EOf<C>>>,
    last_merkle: Option<Vec<EOf<C>>>,
}

fn permute_ext<C: Cfg>(state: &[EOf<C>]) -> Vec<EOf<C>> {
    let d = <C::S as Setup>::D;
    let mut flat: Vec<BOf<C>> = state.iter().flat_map(|e| <C::S as Setup>::coeffs(e)).map(bel::<C>).collect();
    C::raw_permute(&mut flat);
    flat.chunks(d).map(|c| eel::<C>(&c.iter().map(|x| x.as_canonical_u64()).collect::<Vec<_>>())).collect()
}

impl<C: Cfg> Shadow<C> {
    /// executor semantics as documented in `ops/poseidon_perm/executor.rs::execute` (steps 1-4)
    fn row(&mut self, pc: PermConfig, ns: bool, mk: bool, bit: bool, limbs: &[Option<EOf<C>>], sibling: Option<&[EOf<C>]>) -> Result<Vec<EOf<C>>, String> {
        let (we, re, ce) = (pc.width_ext(), pc.rate_ext(), pc.capacity_ext());
        let mut st = vec![EOf::<C>::ZERO; we];
        if !ns {
            let prev = if mk { self.last_merkle.clone() } else { self.last_normal.clone() }.ok_or("chain without predecessor")?;
            let n = if mk { re } else { we };
            st[..n].copy_from_slice(&prev[..n]);
        }
        if let (true, Some(s)) = (mk, sibling) {
            let n = s.len().min(ce);
            st[re..re + n].copy_from_slice(&s[..n]);
        }
        for (slot, l) in st.iter_mut().zip(limbs) {
            if let Some(v) = l {
                *slot = *v;
            }
        }
        if mk && bit {
            for i in 0..re {
                st.swap(i, re + i);
            }
        }
        let out = permute_ext::<C>(&st);
        if mk {
            self.last_merkle = Some(out.clone());
        } else {
            self.last_normal = Some(out.clone());
        }
        Ok(out)
    }
}

fn build_npo<C: Cfg>(spec: &Spec) -> Result<BuiltNpo<C>, String> {
    let pc = perm_config(&spec.config);
    let re = pc.rate_ext();
    let mut b = CircuitBuilder::<EOf<C>>::new();
    C::enable(&mut b, false, None, None);
    let mut publics: Vec<EOf<C>> = vec![];
    let mut private = vec![];
    let mut sh = Shadow::<C> { last_normal: None, last_merkle: None };
    let seven = b.define_const(eel::<C>(&[7]));
    let mut acc: u64 = 0;
    let pubin = |b: &mut CircuitBuilder<EOf<C>>, publics: &mut Vec<EOf<C>>, v: EOf<C>| -> ExprId {
        publics.push(v);
        b.public_input()
    };
    for g in &spec.gadgets {
        match g {
            Gadget::Rows(rows) => {
                for r in rows {
                    let vals: Vec<Option<EOf<C>>> = r.limbs.iter().map(|l| l.as_ref().map(|c| eel::<C>(c))).collect();
                    let inputs: Vec<Option<ExprId>> = vals.iter().map(|v| v.map(|v| pubin(&mut b, &mut publics, v))).collect();
                    let bitv = if r.bit { EOf::<C>::ONE } else { EOf::<C>::ZERO };
                    let mmcs_bit = if r.mk { Some(if r.bit_const { b.define_const(bitv) } else { pubin(&mut b, &mut publics, bitv) }) } else { None };
                    // index accumulator as the trace generators compute it: reset on a chain start,
                    // acc' = 2 acc + bit on a Merkle continuation row
                    if r.ns || !r.mk {
                        acc = 0;
                    } else {
                        acc = 2 * acc + u64::from(r.bit);
                    }
                    let mmcs_index_sum = if r.idx && r.mk && !r.ns { Some(pubin(&mut b, &mut publics, eel::<C>(&[acc]))) } else { None };
                    let (op_id, outs) = b
                        .add_perm(pc, &PermCall { new_start: r.ns, merkle_path: r.mk, mmcs_bit, mmcs_bit2: None, inputs, out_ctl: r.out_ctl.clone(), return_all_outputs: false, mmcs_index_sum })
                        .map_err(|e| format!("add_perm: {e:?}"))?;
                    let sib: Option<Vec<EOf<C>>> = r.sibling.as_ref().map(|s| s.iter().map(|c| eel::<C>(c)).collect());
                    if let Some(s) = &sib {
                        private.push((op_id, s.clone()));
                    }
                    let out = sh.row(pc, r.ns, r.mk, r.bit, &vals, sib.as_deref())?;
                    for j in 0..re {
                        if let Some(Some(o)) = outs.get(j) {
                            match r.consume.get(j).copied().unwrap_or(0) {
                                1 => {
                                    b.mul(*o, seven);
                                }
                                2 => {
                                    let e = pubin(&mut b, &mut publics, out[j]);
                                    b.connect(*o, e);
                                }
                                _ => {}
                            }
                        }
                    }
                }
            }
            Gadget::Mmcs { openings, bits, siblings } => {
                let mut open_e: Vec<Vec<ExprId>> = vec![];
                let mut open_v: Vec<Vec<EOf<C>>> = vec![];
                for o in openings {
                    let vs: Vec<EOf<C>> = o.iter().map(|c| eel::<C>(c)).collect();
                    open_e.push(vs.iter().map(|v| pubin(&mut b, &mut publics, *v)).collect());
                    open_v.push(vs);
                }
                let dirs: Vec<ExprId> = bits.iter().map(|x| pubin(&mut b, &mut publics, if *x { EOf::<C>::ONE } else { EOf::<C>::ZERO })).collect();
                // native root: documented behaviour of add_mmcs_verify (row-digest injection before a
                // sibling step, optional tail digest after the last one)
                let h = |l: &[EOf<C>], r: &[EOf<C>]| -> Vec<EOf<C>> {
                    let st: Vec<EOf<C>> = l.iter().chain(r.iter()).copied().collect();
                    permute_ext::<C>(&st)[..re].to_vec()
                };
                let mut dig = open_v[0].clone();
                for (i, bit) in bits.iter().enumerate() {
                    if i > 0 && !open_v[i].is_empty() {
                        dig = h(&dig, &open_v[i]);
                    }
                    let sib: Vec<EOf<C>> = siblings[i].iter().map(|c| eel::<C>(c)).collect();
                    dig = if *bit { h(&sib, &dig) } else { h(&dig, &sib) };
                }
                if open_v.len() > bits.len() && !open_v[bits.len()].is_empty() {
                    dig = h(&dig, &open_v[bits.len()]);
                }
                let root: Vec<ExprId> = dig.iter().map(|v| pubin(&mut b, &mut publics, *v)).collect();
                let ids = b.add_mmcs_verify(pc, &open_e, &dirs, &root).map_err(|e| format!("add_mmcs_verify: {e:?}"))?;
                if ids.len() != siblings.len() {
                    return Err(format!("add_mmcs_verify returned {} op ids for {} levels", ids.len(), siblings.len()));
                }
                for (id, s) in ids.iter().zip(siblings) {
                    private.push((*id, s.iter().map(|c| eel::<C>(c)).collect()));
                }
                // the library gadget keeps its own chain: the shadow chain state is not needed after it
                sh.last_merkle = None;
            }
            Gadget::HashSlice { inputs } => {
                let PermConfig::Poseidon2(p2) = pc else { return Err("hash_slice needs Poseidon2".into()) };
                let vs: Vec<EOf<C>> = inputs.iter().map(|c| eel::<C>(c)).collect();
                let es: Vec<ExprId> = vs.iter().map(|v| pubin(&mut b, &mut publics, *v)).collect();
                let outs = b.add_hash_slice(&p2, &es, true).map_err(|e| format!("add_hash_slice: {e:?}"))?;
                for o in outs {
                    b.mul(o, seven);
                }
                sh.last_normal = None;
            }
        }
    }
    let circuit = b.build().map_err(|e| format!("build: {e:?}"))?;
    Ok(BuiltNpo { circuit, publics, private })
}

fn run_npo<C: Cfg>(bn: &BuiltNpo<C>) -> Result<Traces<EOf<C>>, String> {
    let pc_name = C::NAME;
    let pc = perm_config(pc_name);
    let mut runner = bn.circuit.runner();
    runner.set_public_inputs(&bn.publics).map_err(|e| format!("set_public_inputs: {e:?}"))?;
    for (id, s) in &bn.private {
        runner.set_private_data(*id, perm_private_data(pc, s.clone())).map_err(|e| format!("set_private_data: {e:?}"))?;
    }
    runner.run().map_err(|e| format!("run: {e:?}"))
}

// ------------------------------------------------------------------------------------------
// Recorded rows <-> generic view
// ------------------------------------------------------------------------------------------

#[derive(Clone, Debug, Serialize, Deserialize)]
pub struct Row {
    pub ns: bool,
    pub mk: bool,
    pub bit: bool,
    pub inputs: Vec<u64>,
    pub in_ctl: Vec<bool>,
    pub in_idx: Vec<u32>,
    pub out_ctl: Vec<bool>,
    pub out_idx: Vec<u32>,
}

macro_rules! rows_of {
    ($p:expr, $can:expr) => {
        $p.operations
            .iter()
            .map(|r| Row {
                ns: r.new_start,
                mk: r.merkle_path,
                bit: r.mmcs_bit,
                inputs: $can(&r.input_values),
                in_ctl: r.in_ctl.clone(),
                in_idx: r.input_indices.clone(),
                out_ctl: r.out_ctl.clone(),
                out_idx: r.output_indices.clone(),
            })
            .collect::<Vec<Row>>()
    };
}

fn read_rows<C: Cfg>(traces: &Traces<EOf<C>>) -> Option<Vec<Row>> {
    let can = |v: &Vec<BOf<C>>| v.iter().map(|x| x.as_canonical_u64()).collect::<Vec<u64>>();
    for t in traces.non_primitive_traces.values() {
        if let Some(p) = t.as_any().downcast_ref::<Poseidon2Trace<BOf<C>>>() {
            return Some(rows_of!(p, can));
        }
        if let Some(p) = t.as_any().downcast_ref::<Poseidon1Trace<BOf<C>>>() {
            return Some(rows_of!(p, can));
        }
    }
    None
}

/// Writes `inputs` / `bit` of the given rows back into the recorded trace (nothing else changes).
fn write_rows<C: Cfg>(traces: &mut Traces<EOf<C>>, rows: &[Row]) -> bool {
    macro_rules! put {
        ($p:expr) => {{
            let mut p = $p.clone();
            if p.operations.len() != rows.len() {
                return false;
            }
            for (o, r) in p.operations.iter_mut().zip(rows) {
                o.input_values = r.inputs.iter().map(|v| bel::<C>(*v)).collect();
                o.mmcs_bit = r.bit;
            }
            Some(Box::new(p) as Box<dyn NonPrimitiveTrace<EOf<C>>>)
        }};
    }
    for t in traces.non_primitive_traces.values_mut() {
        let edited = if let Some(p) = t.as_any().downcast_ref::<Poseidon2Trace<BOf<C>>>() {
            put!(p)
        } else if let Some(p) = t.as_any().downcast_ref::<Poseidon1Trace<BOf<C>>>() {
            put!(p)
        } else {
            None
        };
        if let Some(e) = edited {
            *t = e;
            return true;
        }
    }
    false
}

// ------------------------------------------------------------------------------------------
// The model of the row relation
// ------------------------------------------------------------------------------------------

struct Model<'a, C: Cfg> {
    d: usize,
    we: usize,
    re: usize,
    /// witness value (coefficients) per slot
    wit: &'a dyn Fn(u32) -> Option<Vec<u64>>,
    /// number of op relations reading a slot
    readers: &'a dyn Fn(u32) -> usize,
    _c: std::marker::PhantomData<C>,
}

#[derive(Clone, Debug, PartialEq)]
struct Broken {
    row: usize,
    what: &'static str,
}

impl<'a, C: Cfg> Model<'a, C> {
    fn limb<'r>(&self, r: &'r Row, p: usize) -> &'r [u64] {
        &r.inputs[p * self.d..(p + 1) * self.d]
    }
    fn out(&self, r: &Row) -> Vec<u64> {
        let mut flat: Vec<BOf<C>> = r.inputs.iter().map(|v| bel::<C>(*v)).collect();
        C::raw_permute(&mut flat);
        flat.iter().map(|x| x.as_canonical_u64()).collect()
    }
    /// physical position of logical limb `i` on row `r`
    fn phys(&self, r: &Row, i: usize) -> usize {
        if r.mk && r.bit {
            if i < self.re { i + self.re } else if i < 2 * self.re { i - self.re } else { i }
        } else {
            i
        }
    }
    /// What the relation says about physical limb `p` of row `k`: "ctl" (bound to a witness slot),
    /// "chain" (equals a limb of the previous row's output), "zero", or "free".
    /// `in_ctl` / `in_idx` of the recorded rows are indexed by *logical* limb.
    fn kind(&self, rows: &[Row], k: usize, p: usize) -> (&'static str, Option<usize>) {
        let r = &rows[k];
        let i = (0..self.we).find(|i| self.phys(r, *i) == p).unwrap();
        if r.in_ctl[i] {
            return ("ctl", Some(i));
        }
        if r.ns {
            return if r.mk { ("free", None) } else { ("zero", None) };
        }
        if r.mk {
            if i < self.re { ("chain", Some(i)) } else { ("free", None) }
        } else {
            ("chain", Some(i))
        }
    }
    fn check(&self, rows: &[Row]) -> Vec<Broken> {
        let mut out = vec![];
        let mut prev: Option<Vec<u64>> = None;
        for (k, r) in rows.iter().enumerate() {
            for p in 0..self.we {
                match self.kind(rows, k, p) {
                    ("ctl", Some(i)) => match (self.wit)(r.in_idx[i]) {
                        Some(w) if w == self.limb(r, p) => {}
                        _ => out.push(Broken { row: k, what: "ctl-input" }),
                    },
                    ("zero", _) => {
                        if self.limb(r, p).iter().any(|x| *x != 0) {
                            out.push(Broken { row: k, what: "start-zero" });
                        }
                    }
                    ("chain", Some(i)) => match &prev {
                        Some(po) if &po[i * self.d..(i + 1) * self.d] == self.limb(r, p) => {}
                        _ => out.push(Broken { row: k, what: "chain" }),
                    },
                    _ => {}
                }
            }
            let o = self.out(r);
            for j in 0..self.re {
                if r.out_ctl[j] && (self.readers)(r.out_idx[j]) > 0 {
                    match (self.wit)(r.out_idx[j]) {
                        Some(w) if w == o[j * self.d..(j + 1) * self.d] => {}
                        _ => out.push(Broken { row: k, what: "exposed-output" }),
                    }
                }
            }
            prev = Some(o);
        }
        out
    }
    /// Carry the output of row `from` into the chained limbs of the following rows of its chain.
    fn carry(&self, rows: &mut [Row], from: usize) {
        let mut k = from;
        while k + 1 < rows.len() && !rows[k + 1].ns && rows[k + 1].mk == rows[k].mk {
            let o = self.out(&rows[k]);
            let nxt = k + 1;
            for p in 0..self.we {
                if let ("chain", Some(i)) = self.kind(rows, nxt, p) {
                    let d = self.d;
                    rows[nxt].inputs[p * d..(p + 1) * d].copy_from_slice(&o[i * d..(i + 1) * d]);
                }
            }
            k = nxt;
        }
    }
}

fn row_kind(r: &Row, spec_private: bool) -> String {
    match (r.mk, r.ns) {
        (false, true) => "sponge-start".into(),
        (false, false) => "sponge-cont".into(),
        (true, true) => format!("merkle-start-{}", if r.bit { "right" } else { "left" }),
        (true, false) => format!("merkle-cont-{}/{}", if r.bit { "right" } else { "left" }, if spec_private { "free-sibling" } else { "witness-sibling" }),
    }
}

// ------------------------------------------------------------------------------------------
// One case
// ------------------------------------------------------------------------------------------

fn slot_readers<E>(circuit: &Circuit<E>) -> Vec<usize> {
    // a slot is "read" when an op other than the permutation row that creates it refers to it
    let mut n = vec![0usize; circuit.witness_count as usize];
    for op in &circuit.ops {
        match op {
            Op::Alu { a, b, c, out, .. } => {
                for w in [Some(*a), Some(*b), *c, Some(*out)].into_iter().flatten() {
                    n[w.0 as usize] += 1;
                }
            }
            Op::Public { out, .. } | Op::Const { out, .. } => n[out.0 as usize] += 1,
            Op::NonPrimitiveOpWithExecutor { inputs, .. } => {
                for w in inputs.iter().flatten() {
                    n[w.0 as usize] += 1;
                }
            }
            _ => {}
        }
    }
    n
}

fn one_spec<C: Cfg>(spec: &Spec, rng: &mut SmallRng, key: &str, max_forgeries: usize, only: Option<&Value>) -> Vec<CaseResult> {
    let d = <C::S as Setup>::D;
    let pc = perm_config(&spec.config);
    let (we, re) = (pc.width_ext(), pc.rate_ext());
    let detail0 = |extra: Value| json!({"stream": "npo", "config": spec.config, "spec": spec, "forgery": extra});
    let bn = match guarded(|| build_npo::<C>(spec)) {
        Ok(Ok(b)) => b,
        Ok(Err(e)) => return vec![CaseResult::inconclusive(key, format!("build: {}", e.chars().take(120).collect::<String>()))],
        Err(p) => return vec![CaseResult::inconclusive(key, format!("build panic: {}", panic_site(&p)))],
    };
    let traces = match guarded(|| run_npo::<C>(&bn)) {
        Ok(Ok(t)) => t,
        Ok(Err(e)) => return vec![CaseResult::inconclusive(key, format!("honest run failed (C02/C08 territory): {}", e.chars().take(120).collect::<String>()))],
        Err(p) => return vec![CaseResult::inconclusive(key, format!("honest run panic: {}", panic_site(&p)))],
    };
    let kit = match guarded(|| C::prove_kit(&bn.circuit, false)) {
        Ok(Ok(k)) => k,
        Ok(Err(e)) => return vec![CaseResult::inconclusive(key, format!("prove kit: {}", e.chars().take(120).collect::<String>()))],
        Err(p) => return vec![CaseResult::inconclusive(key, format!("prove kit panic: {}", panic_site(&p)))],
    };
    let accepted = |t: &Traces<EOf<C>>| -> Result<bool, String> {
        match guarded(|| <C::S as Setup>::prove(&kit.prover, t, &kit.cpd)) {
            Ok(Ok(proof)) => match guarded(|| <C::S as Setup>::verify(&kit.prover, &proof)) {
                Ok(r) => Ok(r.is_ok() && C::pin(&proof) == commitment_json_of::<C>(&kit)),
                Err(_) => Ok(false),
            },
            Ok(Err(_)) | Err(_) => Ok(false),
        }
    };
    let Some(rows) = read_rows::<C>(&traces) else {
        return vec![CaseResult::inconclusive(key, "no Poseidon trace in the execution traces")];
    };
    let readers = slot_readers(&bn.circuit);
    let wit = |idx: u32| traces.witness_trace.get_value(WitnessId(idx)).map(<C::S as Setup>::coeffs);
    let rd = |idx: u32| readers.get(idx as usize).copied().unwrap_or(0);
    let m = Model::<C> { d, we, re, wit: &wit, readers: &rd, _c: std::marker::PhantomData };
    // the model must agree with the honest execution, and the honest trace must be accepted
    let honest_broken = m.check(&rows);
    if !honest_broken.is_empty() {
        return vec![CaseResult::inconclusive(key, format!("row model disagrees with the honest execution: {:?}", honest_broken[0]))];
    }
    // C10 side of the same execution: a row program the builder accepted, run on satisfying inputs,
    // must be provable and verifiable (key `C10:npo:..`, imported by c10)
    let pow2 = rows.len().is_power_of_two();
    let idx_exposed = spec.gadgets.iter().any(|g| matches!(g, Gadget::Rows(rs) if rs.iter().any(|r| r.idx)));
    let c10_key = format!("C10:npo:{}:{}", spec.config, fnv(&serde_json::to_string(spec).unwrap_or_default()));
    match accepted(&traces) {
        Ok(true) => {}
        _ => {
            // C09 side: does upstream's lookup debugger see an unbalanced witness bus on this honest run?
            let c09_key = format!("C09:npo:{}:{}", spec.config, fnv(&serde_json::to_string(spec).unwrap_or_default()));
            // the verifier's own diagnosis: a lookup / cumulative-sum error means the bus of this
            // honest execution does not balance
            let why = match guarded(|| <C::S as Setup>::prove(&kit.prover, &traces, &kit.cpd)) {
                Ok(Ok(proof)) => match guarded(|| <C::S as Setup>::verify(&kit.prover, &proof)) {
                    Ok(Ok(())) => "accepted-but-not-bound".to_string(),
                    Ok(Err(e)) => format!("verify: {e}"),
                    Err(p) => format!("verify panic: {}", panic_site(&p)),
                },
                Ok(Err(e)) => format!("prove: {e}"),
                Err(p) => format!("prove panic: {}", panic_site(&p)),
            };
            let busy = ["Lookup", "lookup", "Cumulative", "cumulative", "GlobalSum", "global"].iter().any(|k| why.contains(k));
            let c09 = if busy {
                CaseResult::violated(
                    c09_key,
                    format!("bus/npo-row-program/verifier-lookup-error/{}", spec.config),
                    detail0(json!({"class": "honest", "rows": rows.len(), "rows_power_of_two": pow2, "index_exposed": idx_exposed, "error": why.chars().take(200).collect::<String>()})),
                )
            } else {
                CaseResult::inconclusive(c09_key, format!("honest row program unprovable for a reason that is not a lookup error: {}", why.chars().take(80).collect::<String>()))
            };
            return vec![
                c09,
                CaseResult::inconclusive(key, "honest trace not proven/accepted (reported under C10)"),
                CaseResult::violated(c10_key, format!("npo-row-program/honest-unprovable/{}", spec.config), detail0(json!({"class": "honest", "rows": rows.len(), "rows_power_of_two": pow2, "index_exposed": idx_exposed}))),
            ];
        }
    }
    let mut out = vec![
        CaseResult::held(format!("{key}|honest"), false).count("npo/honest-accepted", 1).count(format!("npo/rows/{}", rows.len().min(12)), 1),
        CaseResult::held(format!("C09:npo:{}:{}", spec.config, fnv(&serde_json::to_string(spec).unwrap_or_default())), true)
            .count("npo-row-program/bus-balanced-honest-proof-accepted", 1)
            .count(format!("npo-row-program/index-accumulator-exposed/{idx_exposed}"), 1),
        CaseResult::held(c10_key, true)
            .count("npo-row-program/honest-proved", 1)
            .count(format!("npo-row-program/table-rows-power-of-two/{pow2}"), 1)
            .count(format!("npo-row-program/index-accumulator-exposed/{idx_exposed}"), 1),
    ];
    if honest_only() {
        return out;
    }
    // which rows have a private (free) sibling: Merkle rows whose sibling half is not CTL-loaded
    let free_sib = |r: &Row| r.mk && !(re..2 * re).any(|i| r.in_ctl[i]);
    // enumerate forgeries
    #[derive(Clone)]
    struct F {
        class: &'static str,
        row: usize,
        p: usize,
        carried: bool,
    }
    let mut fs: Vec<F> = vec![];
    for k in 0..rows.len() {
        for p in 0..we {
            let class = match m.kind(&rows, k, p).0 {
                "chain" => "chain-limb",
                "ctl" => "ctl-limb",
                "zero" => "zero-limb",
                _ => continue,
            };
            fs.push(F { class, row: k, p, carried: false });
            fs.push(F { class, row: k, p, carried: true });
        }
        if rows[k].mk {
            fs.push(F { class: "bit-flip", row: k, p: 0, carried: true });
        }
    }
    // sample: one of each (class, carried, row kind) first, then random
    let mut seen = std::collections::BTreeSet::new();
    let mut chosen: Vec<F> = vec![];
    let mut order: Vec<usize> = (0..fs.len()).collect();
    for i in (1..order.len()).rev() {
        order.swap(i, rng.random_range(0..=i));
    }
    for &i in &order {
        let f = &fs[i];
        let rk = row_kind(&rows[f.row], free_sib(&rows[f.row]));
        if seen.insert((f.class, f.carried, rk)) {
            chosen.push(f.clone());
        }
    }
    for &i in &order {
        if chosen.len() >= max_forgeries {
            break;
        }
        chosen.push(fs[i].clone());
    }
    chosen.truncate(max_forgeries.max(1));
    if let Some(o) = only {
        chosen = vec![F {
            class: match o["class"].as_str().unwrap_or("") {
                "chain-limb" => "chain-limb",
                "ctl-limb" => "ctl-limb",
                "zero-limb" => "zero-limb",
                _ => "bit-flip",
            },
            row: o["row"].as_u64().unwrap_or(0) as usize,
            p: o["limb"].as_u64().unwrap_or(0) as usize,
            carried: o["carried"].as_bool().unwrap_or(false),
        }];
    }
    for f in chosen {
        let mut fr = rows.clone();
        let rk = row_kind(&rows[f.row], free_sib(&rows[f.row]));
        let coeff = rng.random_range(0..d);
        let delta = 1 + rng.random::<u64>() % (<C::S as Setup>::order() - 1);
        if f.class == "bit-flip" {
            fr[f.row].bit = !fr[f.row].bit;
            for i in 0..re {
                for c in 0..d {
                    fr[f.row].inputs.swap(i * d + c, (re + i) * d + c);
                }
            }
        } else {
            let x = &mut fr[f.row].inputs[f.p * d + coeff];
            *x = (*x + delta) % <C::S as Setup>::order();
        }
        if f.carried {
            m.carry(&mut fr, f.row);
        }
        let broken = m.check(&fr);
        let fj = json!({"class": f.class, "row": f.row, "limb": f.p, "coeff": coeff, "delta": delta, "carried": f.carried, "row_kind": rk,
                        "model_broken": broken.iter().map(|b| format!("row{}:{}", b.row, b.what)).collect::<Vec<_>>()});
        let class = format!("{}{}", f.class, if f.carried && f.class != "bit-flip" { "-carried" } else { "" });
        let ckey = format!("{key}|{class}|r{}|p{}", f.row, f.p);
        // bit-flip: the model has no relation for the bit itself (it is an input of the row's
        // function: the direction witness the circuit names) -> labelled unsatisfying by definition
        let unsat = !broken.is_empty() || f.class == "bit-flip";
        if !unsat {
            out.push(CaseResult::held(ckey, false).count(format!("npo/forgery-still-satisfying/{class}"), 1));
            continue;
        }
        let mut ft = traces.clone();
        if !write_rows::<C>(&mut ft, &fr) {
            out.push(CaseResult::inconclusive(ckey, "could not write the forged rows back"));
            continue;
        }
        match accepted(&ft) {
            Ok(false) => out.push(
                CaseResult::held(format!("npo|{class}|{rk}|{}", spec.config), true)
                    .count(format!("npo/rejected/{class}/{rk}"), 1)
                    .count("npo/forged-proofs", 1),
            ),
            Ok(true) => {
                // signature: (relation that was broken, row family, configuration); left/right and the
                // sibling source stay in the case key and the detail
                let family = if rk.starts_with("merkle") { "merkle" } else { rk.as_str() };
                out.push(CaseResult::violated(
                    format!("npo|{class}|{rk}|{}", spec.config),
                    format!("accepted-forged/npo/{}/{family}/{}", f.class, spec.config),
                    detail0(fj),
                ))
            }
            Err(e) => out.push(CaseResult::inconclusive(ckey, e)),
        }
    }
    out
}

fn honest_only() -> bool {
    static V: std::sync::OnceLock<bool> = std::sync::OnceLock::new();
    *V.get_or_init(|| {
        let a: Vec<String> = std::env::args().collect();
        a.windows(2).any(|w| w[0] == "--emit" && (w[1] == "C10" || w[1] == "C09")) || a.iter().any(|x| x == "--honest-only")
    })
}

fn commitment_json_of<C: Cfg>(kit: &ProveKit<SCOf<C>>) -> String {
    p3r_verif::fields::commitment_json(kit.cpd.common_data())
}

fn case<C: Cfg>(seed: u64, idx: usize, tier: Tier) -> Vec<CaseResult> {
    let mut rng = case_rng(seed, "c04npo", idx as u64);
    let spec = gen_spec::<C>(&mut rng);
    one_spec::<C>(&spec, &mut rng, &format!("C04:npo:{idx}"), tier.pick(10, 24), None)
}

fn replay_one<C: Cfg>(d: &Value) -> Vec<CaseResult> {
    let spec: Spec = serde_json::from_value(d["spec"].clone()).expect("spec");
    let mut rng = case_rng(0, "c04npo-replay", 0);
    let mut rs = one_spec::<C>(&spec, &mut rng, "replay", 1, Some(&d["forgery"]));
    for r in rs.iter_mut() {
        r.key = format!("replay:{}", r.key);
    }
    rs
}

fn main() {
    let args = parse_args();
    install_quiet_panic_hook();
    let emit = args.extra.get("emit").cloned();
    if let Some(p) = &args.replay {
        let mut rep = Report::new("C04NPO", "fault_enumeration", &args, "replay of one forged permutation-row trace");
        let v: Value = serde_json::from_str(&std::fs::read_to_string(p).expect("replay file")).expect("json");
        let d = v["detail"].clone();
        let name = d["config"].as_str().expect("config").to_string();
        let rs = with_cfg!(name.as_str(), replay_one, &d);
        for r in &rs {
            println!("replay {}: {}", r.key, case_to_json(r)["verdict"]);
        }
        rep.add_all(rs);
        rep.finish(0);
    }
    let n: usize = args.extra.get("n").and_then(|s| s.parse().ok()).unwrap_or(args.tier.pick(480, 9000));
    let from: usize = args.extra.get("from").and_then(|s| s.parse().ok()).unwrap_or(0);
    let (seed, tier) = (args.seed, args.tier);
    let mut results = run_cases(n, args.threads, |i| {
        let i = i + from;
        let name = NPO_CONFIGS[i % NPO_CONFIGS.len()];
        with_cfg!(name, case, seed, i, tier)
    });
    // Sanitizer layer (thorough tier, or `--memcheck <shards>`): the same workload — key generation,
    // Poseidon trace generation (MaybeUninit rows, `assume_init`), column-struct transmutes of the
    // ALU / recompose AIRs, `transmute_traces`, proving and verifying honest and forged traces — is
    // replayed by this release binary under valgrind memcheck in single-threaded shards. A memcheck
    // report (invalid read / write, use of an uninitialised value) fails the check.
    let shards: usize = args.extra.get("memcheck").and_then(|s| s.parse().ok()).unwrap_or(if args.extra.contains_key("memcheck-child") { 0 } else { args.tier.pick(0, 16) });
    if shards > 0 {
        let exe = std::env::current_exe().unwrap();
        let outs: Vec<(usize, Result<std::process::Output, String>)> = std::thread::scope(|sc| {
            let hs: Vec<_> = (0..shards)
                .map(|k| {
                    let exe = exe.clone();
                    sc.spawn(move || {
                        let r = std::process::Command::new("valgrind")
                            .args(["-q", "--error-exitcode=97"])
                            .arg(&exe)
                            .args(["--memcheck-child", "1", "--tier", "quick", "--seed", &seed.to_string(), "--n", "2", "--threads", "1", "--from", &(1_000_000 + 2 * k).to_string()])
                            .output()
                            .map_err(|e| format!("spawn valgrind: {e}"));
                        (k, r)
                    })
                })
                .collect();
            hs.into_iter().map(|h| h.join().unwrap()).collect()
        });
        for (k, r) in outs {
            let key = format!("C04:npo:memcheck:shard{k}");
            match r {
                Ok(o) if o.status.success() => {
                    let out = String::from_utf8_lossy(&o.stdout);
                    let evals = out.lines().find(|l| l.starts_with("[C04NPO]")).unwrap_or("").to_string();
                    results.push(CaseResult::held(key, true).count("npo/memcheck-shards-clean", 1).with_sample(json!({"memcheck_shard": k, "child": evals})));
                }
                Ok(o) if o.status.code() == Some(97) => {
                    let err = String::from_utf8_lossy(&o.stderr);
                    let first: Vec<&str> = err.lines().filter(|l| l.starts_with("==")).take(30).collect();
                    let site = err.lines().find(|l| l.contains("p3_circuit") || l.contains("p3_recursion") || l.contains("poseidon")).unwrap_or("").trim().to_string();
                    results.push(CaseResult::violated(key, "sanitizer/memcheck-error/npo-prove-path", json!({"stream": "npo", "shard": k, "first_in_repo_frame": site, "report": first})));
                }
                Ok(o) => results.push(CaseResult::inconclusive(key, format!("valgrind child exited with {:?}", o.status.code()))),
                Err(e) => results.push(CaseResult::inconclusive(key, e)),
            }
        }
    }
    if args.extra.contains_key("memcheck-child") {
        // only the sanitizer's verdict (its exit code 97) matters for this run
        let held = results.iter().filter(|r| matches!(r.verdict, Verdict::Held)).count();
        println!("[C04NPO] memcheck child: cases={} held={held}", results.len());
        std::process::exit(0);
    }
    if emit.is_some() {
        use std::io::Write;
        let out = std::io::stdout();
        let mut o = out.lock();
        let prefix = match emit.as_deref() {
            Some("C10") => "C10:",
            Some("C09") => "C09:",
            _ => "",
        };
        for r in results.iter().filter(|r| if prefix.is_empty() { !r.key.starts_with("C10:") && !r.key.starts_with("C09:") } else { r.key.starts_with(prefix) }) {
            let _ = writeln!(o, "R {}", case_to_json(r));
        }
        let _ = o.flush();
        std::process::exit(0);
    }
    let mut rep = Report::new(
        "C04NPO",
        "fault_enumeration",
        &args,
        "case = (row program over Poseidon permutation rows, forgery of the recorded rows: class x row x limb); non-trivial = \
         the independent row model labels the forged trace unsatisfying; distinct by (class, row kind, configuration)",
    );
    rep.assume("the plain permutation of the configuration (p3-poseidon2 / p3-poseidon1 with the repository's default constants) is the reference row function");
    rep.add_all(results);
    rep.finish(20);
}
