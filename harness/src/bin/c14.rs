//! C14 — proof data is packed in allocation order and every input matters.
//!
//! (a) lengths of the packed public / private vectors = `Circuit::public_flat_len` /
//!     `private_flat_len`;
//! (b) every allocated target of the proof-target structures (located by hand-written walkers over
//!     (targets structure, serialized native proof) that do not use `Recursive::new/get_values`)
//!     holds the proof element it is meant to carry: statically (the packed vector at the input
//!     position wired to the target's witness slot) and dynamically (witness trace of an honest run);
//! (c) exhaustive sweep over packed positions: only position i is perturbed (to the value the
//!     natively altered proof element would have); if the native verifier rejects the altered proof,
//!     the circuit must reject the perturbed input vector.

#[path = "c01/kit.rs"]
mod kit;

use std::collections::HashMap;
use std::sync::Arc;

use kit::json::{self as js, Path};
use kit::{CircV, Shape};
use p3r_verif::util::*;
use serde_json::{Value, json};

const CHUNK: usize = 192;

#[derive(Clone, Debug)]
struct Loc {
    path: Path,
    ext: bool,
}

/// Expected coefficients (canonical) of the proof element at `loc`; lifted elements are [v,0,..].
fn expected(shape: &dyn Shape, b: &Value, loc: &Loc, d: usize) -> Option<Vec<u64>> {
    if loc.ext {
        let reprs = js::coeffs_under(b, &loc.path)?;
        if reprs.len() != d {
            return None;
        }
        reprs.iter().map(|r| shape.canon(*r)).collect()
    } else {
        let r = js::get(b, &loc.path)?.as_u64()?;
        let mut v = vec![0u64; d];
        v[0] = shape.canon(r)?;
        Some(v)
    }
}

struct Layout {
    pubs: Vec<Vec<u64>>,
    privs: Vec<Vec<u64>>,
    pub_loc: Vec<Option<Loc>>,
    priv_loc: Vec<Option<Loc>>,
}

/// (a) + (b) for one shape. Returns the layout for the sweep and the case results.
fn analyse(shape: &dyn Shape, h: &Value) -> (Option<Layout>, Vec<CaseResult>) {
    let name = shape.name();
    let kind = shape.kind();
    let mut out = vec![];
    let inconclusive = |why: String| (None, vec![CaseResult::inconclusive(format!("{name}:layout"), why)]);
    let ctx = match shape.ctx() {
        Ok(c) => c,
        Err(e) => return inconclusive(format!("context: {e}")),
    };
    let compiled = match ctx.compile(h) {
        Ok(Ok(c)) => c,
        Ok(Err(v)) => return inconclusive(format!("honest compile: {}", v.label())),
        Err(e) => return inconclusive(e),
    };
    let (pubs, privs) = match compiled.pack(h) {
        Ok(x) => x,
        Err(e) => return inconclusive(format!("pack: {e}")),
    };
    // (a)
    let (pl, vl) = compiled.flat_lens();
    for (which, got, want) in [("public", pubs.len(), pl), ("private", privs.len(), vl)] {
        if got != want {
            out.push(CaseResult::violated(
                format!("{name}:len:{which}"),
                format!("length-mismatch/{kind}/{which}"),
                json!({"shape": name, "what": "length", "which": which, "packed": got, "circuit_flat_len": want}),
            ));
        } else {
            out.push(CaseResult::held(format!("{name}:len:{which}"), got > 0).count("length-checks", 1));
        }
    }
    if pubs.len() != pl || privs.len() != vl {
        return (None, out);
    }
    let d = pubs.first().or(privs.first()).map(|v| v.len()).unwrap_or(1);
    // (b) static
    let entries = match compiled.entries() {
        Ok(e) => e,
        Err(e) => {
            out.push(CaseResult::inconclusive(format!("{name}:walker"), e));
            return (None, out);
        }
    };
    let pub_rows = compiled.public_rows();
    let priv_rows = compiled.private_rows();
    if pub_rows.len() != pubs.len() || priv_rows.len() != privs.len() {
        out.push(CaseResult::violated(
            format!("{name}:rows"),
            format!("length-mismatch/{kind}/input-rows"),
            json!({"shape": name, "what": "rows", "public_rows": pub_rows.len(), "public": pubs.len(),
                "private_rows": priv_rows.len(), "private": privs.len()}),
        ));
        return (None, out);
    }
    let mut by_w_pub: HashMap<u32, Vec<usize>> = HashMap::new();
    for (i, w) in pub_rows.iter().enumerate() {
        by_w_pub.entry(*w).or_default().push(i);
    }
    let mut by_w_priv: HashMap<u32, Vec<usize>> = HashMap::new();
    for (i, w) in priv_rows.iter().enumerate() {
        by_w_priv.entry(*w).or_default().push(i);
    }
    let mut pub_loc: Vec<Option<Loc>> = vec![None; pubs.len()];
    let mut priv_loc: Vec<Option<Loc>> = vec![None; privs.len()];
    let mut read = vec![];
    let mut read_expect: Vec<(Path, Vec<u64>)> = vec![];
    let mut aliased = 0u64;
    for e in &entries {
        let class = js::path_class(&e.path);
        let key = format!("{name}:target:{}", js::path_str(&e.path));
        let loc = Loc { path: e.path.clone(), ext: e.ext };
        let Some(exp) = expected(shape, h, &loc, d) else {
            out.push(CaseResult::inconclusive(key, format!("walker: no proof element at {class}")));
            continue;
        };
        let Some(w) = compiled.widx(e.target) else {
            out.push(CaseResult::violated(
                key,
                format!("misplaced/{class}"),
                json!({"shape": name, "what": "target", "path": js::path_str(&e.path), "why": "target has no witness slot"}),
            ));
            continue;
        };
        let (by_w, locs, packed) =
            if e.public { (&by_w_pub, &mut pub_loc, &pubs) } else { (&by_w_priv, &mut priv_loc, &privs) };
        let positions = by_w.get(&w).cloned().unwrap_or_default();
        if positions.len() > 1 {
            aliased += 1;
        }
        let Some(pos) = positions.iter().copied().find(|p| locs[*p].is_none()) else {
            out.push(CaseResult::violated(
                key,
                format!("misplaced/{class}"),
                json!({"shape": name, "what": "target", "path": js::path_str(&e.path),
                    "why": "the target's witness slot is not fed by any (free) input position of its kind",
                    "public": e.public, "widx": w}),
            ));
            continue;
        };
        locs[pos] = Some(loc);
        if packed[pos] != exp {
            out.push(CaseResult::violated(
                key,
                format!("misplaced/{class}"),
                json!({"shape": name, "what": "target", "path": js::path_str(&e.path), "position": pos, "public": e.public,
                    "packed_value": packed[pos], "proof_element": exp,
                    "why": "the packed vector carries another value at the input position wired to this target"}),
            ));
        } else {
            out.push(CaseResult::held(key, true).count("targets-placed-correctly(static)", 1));
        }
        read.push(w);
        read_expect.push((e.path.clone(), exp));
    }
    // trailing public positions: the common-data commitment (its targets are crate-private)
    if let Some(cp) = compiled.tail_commit() {
        let free: Vec<usize> = (0..pubs.len()).filter(|i| pub_loc[*i].is_none()).collect();
        let leaves: Vec<Path> = js::get(h, &cp)
            .map(|n| {
                js::numeric_leaves(n)
                    .into_iter()
                    .map(|l| {
                        let mut p = cp.clone();
                        p.extend(l);
                        p
                    })
                    .collect()
            })
            .unwrap_or_default();
        if free.len() == leaves.len() {
            for (pos, lp) in free.iter().zip(leaves.iter()) {
                let loc = Loc { path: lp.clone(), ext: false };
                let class = js::path_class(lp);
                let key = format!("{name}:target:{}", js::path_str(lp));
                match expected(shape, h, &loc, d) {
                    Some(exp) if pubs[*pos] == exp => {
                        out.push(CaseResult::held(key, true).count("targets-placed-correctly(static)", 1));
                    }
                    Some(exp) => out.push(CaseResult::violated(
                        key,
                        format!("misplaced/{class}"),
                        json!({"shape": name, "what": "target", "path": js::path_str(lp), "position": pos,
                            "packed_value": pubs[*pos], "proof_element": exp}),
                    )),
                    None => out.push(CaseResult::inconclusive(key, "no common commitment leaf")),
                }
                pub_loc[*pos] = Some(loc);
            }
        } else {
            out.push(CaseResult::inconclusive(
                format!("{name}:tail"),
                format!("{} unlocated public positions vs {} common-commitment words", free.len(), leaves.len()),
            ));
        }
    }
    let unloc = pub_loc.iter().filter(|l| l.is_none()).count() + priv_loc.iter().filter(|l| l.is_none()).count();
    if unloc > 0 {
        out.push(CaseResult::inconclusive(
            format!("{name}:unlocated"),
            format!("{unloc} input positions not claimed by any walker entry"),
        ));
    }
    // (b) dynamic: honest run, read every target's slot
    match compiled.run_packed(h, &pubs, &privs, &read) {
        Err(e) => out.push(CaseResult::inconclusive(format!("{name}:honest-run"), e)),
        Ok(ro) => {
            if !ro.verdict.accepts() {
                out.push(CaseResult::violated(
                    format!("{name}:honest-run"),
                    format!("misplaced/{kind}/honest-run-rejected"),
                    json!({"shape": name, "what": "honest-run", "circuit": ro.verdict.label()}),
                ));
            } else {
                for ((path, exp), got) in read_expect.iter().zip(ro.slots.iter()) {
                    let key = format!("{name}:slot:{}", js::path_str(path));
                    if got.as_ref() == Some(exp) {
                        out.push(CaseResult::held(key, true).count("targets-hold-proof-element(witness trace)", 1));
                    } else {
                        out.push(CaseResult::violated(
                            key,
                            format!("misplaced/{}", js::path_class(path)),
                            json!({"shape": name, "what": "slot", "path": js::path_str(path), "held": got, "proof_element": exp}),
                        ));
                    }
                }
            }
        }
    }
    out.push(
        CaseResult::held(format!("{name}:layout"), false)
            .count("walker-entries", entries.len() as u64)
            .count("aliased-input-slots", aliased)
            .count("public-positions", pubs.len() as u64)
            .count("private-positions", privs.len() as u64)
            .with_sample(json!({"shape": name, "public_len": pubs.len(), "private_len": privs.len(),
                "walker_entries": entries.len()})),
    );
    (Some(Layout { pubs, privs, pub_loc, priv_loc }), out)
}

/// (c) for one position. `public` selects the vector.
fn sweep_one(
    shape: &dyn Shape,
    ctx: &dyn kit::Ctx,
    compiled: &dyn kit::Compiled,
    h: &Value,
    lay: &Layout,
    public: bool,
    pos: usize,
    rnd: Option<u64>,
) -> CaseResult {
    let name = shape.name();
    let kind = shape.kind();
    let which = if public { "public" } else { "private" };
    let key = format!("{name}:{which}[{pos}]{}", if rnd.is_some() { ":rnd" } else { "" });
    let d = lay.pubs.first().or(lay.privs.first()).map(|v| v.len()).unwrap_or(1);
    let loc = if public { &lay.pub_loc[pos] } else { &lay.priv_loc[pos] };
    let mut pubs = lay.pubs.clone();
    let mut privs = lay.privs.clone();
    let Some(loc) = loc else {
        // nothing to alter natively: perturb and record only
        let v = if public { &mut pubs[pos] } else { &mut privs[pos] };
        v[0] = (v[0] + 1) % shape.order();
        return match compiled.run_packed(h, &pubs, &privs, &[]) {
            Ok(ro) => CaseResult::inconclusive(key, "unlocated position")
                .count(if ro.verdict.accepts() { "unlocated-perturbation-accepted" } else { "unlocated-perturbation-rejected" }, 1),
            Err(e) => CaseResult::inconclusive(key, e),
        };
    };
    let class = js::path_class(&loc.path);
    let leaf = if loc.ext { js::first_leaf_under(h, &loc.path) } else { Some(loc.path.clone()) };
    let Some(leaf) = leaf else { return CaseResult::inconclusive(key, "no leaf") };
    let Some(old) = js::get(h, &leaf).and_then(|v| v.as_u64()) else {
        return CaseResult::inconclusive(key, "non-u64 leaf");
    };
    let new = match rnd {
        Some(r) if r % shape.order() != old => r % shape.order(),
        _ => {
            if old + 1 >= shape.order() {
                0
            } else {
                old + 1
            }
        }
    };
    let mut m = h.clone();
    js::set(&mut m, &leaf, Value::from(new));
    let Some(newval) = expected(shape, &m, loc, d) else { return CaseResult::inconclusive(key, "mutant element") };
    if public {
        pubs[pos] = newval.clone();
    } else {
        privs[pos] = newval.clone();
    }
    let n = match ctx.native(&m) {
        Ok(n) => n,
        Err(_) => return CaseResult::held(key, false).count("undeserializable-mutant", 1),
    };
    let c = match compiled.run_packed(h, &pubs, &privs, &[]) {
        Ok(ro) => ro.verdict,
        Err(e) => return CaseResult::inconclusive(key, e),
    };
    if !n.accepts() && c.accepts() {
        return CaseResult::violated(
            key,
            format!("unconstrained-input/{class}"),
            json!({"shape": name, "what": "position", "public": public, "position": pos, "path": js::path_str(&loc.path),
                "leaf": js::path_str(&leaf), "old": old, "new": new, "native": n.label(), "circuit": c.label()}),
        );
    }
    let mut r = CaseResult::held(key, !n.accepts()).count(format!("positions-swept/{kind}/{which}"), 1);
    r = match (n.accepts(), c.accepts()) {
        (false, false) => r.count("native-rejects&circuit-rejects", 1),
        (true, true) => r.count(format!("native-accepts&circuit-accepts/{class}"), 1),
        (true, false) => r.count(format!("native-accepts&circuit-rejects/{class}"), 1),
        _ => r,
    };
    if let CircV::Panic { entry, msg } = &c {
        r = r.count(format!("circuit-panic/{entry}/{}", kit::norm_site(msg)), 1);
    }
    r
}

struct Job {
    shape: usize,
    public: bool,
    lo: usize,
    hi: usize,
}

fn run_job(
    shapes: &[Box<dyn Shape>],
    honest: &[Option<Arc<Value>>],
    lays: &[Option<Layout>],
    job: &Job,
    seed: u64,
    thorough: bool,
) -> Vec<CaseResult> {
    use rand::RngExt;
    let shape = &shapes[job.shape];
    let name = shape.name();
    let (Some(h), Some(lay)) = (&honest[job.shape], &lays[job.shape]) else { return vec![] };
    let ctx = match shape.ctx() {
        Ok(c) => c,
        Err(e) => return vec![CaseResult::inconclusive(format!("{name}:ctx"), e)],
    };
    let compiled = match ctx.compile(h) {
        Ok(Ok(c)) => c,
        Ok(Err(v)) => return vec![CaseResult::inconclusive(format!("{name}:compile"), v.label())],
        Err(e) => return vec![CaseResult::inconclusive(format!("{name}:compile"), e)],
    };
    let mut out = vec![];
    for pos in job.lo..job.hi {
        out.push(sweep_one(shape.as_ref(), ctx.as_ref(), compiled.as_ref(), h, lay, job.public, pos, None));
        if thorough {
            let mut rng = case_rng(seed, &format!("{name}:{}", job.public), pos as u64);
            let r: u64 = rng.random();
            out.push(sweep_one(shape.as_ref(), ctx.as_ref(), compiled.as_ref(), h, lay, job.public, pos, Some(r)));
        }
    }
    out
}

fn replay(path: &std::path::Path) -> Vec<CaseResult> {
    let v: Value = serde_json::from_str(&std::fs::read_to_string(path).expect("replay file")).expect("json");
    let d = &v["detail"];
    let name = d["shape"].as_str().unwrap_or("").to_string();
    let Some(shape) = kit::shape_by_name(&name) else {
        return vec![CaseResult::inconclusive("replay", format!("unknown shape {name}"))];
    };
    let h = match shape.honest() {
        Ok(h) => h,
        Err(e) => return vec![CaseResult::inconclusive("replay", e)],
    };
    let (lay, results) = analyse(shape.as_ref(), &h);
    match d["what"].as_str() {
        Some("position") => {
            let Some(lay) = lay else { return results };
            let ctx = shape.ctx().expect("ctx");
            let compiled = match ctx.compile(&h) {
                Ok(Ok(c)) => c,
                _ => return vec![CaseResult::inconclusive("replay", "compile")],
            };
            let public = d["public"].as_bool().unwrap_or(true);
            let pos = d["position"].as_u64().unwrap_or(0) as usize;
            vec![sweep_one(shape.as_ref(), ctx.as_ref(), compiled.as_ref(), &h, &lay, public, pos, None)]
        }
        // layout findings are a function of the shape: re-run (a)+(b) and keep the violations
        _ => {
            let sig = v["signature"].as_str().unwrap_or("").to_string();
            let hits: Vec<CaseResult> = results
                .into_iter()
                .filter(|r| matches!(&r.verdict, Verdict::Violated { signature, .. } if *signature == sig))
                .take(1)
                .collect();
            if hits.is_empty() { vec![CaseResult::held("replay", true)] } else { hits }
        }
    }
}

fn main() {
    let args = parse_args();
    let mut rep = Report::new(
        "C14",
        "fault_enumeration",
        &args,
        "case = (proof shape, allocated target) for placement and (proof shape, position of the packed public/private \
         vector) for the perturbation sweep; a sweep case is non-trivial when the native verifier rejects the \
         correspondingly altered proof (so the circuit verdict is constrained); distinct by (shape, target path | position)",
    );
    rep.assume("hand-written walkers pair each target with the serialized proof element it is meant to carry");
    rep.assume("the common-data commitment targets are crate-private: located as the public positions no other target claims");
    rep.assume("native Plonky3 verifiers are the reference for 'the verifier's decision depends on this element'");
    if let Some(p) = &args.replay {
        let rs = replay(p);
        rep.add_all(rs);
        rep.finish(0);
    }
    let thorough = args.tier == Tier::Thorough;
    let mut shapes = kit::all_shapes(thorough);
    if let Some(f) = args.extra.get("shape") {
        shapes.retain(|s| s.name().contains(f.as_str()));
    }
    let mut honest = vec![];
    let mut lays = vec![];
    let mut jobs = vec![];
    let mut complete = true;
    for (si, s) in shapes.iter().enumerate() {
        rep.observe("shapes", s.name());
        let h = match s.honest() {
            Ok(h) => h,
            Err(e) => {
                rep.add(CaseResult::inconclusive(format!("{}:honest", s.name()), e));
                honest.push(None);
                lays.push(None);
                complete = false;
                continue;
            }
        };
        // next-layer path with a verifying key that is not the proof's own common data: the
        // commitment the relying party holds must be the one that ends up on the circuit inputs
        if let Ok(ctx) = s.ctx() {
            if let Ok(list) = ctx.foreign_key_probe(&h) {
                for (ep, v) in list {
                    let key = format!("{}:{ep}", s.name());
                    if !ep.contains("+run") {
                        continue;
                    }
                    rep.add(match v {
                        kit::CircV::Accept => CaseResult::violated(
                            key,
                            "unconstrained/next-layer/verifying-key-commitment-not-the-callers",
                            json!({"shape": s.name(), "entry_point": ep, "what": "honest proof + a verifying key differing in one commitment word: built, packed by the backend and run => accepted"}),
                        ),
                        other => CaseResult::held(key, true).count("foreign-verifying-key-rejected", 1).count(format!("foreign-verifying-key-rejected/{}", other.label().split(':').next().unwrap_or("")), 1),
                    });
                }
            }
        }
        let (lay, rs) = analyse(s.as_ref(), &h);
        if rs.iter().any(|r| matches!(r.verdict, Verdict::Inconclusive(_))) {
            complete = false;
        }
        rep.add_all(rs);
        if let Some(l) = &lay {
            for (public, n) in [(true, l.pubs.len()), (false, l.privs.len())] {
                let mut lo = 0;
                while lo < n {
                    jobs.push(Job { shape: si, public, lo, hi: (lo + CHUNK).min(n) });
                    lo += CHUNK;
                }
            }
        } else {
            complete = false;
        }
        honest.push(Some(Arc::new(h)));
        lays.push(lay);
    }
    let seed = args.seed;
    let results = run_cases(jobs.len(), args.threads, |i| run_job(&shapes, &honest, &lays, &jobs[i], seed, thorough));
    if results.iter().any(|r| matches!(r.verdict, Verdict::Inconclusive(_))) {
        complete = false;
    }
    rep.add_all(results);
    rep.set_exhaustive(complete && !args.extra.contains_key("shape"));
    rep.finish(args.tier.pick(3_000, 20_000));
}
