//! C03 — compilation never drops an asserted relation.
//!
//! Monitor: the emitted op list is judged on its own (O2). An adversarial completion gives
//! every slot that no op relation forces a prover-chosen value; if the resulting assignment
//! satisfies every op relation, every relation of the source program must hold on it too
//! (evaluated locally through `expr_to_widx`). A counter-example is then confirmed end-to-end
//! by proving a trace assembled from the assignment and showing it to the verifier.

use p3_circuit::tables::Traces;
use p3_circuit::{CircuitError, Op};
use p3_circuit_prover::{ConstraintProfile, TablePacking};
use p3r_verif::fields::*;
use p3r_verif::opsem::{Adversary, adversarial_complete, check_ops, ops_text};
use p3r_verif::pgen::{GenOpts, gen_prog, perturb};
use p3r_verif::prog::{Built, Prog, build, check_source_on_slots, eval, shrink};
use p3r_verif::util::*;
use rand::RngExt;
use rand::rngs::SmallRng;
use serde_json::{Value, json};

fn detail<S: Setup>(prog: &Prog, publics: &[S::E], privates: &[S::E], built: &Built<S>, extra: Value) -> Value {
    json!({
        "setup": S::NAME,
        "prog": prog,
        "publics": publics.iter().map(|p| S::coeffs(p)).collect::<Vec<_>>(),
        "privates": privates.iter().map(|p| S::coeffs(p)).collect::<Vec<_>>(),
        "ops": ops_text(&built.circuit),
        "extra": extra,
    })
}

/// Assemble traces from an arbitrary full assignment `w` (ALU/Const/Public only) and ask the
/// real prover + verifier. Returns Some(true) if the verifier accepts.
fn confirm<S: Setup>(built: &Built<S>, w: &[S::E], publics: &[S::E]) -> Option<bool> {
    use p3_circuit::tables::{AluTrace, ConstTrace, PublicTrace, WitnessTrace};
    if built
        .circuit
        .ops
        .iter()
        .any(|op| matches!(op, Op::NonPrimitiveOpWithExecutor { .. }))
    {
        return None;
    }
    // Start from an honest run on *some* accepted input to get correctly shaped traces, then
    // overwrite every value from `w`.
    let c = &built.circuit;
    let g = |id: p3_circuit::WitnessId| w[id.0 as usize];
    let mut const_idx = vec![];
    let mut const_vals = vec![];
    let mut pub_idx = vec![];
    let mut pub_vals = vec![];
    let mut alu = AluTrace::<S::E> {
        op_kind: vec![],
        values: vec![],
        indices: vec![],
    };
    for op in &c.ops {
        match op {
            Op::Const { out, val } => {
                const_idx.push(*out);
                const_vals.push(*val);
            }
            Op::Public { out, public_pos } => {
                pub_idx.push(*out);
                pub_vals.push(publics[*public_pos]);
            }
            Op::Alu {
                kind,
                a,
                b,
                c: cc,
                out,
                ..
            } => {
                let cid = cc.unwrap_or(p3_circuit::WitnessId(0));
                let cval = match kind {
                    p3_circuit::AluOpKind::MulAdd | p3_circuit::AluOpKind::HornerAcc => g(cid),
                    p3_circuit::AluOpKind::BoolCheck => g(*a),
                    _ => S::E::default(),
                };
                let bval = match kind {
                    p3_circuit::AluOpKind::BoolCheck => S::E::default(),
                    _ => g(*b),
                };
                alu.op_kind.push(*kind);
                alu.values.push([g(*a), bval, cval, g(*out)]);
                alu.indices.push([*a, *b, cid, *out]);
            }
            _ => {}
        }
    }
    if alu.op_kind.is_empty() {
        alu.op_kind.push(p3_circuit::AluOpKind::Add);
        alu.values.push([S::E::default(); 4]);
        alu.indices.push([p3_circuit::WitnessId(0); 4]);
    }
    let traces = Traces::<S::E> {
        witness_trace: WitnessTrace::new(w.to_vec()),
        const_trace: ConstTrace {
            index: const_idx,
            values: const_vals,
        },
        public_trace: PublicTrace {
            index: pub_idx,
            values: pub_vals,
        },
        alu_trace: alu,
        non_primitive_traces: Default::default(),
        tag_to_witness: Default::default(),
    };
    let packing = TablePacking::default();
    let r = guarded(|| -> Result<(), String> {
        let cpd = S::prep(c, &packing, ConstraintProfile::Standard)?;
        let prover = S::prover(packing.clone());
        let proof = S::prove(&prover, &traces, &cpd)?;
        S::verify(&prover, &proof)
    });
    Some(matches!(r, Ok(Ok(()))))
}

fn attempt<S: Setup>(
    prog: &Prog,
    built: &Built<S>,
    publics: &[S::E],
    privates: &[S::E],
    rng: &mut SmallRng,
    adv: Adversary,
) -> Result<Option<(Vec<S::E>, Vec<String>)>, String> {
    let Some(mut w) = adversarial_complete::<S>(&built.circuit, publics, privates, rng, adv)? else {
        return Ok(None);
    };
    // A fused product slot that no relation refers to is unobservable: the source statement is
    // existential in it (see DESIGN.md, C03 guards).
    p3r_verif::opsem::settle_dead_products(&built.circuit, &mut w);
    let slot = |v: usize| -> S::E {
        let e = built.var_expr[v];
        let wid = built.circuit.expr_to_widx[&e];
        w[wid.0 as usize]
    };
    let fails = check_source_on_slots::<S>(prog, &slot, publics);
    let kinds: Vec<String> = fails.iter().map(|r| r.kind.clone()).collect();
    Ok(Some((w, kinds)))
}

fn case<S: Setup>(seed: u64, idx: usize, tier: Tier) -> Vec<CaseResult> {
    let mut rng = case_rng(seed, "c03", idx as u64);
    let size = rng.random_range(3..tier.pick(36usize, 60usize));
    let opts = GenOpts {
        size,
        recompose_npo: S::D > 1 && rng.random_range(0..4u32) == 0,
        ..Default::default()
    };
    let g = gen_prog::<S>(&mut rng, &opts);
    let prog = &g.prog;
    let key_base = format!("{}:{}", S::NAME, fnv(&serde_json::to_string(&prog.stmts).unwrap()));
    let ev = eval::<S>(prog, &g.publics, &g.privates);
    if !ev.all_hold() || ev.div_zero {
        return vec![CaseResult::inconclusive(key_base, "generator produced a non-satisfying input")];
    }
    let built = match guarded(|| build::<S>(prog)) {
        Ok(Ok(b)) => b,
        Ok(Err(_)) => return vec![CaseResult::held(key_base, false).count("builder-rejected", 1)],
        Err(p) => return vec![CaseResult::inconclusive(key_base, format!("builder panic {}", panic_site(&p)))],
    };
    // missing slot mapping would make the local evaluation impossible
    if built.var_expr.iter().any(|e| !built.circuit.expr_to_widx.contains_key(e)) {
        return vec![CaseResult::inconclusive(key_base, "var without slot")];
    }
    let mut out = vec![];
    // Self-check of the oracle pair (O2 + source relations) on the honest-ish completion of the
    // satisfying input: it must satisfy ops and source. Otherwise the harness (or C02) is off.
    match attempt::<S>(prog, &built, &g.publics, &g.privates, &mut rng, Adversary::Honestish) {
        Err(e) => return vec![CaseResult::held(key_base, false).count(format!("o2-unsupported/{}", e.split(' ').next().unwrap_or("")), 1)],
        Ok(None) => {
            return vec![CaseResult::inconclusive(key_base, "honest completion of a satisfying input violates an op relation")];
        }
        Ok(Some((_, fails))) if !fails.is_empty() => {
            return vec![CaseResult::inconclusive(
                key_base,
                format!("honest completion violates source relation {}", fails[0]),
            )];
        }
        Ok(Some(_)) => {}
    }
    // Adversarial completions: from the satisfying input and from single-input perturbations.
    let n_attempts = 8;
    for k in 0..n_attempts {
        let (pu, pr, which) = if k < 2 {
            (g.publics.clone(), g.privates.clone(), "satisfying".to_string())
        } else {
            perturb::<S>(&mut rng, &g.publics, &g.privates)
        };
        let res = attempt::<S>(prog, &built, &pu, &pr, &mut rng, Adversary::Random);
        let key = format!("{key_base}:{k}:{which}");
        match res {
            Err(_) | Ok(None) => out.push(CaseResult::held(key, false).count("o2-rejected-assignment", 1)),
            Ok(Some((_, fails))) if fails.is_empty() => {
                out.push(CaseResult::held(key, true).count("o2-accepted-and-source-holds", 1))
            }
            Ok(Some((_w, fails))) => {
                let sig_kind = fails[0].clone();
                // shrink on "some adversarial completion accepted by O2 breaks this source relation"
                let pred = |p: &Prog, a: &[S::E], b: &[S::E]| -> bool {
                    let Ok(Ok(bt)) = guarded(|| build::<S>(p)) else { return false };
                    if bt.var_expr.iter().any(|e| !bt.circuit.expr_to_widx.contains_key(e)) {
                        return false;
                    }
                    let mut r2 = case_rng(1, "c03-shrink", 0);
                    (0..6).any(|_| {
                        matches!(attempt::<S>(p, &bt, a, b, &mut r2, Adversary::Random),
                            Ok(Some((_, f))) if f.first() == Some(&sig_kind))
                    })
                };
                let (p2, a2, b2) = shrink::<S>(prog, &pu, &pr, &pred);
                let bt = build::<S>(&p2).expect("shrunk program builds");
                let mut r2 = case_rng(1, "c03-shrink", 0);
                let mut found = None;
                for _ in 0..12 {
                    if let Ok(Some((w, f))) = attempt::<S>(&p2, &bt, &a2, &b2, &mut r2, Adversary::Random) {
                        if f.first() == Some(&sig_kind) {
                            found = Some((w, f));
                            break;
                        }
                    }
                }
                let (d, accepted) = match found {
                    Some((w, f)) => {
                        let acc = confirm::<S>(&bt, &w, &a2);
                        (
                            detail::<S>(&p2, &a2, &b2, &bt, json!({"failing_source_relations": f,
                                "assignment": w.iter().map(|x| S::coeffs(x)).collect::<Vec<_>>(),
                                "op_relations_all_hold": true,
                                "prove_verify_accepts_false_statement": acc, "input": which})),
                            acc,
                        )
                    }
                    None => (
                        detail::<S>(prog, &pu, &pr, &built, json!({"failing_source_relations": fails, "input": which})),
                        None,
                    ),
                };
                let _ = accepted;
                out.push(CaseResult::violated(key, format!("dropped-relation/{sig_kind}"), d));
            }
        }
    }
    if idx < 6 {
        if let Some(first) = out.first_mut() {
            first.sample = Some(json!({"setup": S::NAME, "prog": prog.stmts.iter().take(25).map(|s| format!("{s:?}")).collect::<Vec<_>>(),
                "ops": built.circuit.ops.len(), "attempts": n_attempts}));
        }
    }
    let _ = check_ops::<S>;
    let _: Option<CircuitError> = None;
    out
}

fn dispatch(i: usize, seed: u64, tier: Tier) -> Vec<CaseResult> {
    match i % 8 {
        0 => case::<BbD1>(seed, i, tier),
        1 => case::<BbD4>(seed, i, tier),
        2 => case::<KbD1>(seed, i, tier),
        3 => case::<KbD5>(seed, i, tier),
        4 => case::<GlD2>(seed, i, tier),
        5 => case::<KbD4>(seed, i, tier),
        6 => case::<GlD1>(seed, i, tier),
        _ => case::<KbD8>(seed, i, tier),
    }
}

fn main() {
    let args = parse_args();
    let mut rep = Report::new(
        "C03",
        "exploration",
        &args,
        "case = (generated program, input, adversarial completion of the op list); non-trivial = the \
         completion satisfies every emitted op relation (otherwise nothing is claimed); distinct by \
         (setup, program hash, attempt, perturbed input)",
    );
    rep.assume("O2 op-relation semantics as in DESIGN.md appendix A (intermediate_out and hint outputs unconstrained)");
    rep.assume("source relations evaluated locally through Circuit::expr_to_widx");
    let n = args.tier.pick(160_000usize, 3_000_000usize);
    let (seed, tier) = (args.seed, args.tier);
    let from: usize = args.extra.get("from").and_then(|s| s.parse().ok()).unwrap_or(0);
    let n = args.extra.get("to").and_then(|s| s.parse::<usize>().ok()).map(|t| t - from).unwrap_or(n);
    let rs = run_cases_isolated(n, args.threads, |i| dispatch(i + from, seed, tier));
    rep.add_all(rs);
    // second stream: library-built circuits (real verifier / challenger / FRI circuits) judged by
    // c02lib through the builder snapshot hook. Its syntactic "lib-carried" sub-oracle is not
    // imported: it is only a sufficient condition and could false-alarm on a legitimate new
    // optimisation (available for manual runs of c02lib).
    let lib = import_emitted("c02lib", "C03", &args, |r| !r.key.contains("libcarry"));
    rep.bump("library-circuit-cases", lib.len() as u64);
    rep.add_all(lib);
    rep.finish(args.tier.pick(10_000, 200_000));
}
