//! C12 — bit and coefficient decompositions admit only the canonical witness.
//!
//! Fault enumeration with deviating hint executors: circuits using `decompose_to_bits` and
//! `decompose_ext_to_base_coeffs` are run with the hint replaced (`Op::Hint { executor }` is a
//! public field of `Circuit::ops`) by one that emits an alternative decomposition satisfying the
//! recomposition identity (bits of x + k·p; one non-boolean bit compensating a flipped one; coefficients with mass moved between limbs / non-base
//! limbs). The resulting trace is proven with the honest prover data and verified. An accepted
//! proof containing a non-canonical decomposition refutes the property.
//! (The challenger gadgets `sample_bits` / `check_pow_witness` / `observe_ext` are exercised with
//! the same deviations by the C06 monitor.)

use p3_circuit::ops::HintExecutor;
use p3_circuit::{CircuitBuilder, CircuitError, Op, WitnessId};
use p3_circuit_prover::{ConstraintProfile, TablePacking};
use p3_field::{Field, PrimeCharacteristicRing};
use p3r_verif::fields::*;
use p3r_verif::pipeline::SETUP_NAMES;
use p3r_verif::prog::{basis_recompose, canonical_bits, is_base, limb_bits, recompose_bits};
use p3r_verif::util::*;
use p3r_verif::with_setup;
use rand::RngExt;
use serde_json::{Value, json};

/// Hint executor that writes prescribed values (checked for conflicts like the honest hints).
#[derive(Debug, Clone)]
struct Fixed<E: Field>(Vec<E>);
impl<E: Field> HintExecutor<E> for Fixed<E> {
    fn execute(&self, _inputs: &[WitnessId], outputs: &[WitnessId], w: &mut [Option<E>]) -> Result<(), CircuitError> {
        for (o, v) in outputs.iter().zip(self.0.iter()) {
            let slot = &mut w[o.0 as usize];
            match slot {
                Some(e) if *e != *v => {
                    return Err(CircuitError::WitnessConflict {
                        witness_id: *o,
                        existing: format!("{e:?}"),
                        new: format!("{v:?}"),
                        expr_ids: vec![],
                    });
                }
                Some(_) => {}
                None => *slot = Some(*v),
            }
        }
        Ok(())
    }
    fn boxed(&self) -> Box<dyn HintExecutor<E>> {
        Box::new(self.clone())
    }
}

fn value_classes<S: Setup>(rng: &mut rand::rngs::SmallRng) -> Vec<(&'static str, u64)> {
    let p = S::order();
    let w = limb_bits::<S>() as u32;
    let slack = if w == 64 { u64::MAX - p } else { (1u64 << w) - p }; // values x with x + p < 2^w: x <= slack-? (x + p <= 2^w - 1)
    vec![
        ("zero", 0),
        ("one", 1),
        ("two", 2),
        ("small", rng.random_range(3..1000)),
        ("below-slack", slack.saturating_sub(1).max(1) - rng.random_range(0..slack.saturating_sub(1).max(2).min(1000))),
        ("at-slack", slack),
        ("p-minus-1", p - 1),
        ("random", rng.random::<u64>() % p),
    ]
}

enum Outcome {
    NoAlternative,
    RunRejected(String),
    ProverRejected(String),
    VerifierRejected(String),
    Accepted,
}

fn prove_with_hint<S: Setup>(
    circuit: &mut p3_circuit::Circuit<S::E>,
    publics: &[S::E],
    alt: Vec<S::E>,
    recompose: bool,
    forge_boolcheck_rows: bool,
) -> Outcome {
    let packing = TablePacking::default();
    let cpd = match guarded(|| S::prep_x(circuit, &packing, ConstraintProfile::Standard, recompose)) {
        Ok(Ok(c)) => c,
        Ok(Err(e)) => return Outcome::ProverRejected(format!("prep: {e}")),
        Err(p) => return Outcome::ProverRejected(format!("prep panic {}", panic_site(&p))),
    };
    let mut replaced = false;
    for op in circuit.ops.iter_mut() {
        if let Op::Hint { executor, outputs, .. } = op {
            if outputs.len() == alt.len() && !replaced {
                *executor = Box::new(Fixed(alt.clone()));
                replaced = true;
            }
        }
    }
    if !replaced {
        return Outcome::NoAlternative;
    }
    let mut runner = circuit.runner();
    let traces = match runner.set_public_inputs(publics).and_then(|_| runner.run()) {
        Ok(t) => t,
        Err(e) => return Outcome::RunRejected(format!("{e:?}").chars().take(80).collect()),
    };
    let mut traces = traces;
    if forge_boolcheck_rows {
        // what a prover that writes its own ALU trace does to a bool-check row whose checked value
        // is not boolean: the `a` / `c` cells become 0, `out` keeps the (non-boolean) slot value
        let alu = &mut traces.alu_trace;
        let mut forged = 0;
        for (row, kind) in alu.op_kind.iter().enumerate() {
            let a = alu.values[row][0];
            if *kind == p3_circuit::AluOpKind::BoolCheck && a != S::E::ZERO && a != S::E::ONE {
                alu.values[row][0] = S::E::ZERO;
                alu.values[row][2] = S::E::ZERO;
                forged += 1;
            }
        }
        if forged == 0 {
            return Outcome::NoAlternative;
        }
    }
    let prover = S::prover_x(packing, recompose, false);
    match guarded(|| S::prove(&prover, &traces, &cpd)) {
        Ok(Ok(proof)) => match guarded(|| S::verify(&prover, &proof)) {
            Ok(Ok(())) => Outcome::Accepted,
            Ok(Err(e)) => Outcome::VerifierRejected(e.chars().take(80).collect()),
            Err(p) => Outcome::VerifierRejected(format!("panic {}", panic_site(&p))),
        },
        Ok(Err(e)) => Outcome::ProverRejected(e.chars().take(80).collect()),
        Err(p) => Outcome::ProverRejected(format!("panic {}", panic_site(&p))),
    }
}

/// decompose_to_bits(x, n) with the bits of x + k·p.
/// `nonbool = Some((j, i))`: instead of the bits of x + k·p, the canonical bits with bit `i` flipped
/// and bit `j` set to the (non-boolean) field element that restores the recomposition identity.
fn bits_case<S: Setup>(x: u64, class: &str, n: usize, k: u64, use_bits: u32, nonbool: Option<(usize, usize)>, forge_rows: bool, ext_kind: u8) -> CaseResult {
    let key = format!("{}:bits:{class}:n{n}:k{k}:use{use_bits}:nb{nonbool:?}:forge{forge_rows}:ext{ext_kind}", S::NAME);
    let k = if nonbool.is_some() { 0 } else { k };
    let p = S::order() as u128;
    let alt_val = x as u128 + k as u128 * p;
    let fits = n >= 128 || alt_val < (1u128 << n);
    if !fits {
        return CaseResult::held(key, false).count("bits/no-alternative-fits", 1);
    }
    let mut b = CircuitBuilder::<S::E>::new();
    let xin = b.public_input();
    let bits = match b.decompose_to_bits::<S::B>(xin, n) {
        Ok(bits) => bits,
        Err(_) => return CaseResult::held(key, false).count("bits/builder-rejected-width", 1),
    };
    // consume the bits so that they matter: either the low bit selects, or a re-packed prefix
    let c7 = b.define_const(S::el(&[7]));
    let consumed = match use_bits {
        0 => b.mul(bits[0], c7),
        1 => {
            let r = b.reconstruct_index_from_bits::<S::B>(&bits[..n.min(5)]).unwrap();
            b.mul(r, c7)
        }
        _ => {
            let s = b.select(bits[0], c7, xin);
            b.add(s, xin)
        }
    };
    let out = b.public_input();
    b.connect(consumed, out);
    let Ok(mut circuit) = b.build() else {
        return CaseResult::inconclusive(key, "build failed");
    };
    // alternative bits (little endian, single limb)
    let mut alt_bits: Vec<S::E> = (0..n).map(|i| if (alt_val >> i) & 1 == 1 { S::E::ONE } else { S::E::ZERO }).collect();
    let canon = canonical_bits::<S>(&S::el(&[x]), n);
    let mut nb_class = "";
    if let Some((j, i)) = nonbool {
        let Some(c) = canon.as_ref() else {
            return CaseResult::held(key, false).count("bits/no-canonical-decomposition-at-this-width", 1);
        };
        if i == j || i >= n || j >= n {
            return CaseResult::held(key, false).count("bits/nonbool-not-applicable", 1);
        }
        alt_bits = c.clone();
        let two = S::E::ONE + S::E::ONE;
        let pow = |e: usize| (0..e).fold(S::E::ONE, |a, _| a * two);
        if ext_kind > 0 {
            // extension-valued "bits": bit i gets + t, bit j gets - t * 2^i / 2^j, where t has a zero
            // constant coefficient and higher limbs (d, -d, 0, ..) [cancelling] or (d, 0, ..) [single]
            if S::D < 2 || (ext_kind == 1 && S::D < 3) {
                return CaseResult::held(key, false).count("bits/nonbase-not-applicable", 1);
            }
            let d = 1 + (x % 1000) + 13 * i as u64;
            let mut tc = vec![0u64; S::D];
            tc[1] = d;
            if ext_kind == 1 {
                tc[2] = S::order() - d;
            }
            let t = S::el(&tc);
            alt_bits[i] = c[i] + t;
            alt_bits[j] = c[j] - t * pow(i) * pow(j).inverse();
            nb_class = if ext_kind == 1 { "cancelling-limbs" } else { "single-limb" };
        } else {
        let flipped = if c[i] == S::E::ZERO { S::E::ONE } else { S::E::ZERO };
        let delta = (flipped - c[i]) * pow(i);
        alt_bits[i] = flipped;
        alt_bits[j] = c[j] - delta * pow(j).inverse();
        nb_class = if j == 0 { "lsb" } else if j == n - 1 { "msb" } else { "inner" };
        }
    }
    if canon.as_ref() == Some(&alt_bits) {
        return CaseResult::held(key, false).count("bits/alternative-equals-canonical", 1);
    }
    if recompose_bits::<S>(&alt_bits) != S::el(&[x]) {
        return CaseResult::inconclusive(key, "alternative does not satisfy the recomposition identity");
    }
    // the public "out" as the deviating prover computes it
    let seven = S::el(&[7]);
    let xe = S::el(&[x]);
    let out_val = match use_bits {
        0 => alt_bits[0] * seven,
        1 => recompose_bits::<S>(&alt_bits[..n.min(5)]) * seven,
        _ => (xe + alt_bits[0] * (seven - xe)) + xe,
    };
    let differs_from_canonical = canon.as_ref().map(|c| {
        let o = match use_bits {
            0 => c[0] * seven,
            1 => recompose_bits::<S>(&c[..n.min(5)]) * seven,
            _ => (xe + c[0] * (seven - xe)) + xe,
        };
        o != out_val
    });
    let outcome = prove_with_hint::<S>(&mut circuit, &[xe, out_val], alt_bits, false, forge_rows && nonbool.is_some());
    let full_width = n == limb_bits::<S>();
    match outcome {
        Outcome::Accepted => CaseResult::violated(
            key,
            if nonbool.is_some() {
                format!("noncanonical-accepted/bits/{}/{nb_class}{}", if ext_kind > 0 { "nonbase-bit" } else { "nonboolean-bit" }, if forge_rows { "+forged-boolcheck-row" } else { "" })
            } else {
                format!("noncanonical-accepted/bits/{}-bit-limb{}", limb_bits::<S>(), if full_width { "" } else { "/narrow-width" })
            },
            json!({"setup": S::NAME, "gadget": "decompose_to_bits", "x": x, "n_bits": n, "k": k, "use": use_bits, "nonbool": nonbool.map(|(j, i)| vec![j, i]), "forged_boolcheck_rows": forge_rows, "ext_kind": ext_kind,
                   "alternative_value": alt_val.to_string(), "observable_output_differs_from_canonical": differs_from_canonical}),
        ),
        Outcome::NoAlternative => CaseResult::inconclusive(key, "hint op not found"),
        Outcome::RunRejected(e) => CaseResult::held(key, true).count(format!("bits/rejected-by-run/{}", e.split(|c: char| !c.is_alphanumeric()).next().unwrap_or("")), 1),
        Outcome::ProverRejected(_) => CaseResult::held(key, true).count(format!("bits{}/rejected-by-prover", if nonbool.is_some() { format!("-nonboolean-{nb_class}") } else { String::new() }), 1),
        Outcome::VerifierRejected(_) => CaseResult::held(key, true).count(format!("bits{}/rejected-by-verifier", if nonbool.is_some() { format!("-nonboolean-{nb_class}") } else { String::new() }), 1),
    }
}

/// The same value decomposed twice on one builder, wide first, then at a width it does not fit:
/// no hint is swapped; the second decomposition has no valid witness at all, so the honest run must
/// fail or the trace must be unprovable. (A builder that reuses the first decomposition's bits for
/// the second one would accept a truncated "decomposition".)
fn redecompose_case<S: Setup>(x: u64, wide: usize, narrow: usize) -> CaseResult {
    let key = format!("{}:bits:redecompose:x{x}:w{wide}:n{narrow}", S::NAME);
    if narrow >= 64 || (x >> narrow) == 0 || wide > limb_bits::<S>() || narrow >= wide {
        return CaseResult::held(key, false).count("bits/redecompose-not-applicable", 1);
    }
    let mut b = CircuitBuilder::<S::E>::new();
    let xin = b.public_input();
    let Ok(bits_w) = b.decompose_to_bits::<S::B>(xin, wide) else {
        return CaseResult::held(key, false).count("bits/builder-rejected-width", 1);
    };
    let Ok(bits_n) = b.decompose_to_bits::<S::B>(xin, narrow) else {
        return CaseResult::held(key, false).count("bits/builder-rejected-width", 1);
    };
    let c7 = b.define_const(S::el(&[7]));
    let r = b.reconstruct_index_from_bits::<S::B>(&bits_n).unwrap();
    let m = b.mul(r, c7);
    let w0 = b.mul(bits_w[0], c7);
    let s = b.add(m, w0);
    let out = b.public_input();
    b.connect(s, out);
    let Ok(circuit) = b.build() else {
        return CaseResult::inconclusive(key, "build failed");
    };
    // what a builder that truncates the wide decomposition would compute
    let low = x & ((1u64 << narrow) - 1);
    let out_val = S::el(&[low]) * S::el(&[7]) + S::el(&[x & 1]) * S::el(&[7]);
    let packing = TablePacking::default();
    let cpd = match guarded(|| S::prep_x(&circuit, &packing, ConstraintProfile::Standard, false)) {
        Ok(Ok(c)) => c,
        _ => return CaseResult::held(key, true).count("bits/redecompose/rejected-by-key-generation", 1),
    };
    let mut runner = circuit.runner();
    let traces = match runner.set_public_inputs(&[S::el(&[x]), out_val]).and_then(|_| runner.run()) {
        Ok(t) => t,
        Err(_) => return CaseResult::held(key, true).count("bits/redecompose/rejected-by-run", 1),
    };
    let prover = S::prover_x(packing, false, false);
    match guarded(|| S::prove(&prover, &traces, &cpd)) {
        Ok(Ok(proof)) => match guarded(|| S::verify(&prover, &proof)) {
            Ok(Ok(())) => CaseResult::violated(
                key,
                "noncanonical-accepted/bits/redecomposition-at-narrower-width",
                json!({"setup": S::NAME, "gadget": "decompose_to_bits-twice", "x": x, "wide": wide, "narrow": narrow}),
            ),
            _ => CaseResult::held(key, true).count("bits/redecompose/rejected-by-verifier", 1),
        },
        _ => CaseResult::held(key, true).count("bits/redecompose/rejected-by-prover", 1),
    }
}

/// decompose_ext_to_base_coeffs(x) with mass moved between coefficients.
/// `consume`: 0 = the coefficients feed ALU rows; 1 = they are re-packed in rotated order by a second
/// recomposition (what the challenger does at a misaligned rate offset), whose result feeds an ALU row.
/// `route` 1: the decomposition is emitted with the builder's "skip select provenance" flag on
/// (the mode `recursion/src/pcs/mmcs.rs` uses for extension-opened arity-4 leaves); only with the
/// recompose table enabled.
fn coeff_case<S: Setup>(rng: &mut rand::rngs::SmallRng, family: u32, recompose_npo: bool, consume: u32, route: u32, idx: usize) -> CaseResult {
    let recompose_npo = recompose_npo || route == 1;
    let key = format!("{}:coeffs:f{family}:npo{recompose_npo}:use{consume}:route{route}:{idx}", S::NAME);
    if S::D == 1 {
        return CaseResult::held(key, false);
    }
    let recompose = recompose_npo && matches!(S::D, 2 | 4 | 5);
    let mut b = CircuitBuilder::<S::E>::new();
    if recompose {
        b.enable_recompose::<S::B>(p3_circuit::ops::generate_recompose_trace::<S::B, S::E>);
    }
    let xin = b.public_input();
    let route = if recompose { route } else { 0 };
    let prev = if route == 1 { b.set_decompose_skip_select_provenance(true) } else { false };
    let Ok(cs) = b.decompose_ext_to_base_coeffs::<S::B>(xin) else {
        return CaseResult::inconclusive(key, "decompose failed");
    };
    if route == 1 {
        b.set_decompose_skip_select_provenance(prev);
    }
    let s = if consume == 1 {
        let rot: Vec<_> = (0..S::D).map(|i| cs[(i + 1) % S::D]).collect();
        let Ok(y) = b.recompose_base_coeffs_to_ext::<S::B>(&rot) else {
            return CaseResult::inconclusive(key, "recompose failed");
        };
        b.mul(y, y)
    } else {
        // consume coefficient 0 and the last one
        let m = b.mul(cs[0], cs[S::D - 1]);
        b.add(m, cs[0])
    };
    let out = b.public_input();
    b.connect(s, out);
    let Ok(mut circuit) = b.build() else {
        return CaseResult::inconclusive(key, "build failed");
    };
    let xc: Vec<u64> = (0..S::D).map(|_| rng.random::<u64>() % S::order()).collect();
    let x = S::el(&xc);
    let canon: Vec<S::E> = xc.iter().map(|c| S::el(&[*c])).collect();
    // alternative families (all satisfy sum c_i * e_i == x)
    let mut alt = canon.clone();
    let e = |i: usize| -> S::E {
        let mut v = vec![0u64; S::D];
        v[i] = 1;
        S::el(&v)
    };
    match family {
        0 => {
            // everything in limb 0
            alt = vec![S::E::ZERO; S::D];
            alt[0] = x;
        }
        1 => {
            // move t from limb 1 into limb 0: c0' = c0 + t*e1, c1' = c1 - t
            let t = S::el(&[1 + rng.random::<u64>() % (S::order() - 1)]);
            alt[0] = canon[0] + t * e(1);
            alt[1] = canon[1] - t;
        }
        _ => {
            // move mass from the top limb to limb 0 through the reduction: c_{D-1}' = c_{D-1} - t,
            // c0' = c0 + t*e_{D-1}
            let t = S::el(&[1 + rng.random::<u64>() % (S::order() - 1)]);
            alt[0] = canon[0] + t * e(S::D - 1);
            alt[S::D - 1] = canon[S::D - 1] - t;
        }
    }
    if basis_recompose::<S>(&alt) != x {
        return CaseResult::inconclusive(key, "alternative does not satisfy the identity");
    }
    if alt.iter().all(|c| is_base::<S>(c)) {
        return CaseResult::held(key, false).count("coeffs/alternative-is-canonical", 1);
    }
    // the public output as the deviating prover computes it. A recomposition fed with non-base
    // "coefficients" has no specified value: the ALU path multiplies them as extension elements,
    // the table path packs their first components — the prover claims whichever gets accepted.
    let out_vals: Vec<S::E> = if consume == 1 {
        let rot: Vec<S::E> = (0..S::D).map(|i| alt[(i + 1) % S::D]).collect();
        let y = basis_recompose::<S>(&rot);
        let firsts: Vec<S::E> = rot.iter().map(|c| S::el(&[S::coeffs(c)[0]])).collect();
        let y0 = basis_recompose::<S>(&firsts);
        if y0 == y { vec![y * y] } else { vec![y * y, y0 * y0] }
    } else {
        vec![alt[0] * alt[S::D - 1] + alt[0]]
    };
    let mut outcome = Outcome::NoAlternative;
    for out_val in out_vals {
        outcome = prove_with_hint::<S>(&mut circuit, &[x, out_val], alt.clone(), recompose, false);
        if matches!(outcome, Outcome::Accepted) {
            break;
        }
    }
    match outcome {
        Outcome::Accepted => CaseResult::violated(
            key,
            format!("noncanonical-accepted/ext-coeffs/{}{}", if recompose { "recompose-table" } else { "alu-recomposition" }, if route == 1 { "/skip-select-provenance" } else { "" }),
            json!({"setup": S::NAME, "gadget": "decompose_ext_to_base_coeffs", "x": xc, "family": family, "recompose_npo": recompose, "consume": consume, "route": route}),
        ),
        Outcome::NoAlternative => CaseResult::inconclusive(key, "hint op not found"),
        Outcome::RunRejected(_) => CaseResult::held(key, true).count(format!("coeffs/rejected-by-run/npo={recompose}/use={consume}"), 1).count(format!("coeffs/route{route}/rejected"), 1),
        Outcome::ProverRejected(_) => CaseResult::held(key, true).count(format!("coeffs/rejected-by-prover/use={consume}"), 1),
        Outcome::VerifierRejected(_) => CaseResult::held(key, true).count(format!("coeffs/rejected-by-verifier/use={consume}"), 1),
    }
}

fn case<S: Setup>(seed: u64, idx: usize, _tier: Tier) -> Vec<CaseResult> {
    let mut rng = case_rng(seed, "c12", idx as u64);
    let mut out = vec![];
    if idx % 3 != 2 {
        let classes = value_classes::<S>(&mut rng);
        let (class, x) = classes[rng.random_range(0..classes.len())];
        let w = limb_bits::<S>();
        let need = (64 - x.leading_zeros() as usize).max(1);
        let n = if rng.random_range(0..2u32) == 0 { w } else { (need + rng.random_range(0..3usize)).min(w) };
        let k = rng.random_range(1..=3u64);
        // a third of the bit cases: one non-boolean bit (LSB / inner / MSB) compensating a flipped one
        let nonbool = if n >= 2 && rng.random_range(0..3u32) == 0 {
            let j = match rng.random_range(0..3u32) {
                0 => 0,
                1 => n - 1,
                _ => rng.random_range(0..n),
            };
            let i = (j + 1 + rng.random_range(0..n - 1)) % n;
            Some((j, i))
        } else {
            None
        };
        if idx % 6 == 0 {
            // directed: wide decomposition first, then one at a width the value does not fit
            let xv = 256 + rng.random::<u64>() % 100_000;
            let need_x = 64 - xv.leading_zeros() as usize;
            let narrow = rng.random_range(1..need_x);
            out.push(redecompose_case::<S>(xv, w, narrow));
        }
        let use_bits = rng.random_range(0..3);
        let r = bits_case::<S>(x, class, n, k, use_bits, nonbool, false, 0);
        if nonbool.is_some() {
            // the same deviation by a prover that also writes the ALU trace itself
            out.push(bits_case::<S>(x, class, n, k, use_bits, nonbool, true, 0));
            // extension-valued bits (higher limbs that cancel within the element / a single higher limb)
            if S::D >= 2 {
                out.push(bits_case::<S>(x, class, n, k, use_bits, nonbool, false, 1 + (idx as u8 / 3) % 2));
            }
        }
        out.push(if idx < 8 {
            r.with_sample(json!({"setup": S::NAME, "gadget": "decompose_to_bits", "x": x, "class": class, "n": n, "k": k}))
        } else {
            r
        });
    } else {
        let fam = rng.random_range(0..3u32);
        let npo = rng.random_range(0..2u32) == 0;
        let consume = rng.random_range(0..2u32);
        let route = u32::from(idx % 3 == 2);
        out.push(coeff_case::<S>(&mut rng, fam, npo, consume, route, idx));
    }
    out
}

fn replay(d: &Value) -> Vec<CaseResult> {
    fn go<S: Setup>(d: &Value) -> Vec<CaseResult> {
        if d["gadget"] == "decompose_to_bits-twice" {
            return vec![redecompose_case::<S>(d["x"].as_u64().unwrap(), d["wide"].as_u64().unwrap() as usize, d["narrow"].as_u64().unwrap() as usize)];
        }
        if d["gadget"] == "decompose_to_bits" {
            vec![bits_case::<S>(
                d["x"].as_u64().unwrap(),
                "replay",
                d["n_bits"].as_u64().unwrap() as usize,
                d["k"].as_u64().unwrap(),
                d["use"].as_u64().unwrap() as u32,
                d["nonbool"].as_array().map(|a| (a[0].as_u64().unwrap() as usize, a[1].as_u64().unwrap() as usize)),
                d["forged_boolcheck_rows"].as_bool().unwrap_or(false),
                d["ext_kind"].as_u64().unwrap_or(0) as u8,
            )]
        } else {
            let mut rng = case_rng(0, "c12-replay", 0);
            vec![coeff_case::<S>(&mut rng, d["family"].as_u64().unwrap() as u32, d["recompose_npo"].as_bool().unwrap(), d["consume"].as_u64().unwrap_or(0) as u32, d["route"].as_u64().unwrap_or(0) as u32, 0)]
        }
    }
    let name = d["setup"].as_str().unwrap().to_string();
    with_setup!(name.as_str(), go, d)
}

fn main() {
    let args = parse_args();
    let mut rep = Report::new(
        "C12",
        "fault_enumeration",
        &args,
        "case = (gadget, field setup, value class, bit width / alternative family): the honest hint is replaced by an \
         alternative decomposition satisfying the recomposition identity; non-trivial = the alternative differs from \
         the canonical decomposition and was actually run/proven; distinct by (setup, gadget, class, width, k, use)",
    );
    rep.assume("a deviating prover controls hint outputs (Op::Hint executors) and, in the `+forged-boolcheck-row` family, the a/c cells of the ALU bool-check rows of its own trace, but not the circuit; verifier = verify_all_tables with the honest prover data");
    rep.assume("challenger gadgets (sample_bits, check_pow_witness, observe_ext) are covered with the same deviations by C06");
    if let Some(p) = &args.replay {
        let v: Value = serde_json::from_str(&std::fs::read_to_string(p).expect("replay file")).unwrap();
        rep.add_all(replay(&v["detail"]));
        rep.finish(0);
    }
    let n = args.tier.pick(480usize, 16_000usize);
    let (seed, tier) = (args.seed, args.tier);
    let rs = run_cases_isolated(n, args.threads, |i| with_setup!(SETUP_NAMES[i % SETUP_NAMES.len()], case, seed, i, tier));
    rep.add_all(rs);
    rep.finish(args.tier.pick(100, 3000));
}
