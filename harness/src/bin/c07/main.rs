//! C07 — in-circuit FRI verification agrees with native FRI verification (PCS boundary).
//!
//! Fault-enumeration monitor. For a grid of FRI parameter sets and batch shapes an honest native
//! `TwoAdicFriPcs` / `HidingFriPcs` commitment + opening proof is produced (p3-fri), natively
//! verified, and the in-circuit verifier for that shape is built with the repo's
//! `RecursivePcs::{get_challenges_circuit, verify_circuit}` (in-circuit challenger: PoW checks,
//! query-index sampling; `verify_fri_circuit` with MMCS verification) and run on the honest
//! data. Then
//! * every numeric leaf of (commitments, claimed evaluations, opening proof) is mutated (serde
//!   tree: +1; thorough tier also a random canonical value and 0) and the native verdict is
//!   compared with the circuit verdict (same compiled circuit, inputs re-packed from the mutant;
//!   circuit rebuilt from the mutant for the shape-bearing `log_arity` leaves);
//! * faults are injected *inside* the native prover (`EvilChallenger` in `core.inc.rs`): a claimed
//!   evaluation / random-codeword evaluation / final-polynomial coefficient is shifted, or a PoW
//!   witness is not ground, with transcript and Merkle openings staying consistent. Finished-proof
//!   mutants are nearly always caught by the first Merkle or transcript check on both sides; the
//!   prover faults are what isolates the fold chain / final polynomial / PoW constraints.
//!
//! * structural sweep (PCS boundary): every array node of the document at every depth (query
//!   proofs, commit-phase commits / PoW witnesses / openings, sibling and Merkle-path lists, final
//!   polynomial, the hiding PCS's random opened values per round / matrix / point, input-proof
//!   batches and their opened rows; the claims: rounds, matrices, points, values; Merkle caps)
//!   gets drop-last, drop-first, duplicate-last, empty, swap-first-two; array / object nodes are
//!   set to `null` and `null` nodes to `[]` / `0` (optional nodes; the current proof types have
//!   none, so these only count as not deserialisable). Operations on the nesting of `claimed`
//!   (rounds, matrices, points) are applied to the statement's nesting too (rounds also to
//!   `commitments`), since both verifier interfaces take points and values zipped. For every
//!   mutant that still deserialises: native verdict vs verdict of the circuit REBUILT for the
//!   mutant (builder error or builder panic = reject; panics are counted, C15 owns "no panic").
//!   Signatures `structural/circuit-accepts-native-rejects/<flavor>/<path class>` and
//!   `structural/circuit-rejects-native-accepts/<flavor>/<path class>`. Thorough tier: all nodes;
//!   quick tier: up to `QUICK_STRUCT_PER_CLASS` nodes per (parameter point, path class, operation),
//!   always the first and the last one.
//! * structural prover faults (`SFault`, `StreamEdits` in `core.inc.rs`): a document-level change
//!   of the claims / random opened values also changes the Fiat-Shamir transcript, so the verdicts
//!   agree on "reject" for the boring reason. Here the native prover itself opens a matrix at one
//!   point fewer (made-up claimed values for the missing point are bound into the transcript) or
//!   one point more than the statement has, or leaves out rows / a matrix / a round of
//!   random-codeword openings, with its transcript edited to be exactly the one the verifier
//!   derives from its view (self-checked: the native verifier replaying the same edits accepts what
//!   the prover really proved). Path class `prover-<fault>:<array node whose length disagrees>`.
//!
//! The oracle is agreement of the two verdicts. Layout: `main.rs` (grid, scheduling, reporting,
//! replay) + `core.inc.rs` (prover, native verdict, circuit construction/packing/run; `include!`d
//! once per flavor: BabyBear and KoalaBear `TwoAdicFriPcs`, KoalaBear `HidingFriPcs` over salted
//! and over plain MMCSs).
//!
//! Extra options: `--only <i>` (one grid point), `--params <file.json>` (one explicit `Params`),
//! `--honest-only 1` (print the honest stage of every grid point and stop; with `--dump <i>` also
//! the document of grid point i), `--no-structural 1` / `--structural-only 1`,
//! `--struct-per-class <n>` (quick-tier sample size, 0 = all nodes).

use std::collections::BTreeMap;
use std::sync::Mutex;
use std::time::Instant;

use p3_challenger::{CanObserve, CanSample, CanSampleBits, FieldChallenger, GrindingChallenger};
use p3_circuit::ops::{generate_poseidon2_trace, generate_recompose_trace};
use p3_circuit::{Circuit, CircuitBuilder, CircuitRunner, NonPrimitiveOpId};
use p3_commit::Pcs;
use p3_field::coset::TwoAdicMultiplicativeCoset;
use p3_field::PrimeField64;
use p3_fri::{FriParameters, FriProof, HidingFriPcs};
use p3_matrix::dense::RowMajorMatrix;
use p3_merkle_tree::MerkleTreeHidingMmcs;
use p3_recursion::pcs::{
    FriProofTargets, HidingFriProofTargets, InputProofTargets, MerkleCapTargets,
    RecExtensionValMmcs, RecValHidingMmcs, RecValMmcs, Witness, set_fri_mmcs_private_data,
    set_hiding_fri_mmcs_private_data, set_hiding_salted_fri_mmcs_private_data,
};
use p3_recursion::types::OpenedValuesTargetsWithLookups;
use p3_recursion::{
    CircuitChallenger, FriVerifierParams, OpenedValuesTargets, Poseidon2Config, Recursive,
    RecursiveChallenger, RecursivePcs, Target,
};
use p3r_verif::util::*;
use rand::rngs::SmallRng;
use rand::{RngExt, SeedableRng};
use serde::{Deserialize, Serialize};
use serde_json::{Value, json};

// ---------------------------------------------------------------------------------------------
// Parameter points
// ---------------------------------------------------------------------------------------------

#[derive(Clone, Debug, Serialize, Deserialize, PartialEq, Eq)]
pub struct MatSpec {
    /// log2 of the committed domain size (for the hiding PCS the matrix has half as many rows).
    pub log_size: usize,
    pub width: usize,
    /// bit 0: opened at zeta, bit 1: opened at zeta * g (g = generator of the matrix domain).
    pub points: u8,
}

fn ms(log_size: usize, width: usize, points: u8) -> MatSpec {
    MatSpec { log_size, width, points }
}

#[derive(Clone, Debug, Serialize, Deserialize)]
pub struct Params {
    pub flavor: String,
    pub log_blowup: usize,
    pub num_queries: usize,
    pub max_log_arity: usize,
    pub log_final_poly_len: usize,
    pub commit_pow_bits: usize,
    pub query_pow_bits: usize,
    pub batches: Vec<Vec<MatSpec>>,
    pub data_seed: u64,
    /// cap height of the value MMCS (and therefore of the FRI commit-phase MMCS): 0 = single root
    #[serde(default)]
    pub cap_height: usize,
}

impl Params {
    pub fn key(&self) -> String {
        let shape: Vec<String> = self
            .batches
            .iter()
            .map(|b| {
                b.iter()
                    .map(|m| format!("{}x{}@{}", m.log_size, m.width, m.points))
                    .collect::<Vec<_>>()
                    .join(",")
            })
            .collect();
        format!(
            "{}:lb{}:q{}:a{}:fp{}:cp{}:qp{}{}:[{}]",
            self.flavor,
            self.log_blowup,
            self.num_queries,
            self.max_log_arity,
            self.log_final_poly_len,
            self.commit_pow_bits,
            self.query_pow_bits,
            if self.cap_height > 0 { format!(":cap{}", self.cap_height) } else { String::new() },
            shape.join("|")
        )
    }
}

// ---------------------------------------------------------------------------------------------
// Verdicts, JSON leaves
// ---------------------------------------------------------------------------------------------

#[derive(Clone, Debug, PartialEq, Eq)]
pub enum V {
    Accept,
    Reject(String),
    Panic(String),
}

impl V {
    pub fn accepts(&self) -> bool {
        matches!(self, V::Accept)
    }
    pub fn text(&self) -> String {
        match self {
            V::Accept => "accept".into(),
            V::Reject(e) => format!("reject({e})"),
            V::Panic(p) => format!("reject(panic {p})"),
        }
    }
}

/// Coarse class of an error message: leading words without case-specific numbers.
pub fn err_class(e: &str) -> String {
    let cleaned: String = e
        .chars()
        .map(|c| if c.is_ascii_alphanumeric() || c == '_' || c == ':' { c } else { ' ' })
        .collect();
    cleaned
        .split_whitespace()
        .filter(|w| !w.chars().all(|c| c.is_ascii_digit()))
        .take(6)
        .collect::<Vec<_>>()
        .join(" ")
}

#[derive(Clone, Debug, PartialEq, Eq, Serialize, Deserialize)]
#[serde(untagged)]
pub enum Seg {
    Key(String),
    Idx(usize),
}

pub fn numeric_leaves(v: &Value) -> Vec<Vec<Seg>> {
    fn go(v: &Value, cur: &mut Vec<Seg>, out: &mut Vec<Vec<Seg>>) {
        match v {
            Value::Number(_) => out.push(cur.clone()),
            Value::Array(a) => {
                for (i, x) in a.iter().enumerate() {
                    cur.push(Seg::Idx(i));
                    go(x, cur, out);
                    cur.pop();
                }
            }
            Value::Object(o) => {
                for (k, x) in o {
                    cur.push(Seg::Key(k.clone()));
                    go(x, cur, out);
                    cur.pop();
                }
            }
            _ => {}
        }
    }
    let mut out = vec![];
    go(v, &mut vec![], &mut out);
    out
}

pub fn leaf_mut<'a>(v: &'a mut Value, path: &[Seg]) -> &'a mut Value {
    let mut cur = v;
    for s in path {
        cur = match s {
            Seg::Key(k) => &mut cur[k.as_str()],
            Seg::Idx(i) => &mut cur[*i],
        };
    }
    cur
}

pub fn path_text(path: &[Seg], strip: bool, flavor: &str) -> String {
    let hiding = flavor.contains("hiding");
    let salted = flavor.contains("salted");
    let mut s = String::new();
    for (i, seg) in path.iter().enumerate() {
        match seg {
            Seg::Key(k) => {
                if !s.is_empty() {
                    s.push('.');
                }
                s.push_str(k);
            }
            Seg::Idx(n) => {
                let after_opening_proof = i > 0 && path[i - 1] == Seg::Key("opening_proof".into());
                if hiding && i == 1 && after_opening_proof {
                    // The hiding PCS proof is the tuple (random opened values, inner FRI proof).
                    s.push_str(if *n == 0 { ".random_opened_values" } else { ".fri" });
                } else if salted && i > 1 && after_opening_proof {
                    // A hiding MMCS opening proof is the tuple (salts, siblings).
                    s.push_str(if *n == 0 { ".salts" } else { ".siblings" });
                } else if strip {
                    s.push_str("[]");
                } else {
                    s.push_str(&format!("[{n}]"));
                }
            }
        }
    }
    s
}

// ---------------------------------------------------------------------------------------------
// Structural mutants of the document (array / optional nodes)
// ---------------------------------------------------------------------------------------------

/// Structural operation on one node of the document.
#[derive(Clone, Copy, Debug, PartialEq, Eq, PartialOrd, Ord)]
pub enum SOp {
    DropLast,
    DropFirst,
    DupLast,
    Empty,
    Swap01,
    /// array / object node replaced by `null` (deserialises only if the node is optional)
    ToNull,
    /// `null` node replaced by `[]` / by `0` (deserialises only if the node is optional)
    NullToArr,
    NullToNum,
}

pub const ARRAY_OPS: [SOp; 5] = [SOp::DropLast, SOp::DropFirst, SOp::DupLast, SOp::Empty, SOp::Swap01];

impl SOp {
    pub fn name(self) -> &'static str {
        match self {
            SOp::DropLast => "drop-last",
            SOp::DropFirst => "drop-first",
            SOp::DupLast => "duplicate-last",
            SOp::Empty => "empty",
            SOp::Swap01 => "swap-first-two",
            SOp::ToNull => "to-null",
            SOp::NullToArr => "null-to-array",
            SOp::NullToNum => "null-to-number",
        }
    }
    pub fn from_name(s: &str) -> Option<SOp> {
        [SOp::DropLast, SOp::DropFirst, SOp::DupLast, SOp::Empty, SOp::Swap01, SOp::ToNull, SOp::NullToArr, SOp::NullToNum]
            .into_iter()
            .find(|o| o.name() == s)
    }
    /// Apply to a vector; false = the operation is not applicable.
    pub fn apply_vec<T: Clone>(self, v: &mut Vec<T>) -> bool {
        match self {
            SOp::DropLast => v.pop().is_some(),
            SOp::DropFirst => {
                if v.is_empty() {
                    return false;
                }
                v.remove(0);
                true
            }
            SOp::DupLast => match v.last().cloned() {
                Some(x) => {
                    v.push(x);
                    true
                }
                None => false,
            },
            SOp::Empty => {
                if v.is_empty() {
                    return false;
                }
                v.clear();
                true
            }
            SOp::Swap01 => {
                if v.len() < 2 {
                    return false;
                }
                v.swap(0, 1);
                true
            }
            _ => false,
        }
    }
}

#[derive(Clone, Debug)]
pub struct SMut {
    pub path: Vec<Seg>,
    pub op: SOp,
}

/// Apply a structural operation to the node at `path`; false = no change / not applicable.
pub fn apply_sop(doc: &mut Value, path: &[Seg], op: SOp) -> bool {
    let node = leaf_mut(doc, path);
    match (op, &mut *node) {
        (SOp::ToNull, Value::Array(_) | Value::Object(_)) => {
            *node = Value::Null;
            true
        }
        (SOp::NullToArr, Value::Null) => {
            *node = json!([]);
            true
        }
        (SOp::NullToNum, Value::Null) => {
            *node = json!(0);
            true
        }
        (SOp::Swap01, Value::Array(a)) if a.len() >= 2 && a[0] == a[1] => false,
        (_, Value::Array(a)) => op.apply_vec(a),
        _ => false,
    }
}

/// Is this the statement-level "rounds" node? The commitments and the claims are zipped by the
/// verifier interfaces, so the rounds operation is applied to both (and enumerated once, at
/// `claimed`).
pub fn is_rounds_node(path: &[Seg]) -> bool {
    path.len() == 1 && path[0] == Seg::Key("claimed".into())
}

/// All structural mutants of a document: the five array operations on every array node (those
/// that change it), `to-null` on every array / object node, `null-to-*` on every null node.
pub fn structural_mutants(doc: &Value) -> Vec<SMut> {
    fn go(v: &Value, cur: &mut Vec<Seg>, out: &mut Vec<SMut>) {
        let skip = cur.len() == 1 && cur[0] == Seg::Key("commitments".into());
        match v {
            Value::Array(a) => {
                if !skip {
                    let n = a.len();
                    if n >= 1 {
                        out.push(SMut { path: cur.clone(), op: SOp::DropLast });
                        out.push(SMut { path: cur.clone(), op: SOp::DupLast });
                    }
                    if n >= 2 {
                        out.push(SMut { path: cur.clone(), op: SOp::DropFirst });
                        out.push(SMut { path: cur.clone(), op: SOp::Empty });
                        if a[0] != a[1] {
                            out.push(SMut { path: cur.clone(), op: SOp::Swap01 });
                        }
                    }
                    out.push(SMut { path: cur.clone(), op: SOp::ToNull });
                }
                for (i, x) in a.iter().enumerate() {
                    cur.push(Seg::Idx(i));
                    go(x, cur, out);
                    cur.pop();
                }
            }
            Value::Object(o) => {
                if !cur.is_empty() {
                    out.push(SMut { path: cur.clone(), op: SOp::ToNull });
                }
                for (k, x) in o {
                    cur.push(Seg::Key(k.clone()));
                    go(x, cur, out);
                    cur.pop();
                }
            }
            Value::Null => {
                out.push(SMut { path: cur.clone(), op: SOp::NullToArr });
                out.push(SMut { path: cur.clone(), op: SOp::NullToNum });
            }
            _ => {}
        }
    }
    let mut out = vec![];
    go(doc, &mut vec![], &mut out);
    out
}

/// Quick tier: per (path class, operation) the first node, the last node and one seeded node in
/// between; every path class and every operation applicable to it stays covered.
pub fn sample_structural(all: Vec<SMut>, flavor: &str, rng: &mut SmallRng, per_class: usize) -> Vec<SMut> {
    let mut groups: BTreeMap<(String, SOp), Vec<usize>> = BTreeMap::new();
    for (i, m) in all.iter().enumerate() {
        groups.entry((path_text(&m.path, true, flavor), m.op)).or_default().push(i);
    }
    let mut keep = std::collections::BTreeSet::new();
    for (_, idxs) in groups {
        if per_class == 0 || idxs.len() <= per_class {
            keep.extend(idxs.iter().copied());
            continue;
        }
        keep.insert(idxs[0]);
        if per_class >= 2 {
            keep.insert(*idxs.last().unwrap());
        }
        for _ in 2..per_class {
            keep.insert(idxs[rng.random_range(0..idxs.len())]);
        }
    }
    all.into_iter().enumerate().filter(|(i, _)| keep.contains(i)).map(|(_, m)| m).collect()
}

/// Structural faults injected inside the native prover, with the Fiat-Shamir transcript edited
/// so that it is the transcript the verifier derives from its (structurally different) view.
#[derive(Clone, Debug, PartialEq, Eq, Serialize, Deserialize)]
#[serde(rename_all = "kebab-case")]
pub enum SFault {
    /// The prover opens matrix (b, m) at all its points but the last; the statement keeps the
    /// point, with made-up claimed values that are bound into the transcript.
    DropPoint { b: usize, m: usize },
    /// Honest opening; the proof lacks the last row of random-codeword evaluations of matrix
    /// (b, m) and the transcript does not contain it (hiding PCS).
    DropRandRow { b: usize, m: usize },
    /// The same for all rows of the last matrix of round b / of all matrices of the last round.
    DropRandMatrix { b: usize },
    DropRandRound,
    /// The prover opens matrix (b, m) at one more point than the statement has; the extra
    /// evaluations are in neither the claims nor the transcript.
    ExtraPoint { b: usize, m: usize },
}

impl SFault {
    /// (class, array node of the verifier's view whose length disagrees with the statement)
    pub fn class(&self, hiding: bool) -> String {
        let rov = "opening_proof.random_opened_values";
        match self {
            SFault::DropPoint { .. } => format!("prover-drop-point:{}", if hiding { format!("{rov}[][]") } else { "claimed[][]".into() }),
            SFault::DropRandRow { .. } => format!("prover-drop-random-row:{rov}[][]"),
            SFault::DropRandMatrix { .. } => format!("prover-drop-random-matrix:{rov}[]"),
            SFault::DropRandRound => format!("prover-drop-random-round:{rov}"),
            SFault::ExtraPoint { .. } => format!("prover-extra-point:{}", if hiding { format!("{rov}[][]") } else { "claimed[][]".into() }),
        }
    }
}

pub fn structural_faults(p: &Params) -> Vec<SFault> {
    let hiding = p.flavor.contains("hiding");
    let mut v = vec![];
    for (b, batch) in p.batches.iter().enumerate() {
        for (m, s) in batch.iter().enumerate() {
            if s.points == 3 {
                v.push(SFault::DropPoint { b, m });
            } else {
                v.push(SFault::ExtraPoint { b, m });
            }
            if hiding {
                v.push(SFault::DropRandRow { b, m });
            }
        }
        if hiding {
            v.push(SFault::DropRandMatrix { b });
        }
    }
    if hiding {
        v.push(SFault::DropRandRound);
    }
    v
}

pub struct SOutcome {
    pub idx: usize,
    pub native: V,
    pub circuit: V,
    /// where the circuit verdict was produced: "build" (builder error), "build-panic", "run",
    /// "run-panic"
    pub stage: &'static str,
}

#[derive(Default)]
pub struct StructOut {
    pub outcomes: Vec<SOutcome>,
    /// indices of mutants that do not deserialise / do not change the document
    pub deser_fail: Vec<usize>,
    pub noop: Vec<usize>,
    /// prover faults whose transcript edit could not be realised
    pub not_landed: u64,
    pub harness_error: Option<String>,
}

pub fn is_shape_leaf(path: &[Seg]) -> bool {
    path.last() == Some(&Seg::Key("log_arity".into()))
}

// ---------------------------------------------------------------------------------------------
// Data shared between the stages (flavor independent)
// ---------------------------------------------------------------------------------------------

#[derive(Clone, Debug)]
pub enum Honest {
    NotRun,
    ProverFailed(String),
    Harness(String),
    Verdicts(V, V),
}

pub struct Prepared {
    pub params: Params,
    pub key: String,
    pub doc: Value,
    pub leaves: Vec<Vec<Seg>>,
    pub log_arities: Vec<usize>,
    pub honest: Honest,
    pub native_us: u64,
    pub build_ms: u64,
    pub run_us: u64,
    pub n_ops: usize,
    pub n_mmcs_ops: usize,
    pub n_faults: usize,
    /// structural mutants to run (all of them in the thorough tier, a covering sample otherwise)
    pub smuts: Vec<SMut>,
    pub smuts_total: usize,
    pub sfaults: Vec<SFault>,
}

impl Prepared {
    pub fn empty(p: &Params) -> Self {
        Self {
            params: p.clone(),
            key: p.key(),
            doc: Value::Null,
            leaves: vec![],
            log_arities: vec![],
            honest: Honest::NotRun,
            native_us: 0,
            build_ms: 0,
            run_us: 0,
            n_ops: 0,
            n_mmcs_ops: 0,
            n_faults: 0,
            smuts: vec![],
            smuts_total: 0,
            sfaults: vec![],
        }
    }
    /// Coarse parameter class used in signatures.
    pub fn param_class(&self) -> String {
        let sched = if self.log_arities.is_empty() {
            "no-phase".to_string()
        } else if self.log_arities.iter().all(|a| *a == self.log_arities[0]) {
            format!("all-{}", 1usize << self.log_arities[0])
        } else {
            "mixed".to_string()
        };
        format!("{}/{}", self.params.flavor, sched)
    }
}

pub struct Outcome {
    pub leaf: usize,
    pub kind: &'static str,
    pub old: u64,
    pub new: u64,
    pub native: V,
    pub circuit: V,
}

pub struct FaultOutcome {
    pub index: usize,
    pub fault: Value,
    pub class: String,
    pub native: V,
    pub circuit: V,
}

#[derive(Default)]
pub struct FaultOut {
    pub outcomes: Vec<FaultOutcome>,
    pub not_landed: u64,
    pub harness_error: Option<String>,
}

#[derive(Default)]
pub struct SweepOut {
    pub outcomes: Vec<Outcome>,
    pub deser_fail: u64,
    pub leaves_mutated: u64,
    pub harness_error: Option<String>,
}

// ---------------------------------------------------------------------------------------------
// Flavors
// ---------------------------------------------------------------------------------------------

fn fri_params<M>(p: &Params, mmcs: M) -> FriParameters<M> {
    FriParameters {
        log_blowup: p.log_blowup,
        log_final_poly_len: p.log_final_poly_len,
        max_log_arity: p.max_log_arity,
        num_queries: p.num_queries,
        commit_proof_of_work_bits: p.commit_pow_bits,
        query_proof_of_work_bits: p.query_pow_bits,
        mmcs,
    }
}

/// BabyBear, quartic extension, `TwoAdicFriPcs` (the configuration of `recursion/tests/fri.rs`).
mod bb {
    use p3_poseidon2_circuit_air::BabyBearD4Width16;
    pub use p3_test_utils::baby_bear_params::*;

    use super::*;

    pub const HIDING: bool = false;
    pub const P2: Poseidon2Config = Poseidon2Config::BABY_BEAR_D4_W16;
    pub type ThePcs = TwoAdicFriPcs<F, Dft, MyMmcs, ChallengeMmcs>;
    pub type SC = StarkConfig<ThePcs, Challenge, Challenger>;
    pub type RecVal = RecValMmcs<F, DIGEST_ELEMS, MyHash, MyCompress>;
    pub type RecExt = RecExtensionValMmcs<F, Challenge, DIGEST_ELEMS, RecVal>;
    pub type InputTargets = InputProofTargets<F, Challenge, RecVal>;
    pub type ProofTargetsT = FriProofTargets<F, Challenge, RecExt, InputTargets, Witness<F>>;
    pub type Proof = <ThePcs as Pcs<Challenge, Challenger>>::Proof;
    pub type InnerFri = Proof;

    pub fn default_perm() -> Perm {
        default_babybear_poseidon2_16()
    }
    pub fn enable_perm(cb: &mut CircuitBuilder<Challenge>) {
        cb.enable_poseidon2_perm::<BabyBearD4Width16, _>(
            generate_poseidon2_trace::<Challenge, BabyBearD4Width16>,
            default_perm(),
        );
    }
    pub fn make_pcs(p: &Params) -> ThePcs {
        let perm = default_perm();
        let val_mmcs = MyMmcs::new(MyHash::new(perm.clone()), MyCompress::new(perm), p.cap_height);
        let fp = fri_params(p, ChallengeMmcs::new(val_mmcs.clone()));
        ThePcs::new(Dft::default(), val_mmcs, fp)
    }
    pub fn inner_fri(p: &Proof) -> &InnerFri {
        p
    }
    pub fn inner_fri_mut(p: &mut Proof) -> &mut InnerFri {
        p
    }
    pub fn rand_mut(_p: &mut Proof) -> Option<&mut Claimed> {
        None
    }
    pub fn set_private(
        r: &mut CircuitRunner<'_, Challenge>,
        ids: &[NonPrimitiveOpId],
        p: &Proof,
    ) -> Result<(), &'static str> {
        set_fri_mmcs_private_data::<F, Challenge, ChallengeMmcs, MyMmcs, MyHash, MyCompress, DIGEST_ELEMS>(
            r, ids, p, P2,
        )
    }
    include!("core.inc.rs");
}

/// KoalaBear, quartic extension, `TwoAdicFriPcs`.
mod kb {
    use p3_poseidon2_circuit_air::KoalaBearD4Width16;
    pub use p3_test_utils::koala_bear_params::*;

    use super::*;

    pub const HIDING: bool = false;
    pub const P2: Poseidon2Config = Poseidon2Config::KOALA_BEAR_D4_W16;
    pub type ThePcs = TwoAdicFriPcs<F, Dft, MyMmcs, ChallengeMmcs>;
    pub type SC = StarkConfig<ThePcs, Challenge, Challenger>;
    pub type RecVal = RecValMmcs<F, DIGEST_ELEMS, MyHash, MyCompress>;
    pub type RecExt = RecExtensionValMmcs<F, Challenge, DIGEST_ELEMS, RecVal>;
    pub type InputTargets = InputProofTargets<F, Challenge, RecVal>;
    pub type ProofTargetsT = FriProofTargets<F, Challenge, RecExt, InputTargets, Witness<F>>;
    pub type Proof = <ThePcs as Pcs<Challenge, Challenger>>::Proof;
    pub type InnerFri = Proof;

    pub fn default_perm() -> Perm {
        default_koalabear_poseidon2_16()
    }
    pub fn enable_perm(cb: &mut CircuitBuilder<Challenge>) {
        cb.enable_poseidon2_perm::<KoalaBearD4Width16, _>(
            generate_poseidon2_trace::<Challenge, KoalaBearD4Width16>,
            default_perm(),
        );
    }
    pub fn make_pcs(p: &Params) -> ThePcs {
        let perm = default_perm();
        let val_mmcs = MyMmcs::new(MyHash::new(perm.clone()), MyCompress::new(perm), p.cap_height);
        let fp = fri_params(p, ChallengeMmcs::new(val_mmcs.clone()));
        ThePcs::new(Dft::default(), val_mmcs, fp)
    }
    pub fn inner_fri(p: &Proof) -> &InnerFri {
        p
    }
    pub fn inner_fri_mut(p: &mut Proof) -> &mut InnerFri {
        p
    }
    pub fn rand_mut(_p: &mut Proof) -> Option<&mut Claimed> {
        None
    }
    pub fn set_private(
        r: &mut CircuitRunner<'_, Challenge>,
        ids: &[NonPrimitiveOpId],
        p: &Proof,
    ) -> Result<(), &'static str> {
        set_fri_mmcs_private_data::<F, Challenge, ChallengeMmcs, MyMmcs, MyHash, MyCompress, DIGEST_ELEMS>(
            r, ids, p, P2,
        )
    }
    include!("core.inc.rs");
}

/// KoalaBear, `HidingFriPcs` over *hiding* (salted) MMCSs — the configuration of
/// `recursion/tests/zk_hiding_mmcs.rs`.
mod kbh {
    use p3_poseidon2_circuit_air::KoalaBearD4Width16;
    pub use p3_test_utils::koala_bear_params::*;

    use super::*;

    pub const HIDING: bool = true;
    pub const SALT_ELEMS: usize = 4;
    pub const P2: Poseidon2Config = Poseidon2Config::KOALA_BEAR_D4_W16;
    pub type HidingValMmcs = MerkleTreeHidingMmcs<
        <F as Field>::Packing,
        <F as Field>::Packing,
        MyHash,
        MyCompress,
        SmallRng,
        2,
        DIGEST_ELEMS,
        SALT_ELEMS,
    >;
    pub type HidingChallengeMmcs = ExtensionMmcs<F, Challenge, HidingValMmcs>;
    pub type ThePcs = HidingFriPcs<F, Dft, HidingValMmcs, HidingChallengeMmcs, SmallRng>;
    pub type SC = StarkConfig<ThePcs, Challenge, Challenger>;
    pub type RecVal = RecValHidingMmcs<F, DIGEST_ELEMS, SALT_ELEMS, MyHash, MyCompress, SmallRng>;
    pub type RecExt = RecExtensionValMmcs<F, Challenge, DIGEST_ELEMS, RecVal>;
    pub type InputTargets = InputProofTargets<F, Challenge, RecVal>;
    pub type ProofTargetsT =
        HidingFriProofTargets<F, Challenge, RecExt, InputTargets, Witness<F>>;
    pub type Proof = <ThePcs as Pcs<Challenge, Challenger>>::Proof;
    pub type InnerFri =
        FriProof<Challenge, HidingChallengeMmcs, F, Vec<p3_commit::BatchOpening<F, HidingValMmcs>>>;

    pub fn default_perm() -> Perm {
        default_koalabear_poseidon2_16()
    }
    pub fn enable_perm(cb: &mut CircuitBuilder<Challenge>) {
        cb.enable_poseidon2_perm::<KoalaBearD4Width16, _>(
            generate_poseidon2_trace::<Challenge, KoalaBearD4Width16>,
            default_perm(),
        );
    }
    pub fn make_pcs(p: &Params) -> ThePcs {
        let perm = default_perm();
        let val_mmcs = HidingValMmcs::new(
            MyHash::new(perm.clone()),
            MyCompress::new(perm),
            p.cap_height,
            SmallRng::seed_from_u64(p.data_seed ^ 0x5a17),
        );
        let fp = fri_params(p, HidingChallengeMmcs::new(val_mmcs.clone()));
        ThePcs::new(Dft::default(), val_mmcs, fp, 2, SmallRng::seed_from_u64(p.data_seed ^ 0xc0de))
    }
    pub fn inner_fri(p: &Proof) -> &InnerFri {
        &p.1
    }
    pub fn inner_fri_mut(p: &mut Proof) -> &mut InnerFri {
        &mut p.1
    }
    pub fn rand_mut(p: &mut Proof) -> Option<&mut Claimed> {
        Some(&mut p.0)
    }
    pub fn set_private(
        r: &mut CircuitRunner<'_, Challenge>,
        ids: &[NonPrimitiveOpId],
        p: &Proof,
    ) -> Result<(), &'static str> {
        set_hiding_salted_fri_mmcs_private_data::<F, Challenge, HidingChallengeMmcs, HidingValMmcs, DIGEST_ELEMS>(
            r, ids, p, P2,
        )
    }
    include!("core.inc.rs");
}

/// KoalaBear, `HidingFriPcs` over plain (unsalted) MMCSs — the configuration of
/// `recursion/tests/fibonacci_batch_stark_prover_zk.rs`.
mod kbz {
    use p3_poseidon2_circuit_air::KoalaBearD4Width16;
    pub use p3_test_utils::koala_bear_params::*;

    use super::*;

    pub const HIDING: bool = true;
    pub const P2: Poseidon2Config = Poseidon2Config::KOALA_BEAR_D4_W16;
    pub type ThePcs = HidingFriPcs<F, Dft, MyMmcs, ChallengeMmcs, SmallRng>;
    pub type SC = StarkConfig<ThePcs, Challenge, Challenger>;
    pub type RecVal = RecValMmcs<F, DIGEST_ELEMS, MyHash, MyCompress>;
    pub type RecExt = RecExtensionValMmcs<F, Challenge, DIGEST_ELEMS, RecVal>;
    pub type InputTargets = InputProofTargets<F, Challenge, RecVal>;
    pub type ProofTargetsT =
        HidingFriProofTargets<F, Challenge, RecExt, InputTargets, Witness<F>>;
    pub type Proof = <ThePcs as Pcs<Challenge, Challenger>>::Proof;
    pub type InnerFri =
        FriProof<Challenge, ChallengeMmcs, F, Vec<p3_commit::BatchOpening<F, MyMmcs>>>;

    pub fn default_perm() -> Perm {
        default_koalabear_poseidon2_16()
    }
    pub fn enable_perm(cb: &mut CircuitBuilder<Challenge>) {
        cb.enable_poseidon2_perm::<KoalaBearD4Width16, _>(
            generate_poseidon2_trace::<Challenge, KoalaBearD4Width16>,
            default_perm(),
        );
    }
    pub fn make_pcs(p: &Params) -> ThePcs {
        let perm = default_perm();
        let val_mmcs = MyMmcs::new(MyHash::new(perm.clone()), MyCompress::new(perm), p.cap_height);
        let fp = fri_params(p, ChallengeMmcs::new(val_mmcs.clone()));
        ThePcs::new(Dft::default(), val_mmcs, fp, 2, SmallRng::seed_from_u64(p.data_seed ^ 0xc0de))
    }
    pub fn inner_fri(p: &Proof) -> &InnerFri {
        &p.1
    }
    pub fn inner_fri_mut(p: &mut Proof) -> &mut InnerFri {
        &mut p.1
    }
    pub fn rand_mut(p: &mut Proof) -> Option<&mut Claimed> {
        Some(&mut p.0)
    }
    pub fn set_private(
        r: &mut CircuitRunner<'_, Challenge>,
        ids: &[NonPrimitiveOpId],
        p: &Proof,
    ) -> Result<(), &'static str> {
        set_hiding_fri_mmcs_private_data::<F, Challenge, ChallengeMmcs, MyMmcs, MyHash, MyCompress, DIGEST_ELEMS>(
            r, ids, p, P2,
        )
    }
    include!("core.inc.rs");
}

macro_rules! dispatch {
    ($flavor:expr, $f:ident ( $($a:expr),* )) => {
        match $flavor {
            "bb" => bb::$f($($a),*),
            "kb" => kb::$f($($a),*),
            "kb-hiding-salted" => kbh::$f($($a),*),
            _ => kbz::$f($($a),*),
        }
    };
}

fn prepare(p: &Params) -> Prepared {
    dispatch!(p.flavor.as_str(), prepare(p))
}
fn sweep(prep: &Prepared, lo: usize, hi: usize, thorough: bool, seed: u64) -> SweepOut {
    dispatch!(prep.params.flavor.as_str(), sweep(prep, lo, hi, thorough, seed))
}
fn sweep_faults(prep: &Prepared, lo: usize, hi: usize) -> FaultOut {
    dispatch!(prep.params.flavor.as_str(), sweep_faults(prep, lo, hi))
}
fn sweep_struct(prep: &Prepared, lo: usize, hi: usize) -> StructOut {
    dispatch!(prep.params.flavor.as_str(), sweep_struct(prep, lo, hi))
}
fn sweep_sfaults(prep: &Prepared, lo: usize, hi: usize) -> StructOut {
    dispatch!(prep.params.flavor.as_str(), sweep_sfaults(prep, lo, hi))
}
fn replay_struct(p: &Params, m: &SMut) -> Result<SOutcome, String> {
    dispatch!(p.flavor.as_str(), replay_struct(p, m))
}
fn replay_sfault(p: &Params, f: &SFault) -> Result<SOutcome, String> {
    dispatch!(p.flavor.as_str(), replay_sfault(p, f))
}
fn replay_one(p: &Params, path: &[Seg], newv: u64) -> Result<(V, V), String> {
    dispatch!(p.flavor.as_str(), replay_one(p, path, newv))
}
fn replay_fault(p: &Params, f: &Value) -> Result<(String, V, V), String> {
    dispatch!(p.flavor.as_str(), replay_fault(p, f))
}

// ---------------------------------------------------------------------------------------------
// Grid
// ---------------------------------------------------------------------------------------------

#[allow(clippy::too_many_arguments)]
fn pt(
    flavor: &str,
    lb: usize,
    q: usize,
    a: usize,
    fp: usize,
    cp: usize,
    qp: usize,
    batches: Vec<Vec<MatSpec>>,
) -> Params {
    Params {
        flavor: flavor.into(),
        log_blowup: lb,
        num_queries: q,
        max_log_arity: a,
        log_final_poly_len: fp,
        commit_pow_bits: cp,
        query_pow_bits: qp,
        batches,
        data_seed: 0,
        cap_height: 0,
    }
}

fn capped(mut p: Params, cap: usize) -> Params {
    p.cap_height = cap;
    p
}

/// Hand-designed covering set: every value of every grid dimension occurs at least once.
/// Every commitment contains a matrix of the global maximum height except in the two probes at
/// the end (see `Prepared::finding`).
fn designed_grid(seed: u64) -> Vec<Params> {
    let mut g = vec![
        // tests/fri.rs-like: new_testing parameters, height-1 matrix, shared zeta (fast path)
        pt("bb", 2, 2, 1, 0, 1, 1, vec![
            vec![ms(0, 1, 1), ms(3, 2, 1), ms(5, 3, 1)],
            vec![ms(4, 2, 1), ms(5, 1, 1)],
        ]),
        // trace-like (zeta, zeta*g) openings, mixed arity schedule from the height gaps
        pt("bb", 1, 3, 2, 0, 0, 2, vec![vec![ms(6, 2, 3)], vec![ms(3, 3, 1), ms(6, 1, 1), ms(2, 1, 1)]]),
        // arity 8 with roll-ins between
        pt("kb", 1, 4, 3, 0, 0, 3, vec![vec![ms(6, 2, 1), ms(3, 2, 3)], vec![ms(5, 1, 2), ms(6, 1, 3)]]),
        // three single-matrix commitments, non-trivial final polynomial, a single query
        pt("bb", 3, 1, 1, 1, 2, 0, vec![vec![ms(5, 4, 1)], vec![ms(5, 1, 3)], vec![ms(5, 2, 2)]]),
        // four matrices in one commitment, two of the same height (shared-z Horner chain)
        pt("kb", 2, 2, 2, 2, 3, 1, vec![vec![ms(5, 2, 1), ms(5, 3, 1), ms(4, 1, 1), ms(3, 1, 1)]]),
        // 8 queries, final polynomial of length 8, arity 8
        pt("bb", 1, 8, 3, 3, 1, 2, vec![vec![ms(6, 1, 1)], vec![ms(5, 2, 1), ms(6, 1, 1)]]),
        // same height, distinct opening points (zeta vs zeta*g): per-matrix fallback path
        pt("kb", 2, 2, 3, 0, 0, 1, vec![vec![ms(6, 2, 1), ms(6, 1, 2)]]),
        // hiding PCS over salted MMCSs (new_testing_zk parameters)
        pt("kb-hiding-salted", 2, 2, 1, 0, 1, 1, vec![vec![ms(4, 3, 3)], vec![ms(4, 2, 1), ms(3, 1, 1)]]),
        // new_benchmark_high_arity parameters (circuit-prover/src/config.rs) with fewer queries
        pt("bb", 1, 4, 3, 0, 0, 16, vec![vec![ms(6, 3, 3)], vec![ms(6, 2, 1), ms(5, 2, 1)]]),
        // no proof of work at all, three commitments, a single query, height-1 and height-2 matrices
        pt("bb", 2, 1, 2, 0, 0, 0, vec![vec![ms(0, 1, 1), ms(4, 1, 3)], vec![ms(1, 2, 1), ms(4, 1, 1)], vec![ms(4, 1, 1)]]),
        pt("kb", 3, 3, 3, 2, 2, 3, vec![vec![ms(6, 2, 1), ms(3, 1, 1)]]),
        pt("kb", 1, 6, 1, 0, 3, 0, vec![vec![ms(3, 1, 1)], vec![ms(3, 1, 3)]]),
        pt("bb", 2, 7, 2, 3, 1, 1, vec![vec![ms(5, 1, 1), ms(4, 2, 1)]]),
        pt("bb", 2, 5, 2, 1, 0, 1, vec![vec![ms(2, 1, 1), ms(4, 1, 3)], vec![ms(3, 2, 1), ms(4, 2, 2)], vec![ms(4, 1, 1)]]),
        // hiding PCS over plain MMCSs, arity 4, final polynomial of length 2, a single query
        pt("kb-hiding", 1, 1, 2, 1, 0, 2, vec![vec![ms(5, 2, 3), ms(3, 1, 1)], vec![ms(4, 1, 2), ms(5, 1, 1)]]),
        // Merkle caps with several roots: cap 1 below every tree; cap 2 reaching the last commit-phase
        // layer (no sibling path left there: lb 1 + fp 0 -> final layer of height 2 <= cap); hiding + cap
        capped(pt("bb", 2, 2, 1, 0, 1, 1, vec![vec![ms(3, 2, 1), ms(5, 3, 3)], vec![ms(4, 2, 1), ms(5, 1, 1)]]), 1),
        capped(pt("kb", 1, 3, 2, 0, 0, 1, vec![vec![ms(6, 2, 3)], vec![ms(4, 3, 1), ms(6, 1, 1)]]), 2),
        capped(pt("kb-hiding-salted", 2, 2, 1, 0, 1, 1, vec![vec![ms(4, 3, 3)], vec![ms(4, 2, 1), ms(3, 1, 1)]]), 2),
        capped(pt("bb", 1, 2, 2, 1, 0, 0, vec![vec![ms(5, 1, 1), ms(3, 2, 1)]]), 3),
        // probe: a commitment whose tallest matrix is shorter than the global maximum height
        pt("bb", 1, 1, 1, 0, 0, 0, vec![vec![ms(2, 1, 1)], vec![ms(1, 1, 1)]]),
        // probe: only constant polynomials, i.e. an honest proof without any fold phase
        pt("bb", 1, 2, 1, 0, 1, 1, vec![vec![ms(0, 2, 1)]]),
    ];
    let n = g.len();
    for (i, p) in g.iter_mut().enumerate() {
        let mut rng = case_rng(seed, "c07-designed-grid", i as u64);
        p.data_seed = rng.random::<u64>();
        if i + 2 >= n {
            continue; // probes stay minimal
        }
        // seed-dependent variation that keeps the covering property: widths and one point set
        for b in p.batches.iter_mut() {
            for m in b.iter_mut() {
                if rng.random_range(0..3u32) == 0 {
                    m.width = 1 + (m.width + rng.random_range(0..3usize)) % 4;
                }
            }
        }
        if seed != 0 && rng.random_range(0..2u32) == 0 {
            let b = rng.random_range(0..p.batches.len());
            let m = rng.random_range(0..p.batches[b].len());
            p.batches[b][m].points = *pick(&mut rng, &[1u8, 2, 3]);
        }
    }
    g
}

fn random_point(seed: u64, idx: usize, big: bool) -> Params {
    let mut rng = case_rng(seed, "c07-grid", idx as u64);
    let lb = 1 + idx % 3;
    let a = 1 + (idx / 3) % 3;
    let fp = (idx / 9) % 4;
    let flavor = match idx % 10 {
        3 => "kb-hiding-salted",
        8 => "kb-hiding",
        x if x % 2 == 0 => "bb",
        _ => "kb",
    };
    let hiding = flavor.contains("hiding");
    let q = 1 + rng.random_range(0..8usize);
    let cp = rng.random_range(0..4usize);
    let qp = rng.random_range(0..4usize);
    let nb = 1 + rng.random_range(0..3usize);
    // smallest admissible committed domain: above the final polynomial length; the hiding PCS
    // halves the matrix height, so its domains have at least 2 points
    let min_ls = if fp > 0 { fp + 1 } else if hiding { 1 } else { 0 };
    let top = if big { 9 } else { 7 };
    let max_ls = (min_ls + 1 + rng.random_range(0..5usize)).min(top).max(min_ls + 1);
    let mut batches = vec![];
    let mut budget = 8usize; // bound on the total number of matrices
    for _ in 0..nb {
        let nm = (1 + rng.random_range(0..4usize)).min(budget.max(1));
        budget = budget.saturating_sub(nm);
        let mut b = vec![];
        for _ in 0..nm {
            let ls = rng.random_range(min_ls..=max_ls);
            let w = 1 + rng.random_range(0..4usize);
            let pts = *pick(&mut rng, &[1u8, 1, 1, 3, 3, 2]);
            b.push(ms(ls, w, pts));
        }
        batches.push(b);
    }
    // Every commitment gets a matrix of the global maximum height (the in-circuit verifier cannot
    // handle shorter commitments, see `Prepared::finding`); one point in 16 keeps a short one.
    let keep_short = idx % 16 == 11;
    for (bi, b) in batches.iter_mut().enumerate() {
        if bi == 0 || !keep_short {
            let k = rng.random_range(0..b.len());
            b[k].log_size = max_ls;
        }
    }
    let mut p = pt(flavor, lb, q, a, fp, cp, qp, batches);
    p.data_seed = rng.random::<u64>();
    // one point in four has a multi-root cap (the draw comes last so that the other dimensions of
    // the point do not depend on it)
    if idx % 4 == 2 {
        p.cap_height = 1 + rng.random_range(0..3usize);
    }
    p
}

fn quick_grid(seed: u64) -> Vec<Params> {
    let mut g = designed_grid(seed);
    for i in 0..QUICK_RANDOM_POINTS {
        g.push(random_point(seed, i, false));
    }
    g
}

fn thorough_grid(seed: u64) -> Vec<Params> {
    let mut g = designed_grid(seed);
    for i in 0..THOROUGH_RANDOM_POINTS {
        g.push(random_point(seed ^ 0x7407, i, i % 7 == 0));
    }
    // The literal new_benchmark_high_arity parameter set (100 queries, 16 query PoW bits).
    let mut p = pt("kb", 1, 100, 3, 0, 0, 16, vec![vec![ms(5, 2, 3)], vec![ms(3, 1, 1), ms(5, 1, 1)]]);
    p.data_seed = seed ^ 0xbe7c;
    g.push(p);
    g
}

const QUICK_RANDOM_POINTS: usize = 36;
/// Quick tier: structural mutants per (parameter point, path class, operation).
const QUICK_STRUCT_PER_CLASS: usize = 16;
const STRUCT_CHUNK: usize = 40;
const THOROUGH_RANDOM_POINTS: usize = 720;

// ---------------------------------------------------------------------------------------------
// Driver
// ---------------------------------------------------------------------------------------------

fn par_map<T: Sync, R: Send>(items: &[T], threads: usize, f: impl Fn(&T) -> R + Sync) -> Vec<R> {
    let next = std::sync::atomic::AtomicUsize::new(0);
    let out: Mutex<Vec<(usize, R)>> = Mutex::new(vec![]);
    std::thread::scope(|s| {
        for _ in 0..threads.max(1) {
            s.spawn(|| {
                loop {
                    let i = next.fetch_add(1, std::sync::atomic::Ordering::Relaxed);
                    if i >= items.len() {
                        break;
                    }
                    let r = f(&items[i]);
                    out.lock().unwrap().push((i, r));
                }
            });
        }
    });
    let mut v = out.into_inner().unwrap();
    v.sort_by_key(|(i, _)| *i);
    v.into_iter().map(|(_, r)| r).collect()
}

impl Prepared {
    /// Known trigger conditions of honest-stage disagreements get one precise signature each
    /// (independent of field / arity schedule).
    fn finding(&self) -> Option<&'static str> {
        let max_ls = self.params.batches.iter().flatten().map(|m| m.log_size).max().unwrap_or(0);
        if self.log_arities.is_empty() {
            // only constant polynomials with log_final_poly_len = 0: the native proof has zero
            // commit phases, verify_fri_circuit demands at least one
            Some("no-fold-phase")
        } else if self
            .params
            .batches
            .iter()
            .any(|b| b.iter().map(|m| m.log_size).max().unwrap_or(0) < max_ls)
        {
            // open_input passes all log_global_max_height index bits to the batch MMCS
            // verification instead of the index reduced to the commitment's own height
            Some("commitment-shorter-than-global-max-height")
        } else {
            None
        }
    }
}

impl Prepared {
    /// Signature of the honest-stage disagreement of this parameter point, if any. Disagreeing
    /// mutants of such a point are consequences of it and carry the same signature.
    fn honest_finding(&self) -> Option<String> {
        match &self.honest {
            Honest::Verdicts(n, c) if n.accepts() != c.accepts() => {
                let dir = if c.accepts() { "soundness" } else { "completeness" };
                Some(match self.finding() {
                    Some(f) => format!("{dir}/honest-proof/{f}"),
                    None => {
                        let why = match if c.accepts() { n } else { c } {
                            V::Reject(e) => e.clone(),
                            V::Panic(p) => format!("panic {p}"),
                            V::Accept => String::new(),
                        };
                        format!("{dir}/honest-proof/{why}/{}", self.param_class())
                    }
                })
            }
            _ => None,
        }
    }
}

fn violation_detail(prep: &Prepared, kind: &str, extra: Value, n: &V, c: &V) -> Value {
    json!({
        "params": prep.params,
        "param_key": prep.key,
        "log_arities": prep.log_arities,
        "kind": kind,
        "case": extra,
        "native": n.text(),
        "circuit": c.text(),
    })
}

fn verdict_counters(mut r: CaseResult, n: &V, c: &V) -> CaseResult {
    if let V::Panic(site) = n {
        r = r.count(format!("native-panic/{site}"), 1);
    }
    if let V::Panic(site) = c {
        r = r.count(format!("circuit-panic/{site}"), 1);
    }
    if let V::Reject(e) = n {
        r = r.count(format!("native-reject/{e}"), 1);
    }
    if let V::Reject(e) = c {
        r = r.count(format!("circuit-reject/{e}"), 1);
    }
    r
}

fn judge(prep: &Prepared, path: &[Seg], o: &Outcome) -> CaseResult {
    let class = path_text(path, true, &prep.params.flavor);
    let full = path_text(path, false, &prep.params.flavor);
    let key = format!("{:x}|{}|{}", fnv(&prep.key), o.leaf, if o.kind == "replay" { full.as_str() } else { "" });
    let (n, c) = (o.native.accepts(), o.circuit.accepts());
    let r = if n == c {
        CaseResult::held(key, true)
            .count(if n { "agree/both-accept" } else { "agree/both-reject" }, 1)
    } else {
        let dir = if c { "soundness" } else { "completeness" };
        let sig = match prep.honest_finding() {
            Some(f) => f,
            None => format!("{dir}/{class}/{}", prep.param_class()),
        };
        CaseResult::violated(
            key,
            sig,
            violation_detail(
                prep,
                "mutant",
                json!({"path": path, "path_text": full, "mutation": {"kind": o.kind, "old": o.old, "new": o.new}}),
                &o.native,
                &o.circuit,
            ),
        )
    };
    let r = r.count(format!("mutants/{class}"), 1).count(format!("mutation/{}", o.kind), 1);
    verdict_counters(r, &o.native, &o.circuit)
}

fn judge_fault(prep: &Prepared, o: &FaultOutcome) -> CaseResult {
    let key = format!("{:x}|prover-fault/{}", fnv(&prep.key), o.fault);
    let (n, c) = (o.native.accepts(), o.circuit.accepts());
    let r = if n == c {
        CaseResult::held(key, true)
            .count(if n { "agree/both-accept" } else { "agree/both-reject" }, 1)
    } else {
        let dir = if c { "soundness" } else { "completeness" };
        let sig = match prep.honest_finding() {
            Some(f) => f,
            None => format!("{dir}/prover-fault:{}/{}", o.class, prep.param_class()),
        };
        CaseResult::violated(
            key,
            sig,
            violation_detail(prep, "prover-fault", json!({"fault": o.fault, "class": o.class}), &o.native, &o.circuit),
        )
    };
    // which native check caught the fault (a transcript-consistent fault must not be caught by an
    // input Merkle opening)
    let r = r
        .count(format!("prover-faults/{}", o.class), 1)
        .count(format!("prover-faults/{}/native:{}", o.class, o.native.text()), 1);
    verdict_counters(r, &o.native, &o.circuit)
}

/// Oracle of the structural sweep (document mutants and structural prover faults): agreement of
/// the native verdict with the verdict of the circuit rebuilt for the mutant. A panic of the
/// circuit builder / runner is a reject here (C15 owns "no panic") and is counted.
fn judge_struct(prep: &Prepared, class: &str, case_id: &str, kind: &str, case: Value, o: &SOutcome) -> CaseResult {
    let flavor = &prep.params.flavor;
    let key = format!("{:x}|S|{case_id}", fnv(&prep.key));
    let (n, c) = (o.native.accepts(), o.circuit.accepts());
    let pre = format!("structural/{flavor}/{class}");
    let r = if n == c {
        CaseResult::held(key, true)
            .count(if n { "structural/agree/both-accept" } else { "structural/agree/both-reject" }, 1)
            .count(format!("{pre}/{}", if n { "both-accept" } else { "native-reject+circuit-reject" }), 1)
    } else {
        let dir = if c { "circuit-accepts-native-rejects" } else { "circuit-rejects-native-accepts" };
        let sig = match prep.honest_finding() {
            Some(f) => f,
            None => format!("structural/{dir}/{flavor}/{class}"),
        };
        CaseResult::violated(key, sig, violation_detail(prep, kind, case, &o.native, &o.circuit))
            .count(format!("{pre}/{dir}"), 1)
    };
    let mut r = r.count(format!("{pre}/deserialised"), 1).count(format!("structural/circuit-verdict-from/{}", o.stage), 1);
    if o.stage == "build-panic" {
        r = r.count(format!("{pre}/builder-panic"), 1);
        if let V::Panic(site) = &o.circuit {
            r = r.count(format!("structural/builder-panic-site/{site}"), 1);
        }
    }
    if let V::Reject(e) = &o.native {
        r = r.count(format!("structural/native-reject/{e}"), 1);
    }
    if let V::Panic(site) = &o.native {
        r = r.count(format!("structural/native-panic/{site}"), 1);
    }
    if let V::Reject(e) = &o.circuit {
        r = r.count(format!("structural/circuit-reject/{e}"), 1);
    }
    r
}

fn smut_case(prep: &Prepared, m: &SMut) -> (String, String, Value) {
    let flavor = &prep.params.flavor;
    let class = path_text(&m.path, true, flavor);
    let full = path_text(&m.path, false, flavor);
    let id = format!("{full}|{}", m.op.name());
    let case = json!({"path": m.path, "path_text": full, "op": m.op.name()});
    (class, id, case)
}

/// Verdict on the honest stage of one parameter point (None = fine, go on with the sweep).
fn honest_result(prep: &Prepared) -> Option<CaseResult> {
    match &prep.honest {
        Honest::Verdicts(V::Accept, V::Accept) => None,
        Honest::Verdicts(n, c) if n.accepts() != c.accepts() => {
            let sig = prep.honest_finding().unwrap();
            Some(CaseResult::violated(
                format!("{}|honest", prep.key),
                sig,
                violation_detail(prep, "honest", Value::Null, n, c),
            ))
        }
        Honest::Verdicts(n, _) => Some(CaseResult::inconclusive(
            prep.key.clone(),
            format!("honest proof rejected by both verifiers: {}", n.text()),
        )),
        Honest::ProverFailed(p) => Some(CaseResult::inconclusive(
            prep.key.clone(),
            format!("native prover cannot realise the shape: {p}"),
        )),
        Honest::Harness(e) => Some(CaseResult::inconclusive(prep.key.clone(), format!("harness: {e}"))),
        Honest::NotRun => Some(CaseResult::inconclusive(prep.key.clone(), "not run")),
    }
}

fn replay(path: &std::path::Path) -> Vec<CaseResult> {
    let v: Value = serde_json::from_str(&std::fs::read_to_string(path).expect("replay file")).unwrap();
    let d = &v["detail"];
    let params: Params = serde_json::from_value(d["params"].clone()).expect("params");
    let prep = prepare(&params);
    println!(
        "replay: {} honest: {:?} log_arities {:?}",
        prep.key, prep.honest, prep.log_arities
    );
    match d["kind"].as_str() {
        Some("honest") => {
            vec![honest_result(&prep).unwrap_or_else(|| CaseResult::held("replay", true))]
        }
        Some("structural") => {
            let segs: Vec<Seg> = serde_json::from_value(d["case"]["path"].clone()).expect("path");
            let op = SOp::from_name(d["case"]["op"].as_str().unwrap_or("")).expect("op");
            let m = SMut { path: segs, op };
            match replay_struct(&params, &m) {
                Ok(o) => {
                    println!("replay: native={} circuit={} (circuit verdict from: {})", o.native.text(), o.circuit.text(), o.stage);
                    let (class, id, case) = smut_case(&prep, &m);
                    vec![judge_struct(&prep, &class, &id, "structural", case, &o)]
                }
                Err(e) => vec![CaseResult::inconclusive("replay", e)],
            }
        }
        Some("structural-prover-fault") => {
            let f: SFault = serde_json::from_value(d["case"]["fault"].clone()).expect("fault");
            match replay_sfault(&params, &f) {
                Ok(o) => {
                    println!("replay: native={} circuit={} (circuit verdict from: {})", o.native.text(), o.circuit.text(), o.stage);
                    let class = f.class(params.flavor.contains("hiding"));
                    vec![judge_struct(&prep, &class, &json!(f).to_string(), "structural-prover-fault", json!({"fault": f}), &o)]
                }
                Err(e) => vec![CaseResult::inconclusive("replay", e)],
            }
        }
        Some("prover-fault") => match replay_fault(&params, &d["case"]["fault"]) {
            Ok((class, n, c)) => {
                println!("replay: native={} circuit={}", n.text(), c.text());
                let o = FaultOutcome { index: 0, fault: d["case"]["fault"].clone(), class, native: n, circuit: c };
                vec![judge_fault(&prep, &o)]
            }
            Err(e) => vec![CaseResult::inconclusive("replay", e)],
        },
        _ => {
            let segs: Vec<Seg> = serde_json::from_value(d["case"]["path"].clone()).expect("path");
            let m = &d["case"]["mutation"];
            let newv = m["new"].as_u64().expect("mutation.new");
            match replay_one(&params, &segs, newv) {
                Ok((n, c)) => {
                    println!("replay: native={} circuit={}", n.text(), c.text());
                    let o = Outcome { leaf: 0, kind: "replay", old: m["old"].as_u64().unwrap_or(0), new: newv, native: n, circuit: c };
                    vec![judge(&prep, &segs, &o)]
                }
                Err(e) => vec![CaseResult::inconclusive("replay", e)],
            }
        }
    }
}

#[derive(Clone, Copy)]
enum Task {
    Leaves(usize, usize, usize),
    Faults(usize, usize, usize),
    Struct(usize, usize, usize),
    SFaults(usize, usize, usize),
}

fn main() {
    let args = parse_args();
    let mut rep = Report::new(
        "C07",
        "fault_enumeration",
        &args,
        "case = (a) one single-element mutant (numeric JSON leaf of commitments / claimed evaluations / \
         opening proof: +1, and a random canonical value in the thorough tier) of an honest native FRI \
         PCS opening at one parameter point, or (b) one fault injected inside the native prover (claimed \
         evaluation / final-polynomial coefficient shifted, PoW witness not ground) so that transcript and \
         Merkle openings stay consistent; native Pcs::verify verdict vs verdict of the in-circuit verifier \
         compiled for the honest shape (rebuilt from the mutant for log_arity leaves), or (c) one structural \
         mutant of the same document (every array node of proof and claims, all depths: drop-last, drop-first, \
         duplicate-last, empty, swap-first-two; array/object -> null and null -> []/0 for optional nodes; the \
         nesting of the claims changes the statement's rounds/matrices/points alike; thorough tier: all nodes, \
         quick tier: first/last/one seeded node per path class and operation) or (d) one structural fault \
         inside the native prover (a point of a matrix not opened / one point too many opened / rows, a matrix or \
         a round of random-codeword openings left out, with the transcript edited to be the one the verifier \
         derives from its view), each judged by native verdict vs verdict of the circuit REBUILT for the mutant \
         (builder error or panic = reject); non-trivial = both verdicts were obtained; distinct by (parameter \
         point, leaf path | fault | node path + operation)",
    );
    rep.assume("p3-fri 0.6.3 native prover/verifier is the reference (oracle is agreement, not absolute correctness)");
    rep.assume("the pre-PCS transcript (honest commitments observed, zeta sampled) is identical and un-mutated on both sides; opening points are zeta and zeta*g");
    rep.assume("structural mutants of the claims' nesting (rounds / matrices / points) change the statement's nesting in the same way on both sides, because both verifier interfaces take points and claimed values zipped; the in-circuit transcript observes, per claimed point, the claimed values and then that point's row of random-codeword openings if the proof has one (the walk of verifier/batch_stark.rs observe_opened_values_circuit)");
    rep.assume("circuit accept = CircuitRunner::run Ok with the repo's packing (Recursive::get_values/get_private_values, set_*fri_mmcs_private_data); a panic on either side counts as reject and is recorded");
    if let Some(p) = &args.replay {
        let rs = replay(p);
        rep.add_all(rs);
        rep.finish(0);
    }
    let thorough = args.tier == Tier::Thorough;
    let mut grid = if thorough { thorough_grid(args.seed) } else { quick_grid(args.seed) };
    if let Some(only) = args.extra.get("only").and_then(|s| s.parse::<usize>().ok()) {
        grid = vec![grid[only].clone()];
    }
    if let Some(f) = args.extra.get("params") {
        let p: Params = serde_json::from_str(&std::fs::read_to_string(f).expect("params file")).expect("params json");
        grid = vec![p];
    }

    // Stage 1: honest proofs, native check, circuit build + run.
    let no_struct = args.extra.contains_key("no-structural");
    let struct_only = args.extra.contains_key("structural-only");
    let per_class: usize = args.extra.get("struct-per-class").and_then(|s| s.parse().ok()).unwrap_or(QUICK_STRUCT_PER_CLASS);
    let seed0 = args.seed;
    let prepared: Vec<Prepared> = par_map(&grid, args.threads, |p| {
        match guarded(|| prepare(p)) {
            Ok(mut x) => {
                if !no_struct && matches!(&x.honest, Honest::Verdicts(V::Accept, _)) {
                    let all = structural_mutants(&x.doc);
                    x.smuts_total = all.len();
                    x.smuts = if thorough {
                        all
                    } else {
                        let mut rng = case_rng(seed0, "c07-struct-sample", fnv(&x.key));
                        sample_structural(all, &p.flavor, &mut rng, per_class)
                    };
                    x.sfaults = structural_faults(p);
                }
                x
            }
            Err(e) => {
                let mut x = Prepared::empty(p);
                x.honest = Honest::Harness(format!("panic {}", panic_site(&e)));
                x
            }
        }
    });
    let mut tasks: Vec<Task> = vec![];
    let mut samples = 0;
    for (gi, prep) in prepared.iter().enumerate() {
        let p = &prep.params;
        rep.observe("parameter_points", prep.key.clone());
        rep.observe("flavors", p.flavor.clone());
        rep.observe("arity_schedules", format!("{:?}", prep.log_arities));
        rep.observe("log_blowup", p.log_blowup.to_string());
        rep.observe("num_queries", p.num_queries.to_string());
        rep.observe("max_log_arity", p.max_log_arity.to_string());
        rep.observe("log_final_poly_len", p.log_final_poly_len.to_string());
        rep.observe("pow_bits(commit,query)", format!("{},{}", p.commit_pow_bits, p.query_pow_bits));
        rep.observe("batch_shapes(matrices per commitment)", format!("{:?}", p.batches.iter().map(|b| b.len()).collect::<Vec<_>>()));
        rep.observe("opening_point_sets(1=zeta,2=zeta*g,3=both)", format!("{:?}", p.batches.iter().flatten().map(|m| m.points).collect::<std::collections::BTreeSet<_>>()));
        let hr = honest_result(prep);
        let native_ok = matches!(&prep.honest, Honest::Verdicts(V::Accept, _));
        if hr.is_none() {
            rep.bump("honest/native-accept+circuit-accept", 1);
        }
        if let Some(r) = hr {
            rep.add(r);
        }
        let tasks_before = tasks.len();
        if native_ok {
            // (also for points whose honest proof the circuit rejects: the mutants are still
            // compared; disagreements there carry the signature of the honest-stage finding)
            for l in &prep.leaves {
                rep.observe("leaf_path_classes", path_text(l, true, &p.flavor));
            }
            // Circuits are not Send: every task rebuilds the circuit for its shape, so chunks
            // are sized to make the rebuild negligible.
            let per_mutant_us = (prep.run_us + prep.native_us).max(300) * if thorough { 2 } else { 1 };
            let target_us = 400_000u64.max(prep.build_ms * 1000 * 8);
            let chunk = ((target_us / per_mutant_us) as usize).clamp(32, 6000);
            let n = prep.leaves.len();
            let mut lo = 0;
            while lo < n {
                tasks.push(Task::Leaves(gi, lo, (lo + chunk).min(n)));
                lo += chunk;
            }
            let fchunk = (chunk / 8).max(8);
            let mut lo = 0;
            while lo < prep.n_faults {
                tasks.push(Task::Faults(gi, lo, (lo + fchunk).min(prep.n_faults)));
                lo += fchunk;
            }
            if struct_only {
                tasks.truncate(tasks_before);
            }
            for m in &prep.smuts {
                rep.observe("structural_path_classes", format!("{}:{}", if p.flavor.contains("hiding") { p.flavor.as_str() } else { "plain" }, path_text(&m.path, true, &p.flavor)));
            }
            let mut lo = 0;
            while lo < prep.smuts.len() {
                tasks.push(Task::Struct(gi, lo, (lo + STRUCT_CHUNK).min(prep.smuts.len())));
                lo += STRUCT_CHUNK;
            }
            if !prep.sfaults.is_empty() {
                tasks.push(Task::SFaults(gi, 0, prep.sfaults.len()));
            }
        }
        if samples < 5 && matches!(prep.honest, Honest::Verdicts(V::Accept, V::Accept)) && gi % 3 == 1 {
            samples += 1;
            rep.add_sample(json!({"params": prep.params, "log_arities": prep.log_arities,
                "leaves": prep.leaves.len(), "prover_faults": prep.n_faults, "circuit_ops": prep.n_ops, "mmcs_ops": prep.n_mmcs_ops,
                "example_leaf_paths": prep.leaves.iter().step_by((prep.leaves.len() / 6).max(1)).map(|l| path_text(l, false, &p.flavor)).collect::<Vec<_>>()}));
        }
    }
    if args.extra.contains_key("honest-only") {
        if let Some(i) = args.extra.get("dump").and_then(|s| s.parse::<usize>().ok()) {
            println!("{}", serde_json::to_string(&prepared[i].doc).unwrap());
        }
        for p in &prepared {
            println!("{} leaves={} faults={} arities={:?} ops={} build={}ms run={}us native={}us honest={:?}", p.key, p.leaves.len(), p.n_faults, p.log_arities, p.n_ops, p.build_ms, p.run_us, p.native_us, p.honest);
        }
        rep.finish(0);
    }
    // longest tasks first
    let cost = |t: &Task| -> u64 {
        match *t {
            Task::Leaves(gi, lo, hi) => (hi - lo) as u64 * (prepared[gi].run_us + prepared[gi].native_us).max(300),
            Task::Faults(gi, lo, hi) => (hi - lo) as u64 * (prepared[gi].run_us + prepared[gi].native_us + 3000),
            // circuit rebuilt per mutant (about half of the mutants do not deserialise)
            Task::Struct(gi, lo, hi) => (hi - lo) as u64 * (prepared[gi].run_us + prepared[gi].native_us + prepared[gi].n_ops as u64 * 2) / 2,
            Task::SFaults(gi, lo, hi) => (hi - lo) as u64 * (prepared[gi].run_us + prepared[gi].native_us + prepared[gi].n_ops as u64 * 2 + 3000),
        }
    };
    tasks.sort_by_key(|t| std::cmp::Reverse(cost(t)));

    // Stage 2: the sweeps.
    let seed = args.seed;
    #[derive(Default, Clone)]
    struct Stat {
        mutated: u64,
        deser: u64,
        faults_run: u64,
        faults_not_landed: u64,
        s_done: u64,
        s_deser: u64,
        s_noop: u64,
        sf_run: u64,
        sf_not_landed: u64,
        err: Option<String>,
    }
    let stats: Mutex<BTreeMap<usize, Stat>> = Mutex::new(BTreeMap::new());
    let rep_m = Mutex::new(rep);
    let results = run_cases(tasks.len(), args.threads, |ti| {
        let mut rs = vec![];
        match tasks[ti] {
            Task::Leaves(gi, lo, hi) => {
                let prep = &prepared[gi];
                let out = sweep(prep, lo, hi, thorough, seed);
                for o in &out.outcomes {
                    rs.push(judge(prep, &prep.leaves[o.leaf], o));
                }
                if let Some(e) = &out.harness_error {
                    rs.push(CaseResult::inconclusive(format!("{}|chunk{lo}", prep.key), format!("harness: {e}")));
                }
                let mut st = stats.lock().unwrap();
                let e = st.entry(gi).or_default();
                e.mutated += out.leaves_mutated;
                e.deser += out.deser_fail;
                if out.harness_error.is_some() {
                    e.err = out.harness_error.clone();
                }
            }
            Task::Faults(gi, lo, hi) => {
                let prep = &prepared[gi];
                let out = sweep_faults(prep, lo, hi);
                for o in &out.outcomes {
                    rs.push(judge_fault(prep, o));
                }
                if let Some(e) = &out.harness_error {
                    rs.push(CaseResult::inconclusive(format!("{}|faults{lo}", prep.key), format!("harness: {e}")));
                }
                let mut st = stats.lock().unwrap();
                let e = st.entry(gi).or_default();
                e.faults_run += out.outcomes.len() as u64;
                e.faults_not_landed += out.not_landed;
                if out.harness_error.is_some() {
                    e.err = out.harness_error.clone();
                }
            }
            Task::Struct(gi, lo, hi) => {
                let prep = &prepared[gi];
                let out = sweep_struct(prep, lo, hi);
                let flavor = &prep.params.flavor;
                for o in &out.outcomes {
                    let m = &prep.smuts[o.idx];
                    let (class, id, case) = smut_case(prep, m);
                    rs.push(judge_struct(prep, &class, &id, "structural", case, o).count(format!("structural/op/{}", m.op.name()), 1));
                }
                if let Some(e) = &out.harness_error {
                    rs.push(CaseResult::inconclusive(format!("{}|struct{lo}", prep.key), format!("harness: {e}")));
                }
                {
                    let mut rep = rep_m.lock().unwrap();
                    for i in lo..hi {
                        let class = path_text(&prep.smuts[i].path, true, flavor);
                        rep.bump(&format!("structural/{flavor}/{class}/enumerated"), 1);
                    }
                    for i in &out.deser_fail {
                        let class = path_text(&prep.smuts[*i].path, true, flavor);
                        rep.bump(&format!("structural/{flavor}/{class}/not-deserialisable"), 1);
                        rep.bump(&format!("structural/not-deserialisable/op/{}", prep.smuts[*i].op.name()), 1);
                    }
                }
                let mut st = stats.lock().unwrap();
                let e = st.entry(gi).or_default();
                e.s_done += out.outcomes.len() as u64;
                e.s_deser += out.deser_fail.len() as u64;
                e.s_noop += out.noop.len() as u64;
                if out.harness_error.is_some() {
                    e.err = out.harness_error.clone();
                }
            }
            Task::SFaults(gi, lo, hi) => {
                let prep = &prepared[gi];
                let out = sweep_sfaults(prep, lo, hi);
                let hiding = prep.params.flavor.contains("hiding");
                for o in &out.outcomes {
                    let f = &prep.sfaults[o.idx];
                    let class = f.class(hiding);
                    rs.push(
                        judge_struct(prep, &class, &json!(f).to_string(), "structural-prover-fault", json!({"fault": f}), o)
                            .count(format!("structural/{}/{class}/enumerated", prep.params.flavor), 1)
                            .count(format!("structural/prover-faults/native:{}", o.native.text()), 1),
                    );
                }
                if let Some(e) = &out.harness_error {
                    rs.push(CaseResult::inconclusive(format!("{}|sfaults{lo}", prep.key), format!("harness: {e}")));
                }
                let mut st = stats.lock().unwrap();
                let e = st.entry(gi).or_default();
                e.sf_run += out.outcomes.len() as u64;
                e.sf_not_landed += out.not_landed;
                if out.harness_error.is_some() {
                    e.err = out.harness_error.clone();
                }
            }
        }
        // stream into the report (bounded memory in the thorough tier)
        rep_m.lock().unwrap().add_all(rs);
        vec![]
    });
    let mut rep = rep_m.into_inner().unwrap();
    rep.add_all(results);
    let stats = stats.into_inner().unwrap();
    let mut all_exhaustive = !prepared.is_empty();
    let mut shapes = vec![];
    for (gi, prep) in prepared.iter().enumerate() {
        let st = stats.get(&gi).cloned().unwrap_or_default();
        let swept = matches!(&prep.honest, Honest::Verdicts(V::Accept, _));
        let struct_exhaustive = prep.smuts.len() == prep.smuts_total
            && (st.s_done + st.s_deser + st.s_noop) as usize == prep.smuts_total
            && (st.sf_run + st.sf_not_landed) as usize == prep.sfaults.len();
        let exhaustive = swept
            && st.err.is_none()
            && (struct_only || st.mutated as usize == prep.leaves.len())
            && (struct_only || (st.faults_run + st.faults_not_landed) as usize == prep.n_faults)
            && (no_struct || !thorough || struct_exhaustive);
        all_exhaustive &= exhaustive;
        rep.bump("mutants-skipped/deserialisation-failed", st.deser);
        rep.bump("leaves/total", prep.leaves.len() as u64);
        rep.bump("leaves/mutated-at-least-once", st.mutated);
        rep.bump("prover-faults/total", prep.n_faults as u64);
        rep.bump("prover-faults/executed", st.faults_run);
        rep.bump("prover-faults/not-landed", st.faults_not_landed);
        rep.bump("structural/mutants/enumerated-in-document", prep.smuts_total as u64);
        rep.bump("structural/mutants/selected", prep.smuts.len() as u64);
        rep.bump("structural/mutants/deserialised(both-verdicts-obtained)", st.s_done);
        rep.bump("structural/mutants/not-deserialisable", st.s_deser);
        rep.bump("structural/mutants/no-change", st.s_noop);
        rep.bump("structural/prover-faults/total", prep.sfaults.len() as u64);
        rep.bump("structural/prover-faults/executed", st.sf_run);
        rep.bump("structural/prover-faults/not-landed", st.sf_not_landed);
        shapes.push(json!({"param_point": prep.key, "log_arities": prep.log_arities, "leaves": prep.leaves.len(),
            "leaves_mutated": st.mutated, "deser_failed_mutants": st.deser, "prover_faults": prep.n_faults,
            "prover_faults_executed": st.faults_run, "swept": swept, "exhaustive": exhaustive,
            "structural_mutants_in_document": prep.smuts_total, "structural_mutants_selected": prep.smuts.len(),
            "structural_mutants_judged": st.s_done, "structural_mutants_not_deserialisable": st.s_deser,
            "structural_prover_faults": prep.sfaults.len(), "structural_prover_faults_executed": st.sf_run,
            "circuit_ops": prep.n_ops, "honest_run_us": prep.run_us, "build_ms": prep.build_ms}));
    }
    if shapes.len() > 120 {
        let total = shapes.len();
        let not_exh: Vec<Value> = shapes.iter().filter(|s| s["exhaustive"] != json!(true)).cloned().collect();
        shapes.truncate(100);
        rep.set_extra("shapes_total", json!(total));
        rep.set_extra("shapes_not_exhaustive", json!(not_exh));
    }
    rep.set_extra("shapes", json!(shapes));
    // exhaustive = every leaf of every swept proof mutated at least once and every prover fault run;
    // parameter points whose honest stage already disagrees are reported as violations, not swept
    rep.set_exhaustive(all_exhaustive);
    let min = if args.extra.contains_key("only") || args.extra.contains_key("params") { 1 } else { args.tier.pick(20_000, 600_000) };
    rep.finish(min);
}
