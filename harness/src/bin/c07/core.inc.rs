// Flavor-generic body of the C07 monitor. `include!`d into one module per (field, PCS) flavor.
//
// The including module provides: `F, Challenge, Perm, Challenger, Dft, DIGEST_ELEMS, WIDTH, RATE`
// (from `p3_test_utils::*_params`), `ThePcs, SC, Proof, ProofTargetsT, InputTargets, P2, FLAVOR,
// HIDING`, and the functions `default_perm, enable_perm, make_pcs, inner_fri, set_private`.

pub type Com = <ThePcs as Pcs<Challenge, Challenger>>::Commitment;
pub type Domain = TwoAdicMultiplicativeCoset<F>;
pub type ComT = MerkleCapTargets<F, DIGEST_ELEMS>;
pub type Claimed = Vec<Vec<Vec<Vec<Challenge>>>>;

/// The typed PCS-verification input: commitments, claimed evaluations, opening proof.
pub struct Typed {
    pub coms: Vec<Com>,
    pub claimed: Claimed,
    pub proof: Proof,
}

pub fn parse(doc: &Value) -> Result<Typed, String> {
    use serde::Deserialize;
    Ok(Typed {
        coms: Vec::<Com>::deserialize(&doc["commitments"]).map_err(|e| e.to_string())?,
        claimed: Claimed::deserialize(&doc["claimed"]).map_err(|e| e.to_string())?,
        proof: Proof::deserialize(&doc["opening_proof"]).map_err(|e| e.to_string())?,
    })
}

/// One matrix of the statement: its domain and the kinds of its opening points
/// (0 = zeta, 1 = zeta * g with g the generator of the matrix domain).
#[derive(Clone)]
pub struct StmtMat {
    pub domain: Domain,
    pub log_size: usize,
    pub kinds: Vec<u8>,
}

/// The statement minus commitments and claimed values: per round, per matrix, the domain and the
/// opening points. The honest statement comes from the parameter point; structural mutants of the
/// claims (`claimed` rounds / matrices / points) carry the same structural change here, because the
/// verifier interfaces take the points and the claimed values zipped.
pub type Stmt = Vec<Vec<StmtMat>>;

pub fn kinds_of(s: &MatSpec) -> Vec<u8> {
    let mut v = vec![];
    if s.points & 1 != 0 {
        v.push(0);
    }
    if s.points & 2 != 0 {
        v.push(1);
    }
    v
}

fn point_of_kind(zeta: Challenge, d: &Domain, kind: u8) -> Challenge {
    if kind == 0 { zeta } else { zeta * d.subgroup_generator() }
}

/// Does the typed document have the nesting the statement has (rounds, matrices, points)?
pub fn stmt_matches(stmt: &Stmt, t: &Typed) -> bool {
    stmt.len() == t.coms.len()
        && stmt.len() == t.claimed.len()
        && stmt.iter().zip(&t.claimed).all(|(sb, cb)| {
            sb.len() == cb.len() && sb.iter().zip(cb).all(|(sm, cm)| sm.kinds.len() == cm.len())
        })
}

/// Everything that is fixed for one parameter point (never mutated).
pub struct Ctx {
    pub params: Params,
    pub pcs: ThePcs,
    /// Honest commitments: the transcript prefix that puts the challenger in its pre-PCS state.
    pub ctx_coms: Vec<Com>,
    pub zeta: Challenge,
    /// The honest statement.
    pub stmt: Stmt,
}

fn domain_of(pcs: &ThePcs, s: &MatSpec) -> Domain {
    <ThePcs as Pcs<Challenge, Challenger>>::natural_domain_for_degree(pcs, 1usize << s.log_size)
}

fn points_of(zeta: Challenge, d: &Domain, s: &MatSpec) -> Vec<Challenge> {
    let g: F = d.subgroup_generator();
    let mut v = vec![];
    if s.points & 1 != 0 {
        v.push(zeta);
    }
    if s.points & 2 != 0 {
        v.push(zeta * g);
    }
    v
}

/// A fresh challenger in the pre-PCS state: observed the honest commitments, sampled zeta.
fn fresh_challenger(ctx_coms: &[Com]) -> (Challenger, Challenge) {
    let mut ch = Challenger::new(default_perm());
    for c in ctx_coms {
        ch.observe(c.clone());
    }
    let zeta: Challenge = ch.sample_algebra_element();
    (ch, zeta)
}

pub fn make_ctx(params: &Params, ctx_coms: Vec<Com>) -> Ctx {
    let pcs = make_pcs(params);
    let (_, zeta) = fresh_challenger(&ctx_coms);
    let stmt: Stmt = params
        .batches
        .iter()
        .map(|b| {
            b.iter()
                .map(|s| StmtMat { domain: domain_of(&pcs, s), log_size: s.log_size, kinds: kinds_of(s) })
                .collect()
        })
        .collect();
    Ctx { params: params.clone(), pcs, ctx_coms, zeta, stmt }
}

/// Native `Pcs::verify` with a fresh challenger in the pre-PCS state (honest statement).
pub fn native(cx: &Ctx, t: &Typed) -> V {
    native_s(cx, &cx.stmt, t)
}

/// Native `Pcs::verify` for the statement `stmt` (which must satisfy `stmt_matches(stmt, t)`).
pub fn native_s(cx: &Ctx, stmt: &Stmt, t: &Typed) -> V {
    if !stmt_matches(stmt, t) {
        return V::Reject("harness: statement and claims differ in shape".into());
    }
    let r = guarded(|| {
        let (mut ch, _) = fresh_challenger(&cx.ctx_coms);
        let mut cwp = vec![];
        for (b, com) in t.coms.iter().enumerate() {
            let mut mats = vec![];
            for (m, sm) in stmt[b].iter().enumerate() {
                let pv: Vec<(Challenge, Vec<Challenge>)> = sm
                    .kinds
                    .iter()
                    .zip(t.claimed[b][m].iter())
                    .map(|(k, vals)| (point_of_kind(cx.zeta, &sm.domain, *k), vals.clone()))
                    .collect();
                mats.push((sm.domain, pv));
            }
            cwp.push((com.clone(), mats));
        }
        <ThePcs as Pcs<Challenge, Challenger>>::verify(&cx.pcs, cwp, &t.proof, &mut ch)
            .map_err(|e| format!("{e:?}"))
    });
    match r {
        Ok(Ok(())) => V::Accept,
        Ok(Err(e)) => V::Reject(err_class(&e)),
        Err(p) => V::Panic(panic_site(&p)),
    }
}

pub struct Built {
    pub circuit: Circuit<Challenge>,
    pub op_ids: Vec<NonPrimitiveOpId>,
    pub n_ops: usize,
}

type RP = ThePcs;

/// Build the in-circuit PCS verifier for the shape of `t`: in-circuit challenger brought to the
/// pre-PCS state, claimed evaluations observed, `get_challenges_circuit` (betas, PoW checks),
/// `verify_circuit` (query index sampling + `verify_fri_circuit` with MMCS verification).
pub fn build(cx: &Ctx, t: &Typed) -> Result<Built, String> {
    build_s(cx, &cx.stmt, t)
}

/// `build` for the statement `stmt` (which must satisfy `stmt_matches(stmt, t)`).
pub fn build_s(cx: &Ctx, stmt: &Stmt, t: &Typed) -> Result<Built, String> {
    let p = &cx.params;
    let mut cb = CircuitBuilder::<Challenge>::new();
    enable_perm(&mut cb);
    cb.enable_recompose::<F>(generate_recompose_trace::<F, Challenge>);

    // Allocation order == public input order (see `pack`).
    // one target per packed value of the context commitments (a cap has 2^cap_height digests)
    let n_ctx: usize = cx.ctx_coms.iter().map(|c| <ComT as Recursive<Challenge>>::get_values(c).len()).sum();
    let ctx_t: Vec<Target> = (0..n_ctx).map(|_| cb.public_input()).collect();
    let com_t: Vec<ComT> =
        t.coms.iter().map(|c| <ComT as Recursive<Challenge>>::new(&mut cb, c)).collect();
    let claimed_t: Vec<Vec<Vec<Vec<Target>>>> = t
        .claimed
        .iter()
        .map(|b| {
            b.iter()
                .map(|m| {
                    m.iter().map(|pt| (0..pt.len()).map(|_| cb.public_input()).collect()).collect()
                })
                .collect()
        })
        .collect();
    let proof_t = <ProofTargetsT as Recursive<Challenge>>::new(&mut cb, &t.proof);

    let mut ch = CircuitChallenger::<WIDTH, RATE, Poseidon2Config>::new(P2);
    RecursiveChallenger::<F, Challenge>::observe_slice(&mut ch, &mut cb, &ctx_t);
    let zeta = RecursiveChallenger::<F, Challenge>::sample_ext(&mut ch, &mut cb);

    // Opening point targets: zeta, and zeta * g (one shared target per domain size).
    let mut next_cache: BTreeMap<usize, Target> = BTreeMap::new();
    let mut coms_t = vec![];
    if !stmt_matches(stmt, t) {
        return Err("harness: claimed/commitment shape differs from the statement".into());
    }
    for (b, batch) in stmt.iter().enumerate() {
        let mut mats = vec![];
        for (m, s) in batch.iter().enumerate() {
            let d = s.domain;
            let mut zs = vec![];
            for k in &s.kinds {
                if *k == 0 {
                    zs.push(zeta);
                } else {
                    let zn = *next_cache.entry(s.log_size).or_insert_with(|| {
                        let g = cb.define_const(Challenge::from(d.subgroup_generator()));
                        cb.mul(zeta, g)
                    });
                    zs.push(zn);
                }
            }
            let pv: Vec<(Target, Vec<Target>)> =
                zs.into_iter().zip(claimed_t[b][m].iter().cloned()).collect();
            mats.push((d, pv));
        }
        coms_t.push((com_t[b].clone(), mats));
    }

    // Observe claimed evaluations in native order (per point: public values, then the hiding
    // PCS's random-codeword values).
    let rand: Vec<Vec<Vec<Vec<Target>>>> =
        <RP as RecursivePcs<SC, InputTargets, ProofTargetsT, ComT, Domain>>::get_fri_random_opened_values(&proof_t)
            .to_vec();
    for (b, batch) in claimed_t.iter().enumerate() {
        for (m, mat) in batch.iter().enumerate() {
            for (k, vals) in mat.iter().enumerate() {
                RecursiveChallenger::<F, Challenge>::observe_ext_slice(&mut ch, &mut cb, vals);
                if let Some(r) = rand.get(b).and_then(|x| x.get(m)).and_then(|x| x.get(k)) {
                    RecursiveChallenger::<F, Challenge>::observe_ext_slice(&mut ch, &mut cb, r);
                }
            }
        }
    }

    let vp = FriVerifierParams::with_mmcs(
        p.log_blowup,
        p.log_final_poly_len,
        p.commit_pow_bits,
        p.query_pow_bits,
        P2,
    );
    let dummy = OpenedValuesTargetsWithLookups::<SC> {
        opened_values_no_lookups: OpenedValuesTargets::<SC> {
            trace_local_targets: vec![],
            trace_next_targets: vec![],
            preprocessed_local_targets: None,
            preprocessed_next_targets: None,
            quotient_chunks_targets: vec![],
            random_targets: None,
            _phantom: core::marker::PhantomData,
        },
        permutation_local_targets: vec![],
        permutation_next_targets: vec![],
    };
    let challenges =
        <RP as RecursivePcs<SC, InputTargets, ProofTargetsT, ComT, Domain>>::get_challenges_circuit::<
            WIDTH,
            RATE,
            Poseidon2Config,
        >(&mut cb, &mut ch, &proof_t, &dummy, &vp)
        .map_err(|e| format!("get_challenges_circuit: {e:?}"))?;
    let op_ids =
        <RP as RecursivePcs<SC, InputTargets, ProofTargetsT, ComT, Domain>>::verify_circuit::<
            WIDTH,
            RATE,
            Poseidon2Config,
        >(&cx.pcs, &mut cb, &challenges, &mut ch, &coms_t, &proof_t, &vp)
        .map_err(|e| format!("verify_circuit: {e:?}"))?;
    let circuit = cb.build().map_err(|e| format!("build: {e:?}"))?;
    let n_ops = circuit.ops.len();
    Ok(Built { circuit, op_ids, n_ops })
}

/// The repo's packing of the verifier inputs (`Recursive::get_values/get_private_values`), in
/// allocation order.
pub fn pack(cx: &Ctx, t: &Typed) -> (Vec<Challenge>, Vec<Challenge>) {
    let mut pubs: Vec<Challenge> = vec![];
    for c in &cx.ctx_coms {
        pubs.extend(<ComT as Recursive<Challenge>>::get_values(c));
    }
    for c in &t.coms {
        pubs.extend(<ComT as Recursive<Challenge>>::get_values(c));
    }
    for b in &t.claimed {
        for m in b {
            for pt in m {
                pubs.extend(pt.iter().copied());
            }
        }
    }
    pubs.extend(<ProofTargetsT as Recursive<Challenge>>::get_values(&t.proof));
    let privs = <ProofTargetsT as Recursive<Challenge>>::get_private_values(&t.proof);
    (pubs, privs)
}

pub fn run_built(cx: &Ctx, b: &Built, t: &Typed) -> V {
    let r = guarded(|| -> Result<(), String> {
        let (pubs, privs) = pack(cx, t);
        let mut r = b.circuit.runner();
        r.set_public_inputs(&pubs).map_err(|e| format!("set_public_inputs: {e:?}"))?;
        r.set_private_inputs(&privs).map_err(|e| format!("set_private_inputs: {e:?}"))?;
        set_private(&mut r, &b.op_ids, &t.proof).map_err(|e| format!("set_private_data: {e}"))?;
        r.run().map(|_| ()).map_err(|e| format!("run: {e:?}"))
    });
    match r {
        Ok(Ok(())) => V::Accept,
        Ok(Err(e)) => V::Reject(err_class(&e)),
        Err(p) => V::Panic(panic_site(&p)),
    }
}

/// The circuit compiled for the honest shape, or the reason why the builder refuses that shape
/// (then every input of that shape is rejected by the in-circuit verifier).
pub type MaybeBuilt = Result<Built, V>;

pub fn build_honest(cx: &Ctx, honest: &Typed) -> MaybeBuilt {
    match guarded(|| build(cx, honest)) {
        Ok(Ok(b)) => Ok(b),
        Ok(Err(e)) => Err(V::Reject(format!("builder:{}", err_class(&e)))),
        Err(p) => Err(V::Panic(panic_site(&p))),
    }
}

pub fn run_maybe(cx: &Ctx, b: &MaybeBuilt, t: &Typed) -> V {
    match b {
        Ok(b) => run_built(cx, b, t),
        Err(v) => v.clone(),
    }
}

/// Circuit verdict with a circuit rebuilt from the mutant (shape-bearing leaves).
pub fn run_rebuilt(cx: &Ctx, t: &Typed) -> V {
    match guarded(|| build(cx, t)) {
        Ok(Ok(b)) => run_built(cx, &b, t),
        Ok(Err(e)) => V::Reject(format!("builder:{}", err_class(&e))),
        Err(p) => V::Panic(panic_site(&p)),
    }
}

/// Faults injected *inside the native prover* so that the Fiat-Shamir transcript and all Merkle
/// openings stay consistent with the (wrong) data the verifier will see. Single-element mutants
/// of a finished proof are almost always caught by the first Merkle/transcript check; these faults
/// isolate the arithmetic checks (reduced openings, fold chain, final polynomial) and the PoW checks.
#[derive(Clone, Copy, Debug, PartialEq, Eq)]
pub enum ProverFault {
    None,
    /// The `index`-th base-field element the prover observes is shifted by one (claimed
    /// evaluation coefficients first, then final-polynomial coefficients).
    Observe(usize),
    /// The `index`-th grinding call returns a witness that fails the PoW check.
    Grind(usize),
}

/// Edits of the stream of base-field elements a challenger observes (positions count the
/// elements offered by the protocol code, starting at 0 for the first claimed-evaluation
/// coefficient): `skips` = ranges (start, len) that are *not* absorbed, `inserts` = (position,
/// elements) absorbed *before* the element at that position (or before whatever the protocol does
/// next once that many elements have been offered). Used for the structural prover faults: the
/// prover's transcript becomes the transcript a verifier derives from a statement/proof whose
/// nesting differs from what the prover really opened.
#[derive(Clone, Default)]
pub struct StreamEdits {
    pub skips: Vec<(usize, usize)>,
    pub inserts: Vec<(usize, Vec<F>)>,
}

impl StreamEdits {
    pub fn total(&self) -> usize {
        self.skips.iter().map(|s| s.1).sum::<usize>() + self.inserts.len()
    }
}

#[derive(Clone)]
pub struct EvilChallenger {
    inner: Challenger,
    fault: ProverFault,
    obs: usize,
    grinds: usize,
    pub hit: bool,
    edits: StreamEdits,
    /// number of skipped elements + number of insertions performed so far
    pub edits_done: usize,
}

impl EvilChallenger {
    pub fn new(inner: Challenger, fault: ProverFault, edits: StreamEdits) -> Self {
        Self { inner, fault, obs: 0, grinds: 0, hit: false, edits, edits_done: 0 }
    }
    /// Absorb the insertions that are due at the current stream position.
    fn flush(&mut self) {
        if self.edits.inserts.is_empty() {
            return;
        }
        let mut i = 0;
        while i < self.edits.inserts.len() {
            if self.edits.inserts[i].0 == self.obs {
                let (_, vals) = self.edits.inserts.remove(i);
                for v in vals {
                    self.inner.observe(v);
                }
                self.edits_done += 1;
            } else {
                i += 1;
            }
        }
    }
}

impl CanObserve<F> for EvilChallenger {
    fn observe(&mut self, v: F) {
        self.flush();
        let v2 = if self.fault == ProverFault::Observe(self.obs) {
            self.hit = true;
            v + F::ONE
        } else {
            v
        };
        let skipped = self.edits.skips.iter().any(|(s, l)| self.obs >= *s && self.obs < *s + *l);
        self.obs += 1;
        if skipped {
            self.edits_done += 1;
        } else {
            self.inner.observe(v2);
        }
    }
}
impl CanObserve<p3_symmetric::MerkleCap<F, [F; DIGEST_ELEMS]>> for EvilChallenger {
    fn observe(&mut self, c: p3_symmetric::MerkleCap<F, [F; DIGEST_ELEMS]>) {
        self.flush();
        self.inner.observe(c);
    }
}
impl CanSample<F> for EvilChallenger {
    fn sample(&mut self) -> F {
        self.flush();
        self.inner.sample()
    }
}
impl CanSampleBits<usize> for EvilChallenger {
    fn sample_bits(&mut self, bits: usize) -> usize {
        self.flush();
        self.inner.sample_bits(bits)
    }
}
impl FieldChallenger<F> for EvilChallenger {}
impl GrindingChallenger for EvilChallenger {
    type Witness = F;
    fn grind(&mut self, bits: usize) -> F {
        self.flush();
        let idx = self.grinds;
        self.grinds += 1;
        if self.fault == ProverFault::Grind(idx) && bits > 0 {
            let before = self.inner.clone();
            let mut cand = self.inner.grind(bits) + F::ONE;
            loop {
                let mut c = before.clone();
                if !c.check_witness(bits, cand) {
                    // state as the verifier will have it after checking the bad witness
                    self.inner = c;
                    self.hit = true;
                    return cand;
                }
                cand += F::ONE;
            }
        }
        self.inner.grind(bits)
    }
}

fn bump_coeff(x: &mut Challenge, c: usize) {
    let mut cs: Vec<F> = x.as_basis_coefficients_slice().to_vec();
    cs[c] += F::ONE;
    *x = Challenge::from_basis_coefficients_slice(&cs).expect("coefficients");
}

/// Run the native prover (commit + open), optionally with a prover fault. Returns the verifier's
/// view: commitments, claimed evaluations, proof, and a description of where the fault landed.
#[allow(clippy::type_complexity)]
pub fn prove(params: &Params, fault: ProverFault) -> (Vec<Com>, Claimed, Proof, Option<String>) {
    let (coms, opened, proof, landed, _) = prove_ext(params, fault, None, StreamEdits::default());
    (coms, opened, proof, landed)
}

/// `prove` with the opening points actually used by the prover overridden (`open_kinds`, per
/// round / matrix: point kinds) and with edits of the observation stream. The last component is
/// the number of stream edits that were performed.
#[allow(clippy::type_complexity)]
pub fn prove_ext(
    params: &Params,
    fault: ProverFault,
    open_kinds: Option<&Vec<Vec<Vec<u8>>>>,
    edits: StreamEdits,
) -> (Vec<Com>, Claimed, Proof, Option<String>, usize) {
    let d = <Challenge as BasedVectorSpace<F>>::DIMENSION;
    let pcs = make_pcs(params);
    let mut rng = SmallRng::seed_from_u64(params.data_seed);
    let mut coms = vec![];
    let mut datas = vec![];
    for batch in &params.batches {
        let evals: Vec<(Domain, RowMajorMatrix<F>)> = batch
            .iter()
            .map(|s| {
                let dom = domain_of(&pcs, s);
                let rows = if HIDING { 1usize << (s.log_size - 1) } else { 1usize << s.log_size };
                (dom, RowMajorMatrix::<F>::rand(&mut rng, rows, s.width))
            })
            .collect();
        let (c, pd) = <ThePcs as Pcs<Challenge, EvilChallenger>>::commit(&pcs, evals);
        coms.push(c);
        datas.push(pd);
    }
    let (ch0, zeta) = fresh_challenger(&coms);
    let mut ch = EvilChallenger::new(ch0, fault, edits);
    let open_data = datas
        .iter()
        .zip(&params.batches)
        .enumerate()
        .map(|(bi, (pd, b))| {
            let pts = b
                .iter()
                .enumerate()
                .map(|(mi, s)| match open_kinds {
                    Some(k) => {
                        let dom = domain_of(&pcs, s);
                        k[bi][mi].iter().map(|kind| point_of_kind(zeta, &dom, *kind)).collect()
                    }
                    None => points_of(zeta, &domain_of(&pcs, s), s),
                })
                .collect::<Vec<Vec<Challenge>>>();
            (pd, pts)
        })
        .collect::<Vec<_>>();
    let (mut opened, mut proof): (Claimed, Proof) =
        <ThePcs as Pcs<Challenge, EvilChallenger>>::open(&pcs, open_data, &mut ch);
    // Patch the verifier's view so that it is what the faulty prover bound into the transcript.
    let mut landed = None;
    match fault {
        ProverFault::Observe(mut k) => {
            // observation order: per (batch, matrix, point): public values, then random values
            'outer: {
                for b in 0..opened.len() {
                    for m in 0..opened[b].len() {
                        for p in 0..opened[b][m].len() {
                            let n_pub = opened[b][m][p].len() * d;
                            if k < n_pub {
                                bump_coeff(&mut opened[b][m][p][k / d], k % d);
                                landed = Some("claimed-evaluation".to_string());
                                break 'outer;
                            }
                            k -= n_pub;
                            if let Some(r) = rand_mut(&mut proof) {
                                let n_r = r[b][m][p].len() * d;
                                if k < n_r {
                                    bump_coeff(&mut r[b][m][p][k / d], k % d);
                                    landed = Some("random-codeword-evaluation".to_string());
                                    break 'outer;
                                }
                                k -= n_r;
                            }
                        }
                    }
                }
                let fp = &mut inner_fri_mut(&mut proof).final_poly;
                if k < fp.len() * d {
                    bump_coeff(&mut fp[k / d], k % d);
                    landed = Some("final-poly".to_string());
                }
            }
        }
        ProverFault::Grind(i) => {
            let rounds = inner_fri(&proof).commit_phase_commits.len();
            if ch.hit {
                landed = Some(if i < rounds { "commit-pow-witness" } else { "query-pow-witness" }.to_string());
            }
        }
        ProverFault::None => {}
    }
    if !ch.hit {
        landed = None;
    }
    (coms, opened, proof, landed, ch.edits_done)
}

/// All prover faults applicable to a parameter point (given the honest proof's shape).
pub fn prover_faults(params: &Params, t: &Typed) -> Vec<ProverFault> {
    let d = <Challenge as BasedVectorSpace<F>>::DIMENSION;
    let mut n_obs: usize = t.claimed.iter().flatten().flatten().map(|p| p.len() * d).sum();
    let mut tmp = t.proof.clone();
    if let Some(r) = rand_mut(&mut tmp) {
        n_obs += r.iter().flatten().flatten().map(|p| p.len() * d).sum::<usize>();
    }
    n_obs += inner_fri(&t.proof).final_poly.len() * d;
    let rounds = inner_fri(&t.proof).commit_phase_commits.len();
    let mut v: Vec<ProverFault> = (0..n_obs).map(ProverFault::Observe).collect();
    if params.commit_pow_bits > 0 {
        v.extend((0..rounds).map(ProverFault::Grind));
    }
    if params.query_pow_bits > 0 {
        v.push(ProverFault::Grind(rounds));
    }
    v
}

/// Produce the honest commitment + opening proof, check natively, build and run the circuit.
pub fn prepare(params: &Params) -> Prepared {
    let mut prep = Prepared::empty(params);
    let generated = guarded(|| {
        let (coms, opened, proof, _) = prove(params, ProverFault::None);
        (coms, opened, proof)
    });
    let (coms, opened, proof) = match generated {
        Ok(x) => x,
        Err(p) => {
            prep.honest = Honest::ProverFailed(panic_site(&p));
            return prep;
        }
    };
    prep.log_arities =
        inner_fri(&proof).query_proofs.first().map_or(vec![], |q| {
            q.commit_phase_openings.iter().map(|o| o.log_arity as usize).collect()
        });
    prep.doc = json!({"commitments": coms, "claimed": opened, "opening_proof": proof});
    prep.leaves = numeric_leaves(&prep.doc);
    let cx = make_ctx(params, coms);
    let typed = match parse(&prep.doc) {
        Ok(t) => t,
        Err(e) => {
            prep.honest = Honest::Harness(format!("honest doc does not round-trip: {e}"));
            return prep;
        }
    };
    let t0 = Instant::now();
    let n = native(&cx, &typed);
    prep.native_us = t0.elapsed().as_micros() as u64;
    let t0 = Instant::now();
    let c = match guarded(|| build(&cx, &typed)) {
        Ok(Ok(b)) => {
            prep.build_ms = t0.elapsed().as_millis() as u64;
            prep.n_ops = b.n_ops;
            prep.n_mmcs_ops = b.op_ids.len();
            let t1 = Instant::now();
            let v = run_built(&cx, &b, &typed);
            prep.run_us = t1.elapsed().as_micros() as u64;
            v
        }
        Ok(Err(e)) => V::Reject(format!("builder:{}", err_class(&e))),
        Err(p) => V::Panic(panic_site(&p)),
    };
    prep.n_faults = prover_faults(params, &typed).len();
    prep.honest = Honest::Verdicts(n, c);
    prep
}

fn mutate_and_judge(
    cx: &Ctx,
    built: &MaybeBuilt,
    doc: &mut Value,
    path: &[Seg],
    newv: u64,
) -> Option<(V, V)> {
    let old = leaf_mut(doc, path).clone();
    *leaf_mut(doc, path) = json!(newv);
    let parsed = parse(doc);
    *leaf_mut(doc, path) = old;
    let t = parsed.ok()?;
    let n = native(cx, &t);
    let c = if is_shape_leaf(path) { run_rebuilt(cx, &t) } else { run_maybe(cx, built, &t) };
    Some((n, c))
}

/// Mutate leaves `lo..hi` of the honest document; one `+1` mutant per leaf (`-1` when `+1` does not
/// deserialize), plus a random canonical value in the thorough tier.
pub fn sweep(prep: &Prepared, lo: usize, hi: usize, thorough: bool, seed: u64) -> SweepOut {
    let mut out = SweepOut::default();
    let honest = match parse(&prep.doc) {
        Ok(t) => t,
        Err(e) => {
            out.harness_error = Some(e);
            return out;
        }
    };
    let coms = honest.coms.clone();
    let cx = make_ctx(&prep.params, coms);
    let built = build_honest(&cx, &honest);
    let mut doc = prep.doc.clone();
    let modulus = F::ORDER_U64;
    for li in lo..hi.min(prep.leaves.len()) {
        let path = &prep.leaves[li];
        let old = leaf_mut(&mut doc, path).as_u64().unwrap_or(0);
        let shape = is_shape_leaf(path);
        let mut muts: Vec<(&'static str, u64)> = vec![("+1", old + 1)];
        if thorough {
            let mut rng = case_rng(seed, "c07-mut", fnv(&format!("{}|{}", prep.key, li)));
            let r = if shape {
                // another small integer for shape-bearing leaves (0 and out-of-schedule values)
                (old + 2 + rng.random_range(0..3u64)) % 8
            } else {
                let r = rng.random_range(0..modulus);
                if r == old || r == old + 1 { (r + 7) % modulus } else { r }
            };
            if r != old {
                muts.push(("rand", r));
            }
            if old != 0 && r != 0 {
                muts.push(("zero", 0));
            }
        }
        let mut done_any = false;
        for (kind, newv) in muts {
            let mut res = mutate_and_judge(&cx, &built, &mut doc, path, newv);
            let mut used = (kind, newv);
            if res.is_none() {
                out.deser_fail += 1;
                if kind == "+1" && old > 0 {
                    // e.g. p-1 + 1 is not canonical: take -1 instead so that the leaf is covered
                    used = ("-1", old - 1);
                    res = mutate_and_judge(&cx, &built, &mut doc, path, old - 1);
                    if res.is_none() {
                        out.deser_fail += 1;
                    }
                }
            }
            if let Some((n, c)) = res {
                done_any = true;
                out.outcomes.push(Outcome { leaf: li, kind: used.0, old, new: used.1, native: n, circuit: c });
            }
        }
        if done_any {
            out.leaves_mutated += 1;
        }
    }
    out
}

/// Run prover faults `lo..hi` (indices into `prover_faults`) and compare the verdicts on the
/// resulting transcript-consistent bad proofs.
pub fn sweep_faults(prep: &Prepared, lo: usize, hi: usize) -> FaultOut {
    let mut out = FaultOut::default();
    let honest = match parse(&prep.doc) {
        Ok(t) => t,
        Err(e) => {
            out.harness_error = Some(e);
            return out;
        }
    };
    let cx = make_ctx(&prep.params, honest.coms.clone());
    let built = build_honest(&cx, &honest);
    let faults = prover_faults(&prep.params, &honest);
    for fi in lo..hi.min(faults.len()) {
        match judge_fault(&prep.params, &cx, &built, &prep.doc["commitments"], faults[fi]) {
            Ok(Some((class, n, c))) => out.outcomes.push(FaultOutcome {
                index: fi,
                fault: fault_json(faults[fi]),
                class,
                native: n,
                circuit: c,
            }),
            Ok(None) => out.not_landed += 1,
            Err(e) => out.harness_error = Some(e),
        }
    }
    out
}

pub fn fault_json(f: ProverFault) -> Value {
    match f {
        ProverFault::None => json!(null),
        ProverFault::Observe(k) => json!({"observe": k}),
        ProverFault::Grind(i) => json!({"grind": i}),
    }
}

fn judge_fault(
    params: &Params,
    cx: &Ctx,
    built: &MaybeBuilt,
    honest_coms: &Value,
    f: ProverFault,
) -> Result<Option<(String, V, V)>, String> {
    let (coms, claimed, proof, landed) = guarded(|| prove(params, f))
        .map_err(|p| format!("faulty prover panicked: {}", panic_site(&p)))?;
    let Some(class) = landed else { return Ok(None) };
    if &json!(coms) != honest_coms {
        return Err("prover is not deterministic: commitments differ from the honest run".into());
    }
    let t = Typed { coms, claimed, proof };
    let n = native(cx, &t);
    let c = run_maybe(cx, built, &t);
    Ok(Some((class, n, c)))
}

/// Re-execute one recorded prover fault.
pub fn replay_fault(params: &Params, f: &Value) -> Result<(String, V, V), String> {
    let fault = if let Some(k) = f["observe"].as_u64() {
        ProverFault::Observe(k as usize)
    } else if let Some(i) = f["grind"].as_u64() {
        ProverFault::Grind(i as usize)
    } else {
        return Err("unknown fault".into());
    };
    let prep = prepare(params);
    let honest = parse(&prep.doc)?;
    let cx = make_ctx(params, honest.coms.clone());
    let built = build_honest(&cx, &honest);
    judge_fault(params, &cx, &built, &prep.doc["commitments"], fault)?
        .ok_or_else(|| "fault did not land".to_string())
}

/// Re-execute one recorded mutant.
pub fn replay_one(params: &Params, path: &[Seg], newv: u64) -> Result<(V, V), String> {
    let prep = prepare(params);
    if !matches!(prep.honest, Honest::Verdicts(V::Accept, _)) {
        return Err(format!("honest stage differs on replay: {:?}", prep.honest));
    }
    let honest = parse(&prep.doc)?;
    let cx = make_ctx(params, honest.coms.clone());
    let built = build_honest(&cx, &honest);
    let mut doc = prep.doc.clone();
    mutate_and_judge(&cx, &built, &mut doc, path, newv)
        .ok_or_else(|| "mutant does not deserialize".to_string())
}

// ---------------------------------------------------------------------------------------------
// Structural sweep: array / optional nodes of the document, circuit rebuilt per mutant
// ---------------------------------------------------------------------------------------------

/// Circuit verdict with the circuit rebuilt for (statement, document), and the stage that
/// produced the verdict.
pub fn run_rebuilt_s(cx: &Ctx, stmt: &Stmt, t: &Typed) -> (V, &'static str) {
    match guarded(|| build_s(cx, stmt, t)) {
        Ok(Ok(b)) => {
            let v = run_built(cx, &b, t);
            let st = if matches!(v, V::Panic(_)) { "run-panic" } else { "run" };
            (v, st)
        }
        Ok(Err(e)) => (V::Reject(format!("builder:{}", err_class(&e))), "build"),
        Err(p) => (V::Panic(panic_site(&p)), "build-panic"),
    }
}

/// The statement of a structural mutant: operations on the nesting of `claimed` (rounds, matrices,
/// points) are applied to the statement as well; everything else leaves it alone.
pub fn mutant_stmt(stmt: &Stmt, m: &SMut) -> Stmt {
    let mut s = stmt.clone();
    if m.path.first() != Some(&Seg::Key("claimed".into())) {
        return s;
    }
    match &m.path[1..] {
        [] => {
            m.op.apply_vec(&mut s);
        }
        [Seg::Idx(b)] => {
            if let Some(r) = s.get_mut(*b) {
                m.op.apply_vec(r);
            }
        }
        [Seg::Idx(b), Seg::Idx(k)] => {
            if let Some(x) = s.get_mut(*b).and_then(|r| r.get_mut(*k)) {
                m.op.apply_vec(&mut x.kinds);
            }
        }
        _ => {}
    }
    s
}

pub enum StructRes {
    Noop,
    DeserFail,
    Done(V, V, &'static str),
}

/// One structural mutant: mutate (in place, restored afterwards), deserialise, native verdict vs
/// verdict of the circuit rebuilt for the mutant.
pub fn struct_one(cx: &Ctx, doc: &mut Value, m: &SMut) -> StructRes {
    let rounds = is_rounds_node(&m.path);
    let old = leaf_mut(doc, &m.path).clone();
    let old_coms = if rounds { Some(doc["commitments"].clone()) } else { None };
    let mut changed = apply_sop(doc, &m.path, m.op);
    if rounds {
        // the swap of two rounds is a change even if their claims happen to be equal
        let c2 = match doc["commitments"].as_array_mut() {
            Some(a) => m.op.apply_vec(a),
            None => false,
        };
        changed = changed && c2;
    }
    let parsed = if changed { Some(parse(doc)) } else { None };
    *leaf_mut(doc, &m.path) = old;
    if let Some(c) = old_coms {
        doc["commitments"] = c;
    }
    let t = match parsed {
        None => return StructRes::Noop,
        Some(Err(_)) => return StructRes::DeserFail,
        Some(Ok(t)) => t,
    };
    let stmt = mutant_stmt(&cx.stmt, m);
    if !stmt_matches(&stmt, &t) {
        // cannot happen by construction (the same operation on both nestings)
        return StructRes::Noop;
    }
    let n = native_s(cx, &stmt, &t);
    let (c, stage) = run_rebuilt_s(cx, &stmt, &t);
    StructRes::Done(n, c, stage)
}

pub fn sweep_struct(prep: &Prepared, lo: usize, hi: usize) -> StructOut {
    let mut out = StructOut::default();
    let honest = match parse(&prep.doc) {
        Ok(t) => t,
        Err(e) => {
            out.harness_error = Some(e);
            return out;
        }
    };
    let cx = make_ctx(&prep.params, honest.coms.clone());
    let mut doc = prep.doc.clone();
    for i in lo..hi.min(prep.smuts.len()) {
        match struct_one(&cx, &mut doc, &prep.smuts[i]) {
            StructRes::Noop => out.noop.push(i),
            StructRes::DeserFail => out.deser_fail.push(i),
            StructRes::Done(n, c, stage) => out.outcomes.push(SOutcome { idx: i, native: n, circuit: c, stage }),
        }
    }
    out
}

pub fn replay_struct(params: &Params, m: &SMut) -> Result<SOutcome, String> {
    let prep = prepare(params);
    if !matches!(prep.honest, Honest::Verdicts(V::Accept, _)) {
        return Err(format!("honest stage differs on replay: {:?}", prep.honest));
    }
    let honest = parse(&prep.doc)?;
    let cx = make_ctx(params, honest.coms.clone());
    let mut doc = prep.doc.clone();
    match struct_one(&cx, &mut doc, m) {
        StructRes::Noop => Err("mutant does not change the document".into()),
        StructRes::DeserFail => Err("mutant does not deserialize".into()),
        StructRes::Done(n, c, stage) => Ok(SOutcome { idx: 0, native: n, circuit: c, stage }),
    }
}

/// The verifier's view under a structural prover fault (None = the transcript edit could not be
/// realised). The statement stays the honest one.
pub fn sfault_view(params: &Params, honest: &Typed, f: &SFault) -> Result<Option<Typed>, String> {
    let d = <Challenge as BasedVectorSpace<F>>::DIMENSION;
    let rand: Option<Claimed> = {
        let mut p = honest.proof.clone();
        rand_mut(&mut p).map(|r| r.clone())
    };
    let w = |b: usize, m: usize| honest.claimed[b][m][0].len();
    let r = |b: usize, m: usize| rand.as_ref().map_or(0, |r| r[b][m][0].len());
    let mut kinds: Vec<Vec<Vec<u8>>> =
        params.batches.iter().map(|b| b.iter().map(kinds_of).collect()).collect();
    match f {
        SFault::DropPoint { b, m } => {
            kinds[*b][*m].pop();
        }
        SFault::ExtraPoint { b, m } => {
            let x = kinds[*b][*m][0];
            kinds[*b][*m] = vec![x, 1 - x];
        }
        _ => {}
    }
    // stream position of the first coefficient of matrix (b, m) in the prover's run
    let start = |b: usize, m: usize| -> usize {
        let mut pos = 0;
        for (bi, kb) in kinds.iter().enumerate() {
            for (mi, km) in kb.iter().enumerate() {
                if (bi, mi) == (b, m) {
                    return pos;
                }
                pos += km.len() * (w(bi, mi) + r(bi, mi)) * d;
            }
        }
        pos
    };
    let row = |b: usize, m: usize| (w(b, m) + r(b, m)) * d;
    let mut edits = StreamEdits::default();
    let mut fake: Vec<F> = vec![];
    match f {
        SFault::DropPoint { b, m } => {
            let kept = kinds[*b][*m].len();
            let mut rng = SmallRng::seed_from_u64(params.data_seed ^ 0xfa4e ^ ((*b as u64) << 8) ^ *m as u64);
            fake = (0..w(*b, *m) * d).map(|_| F::from_u64(rng.random_range(0..F::ORDER_U64))).collect();
            edits.inserts.push((start(*b, *m) + kept * row(*b, *m), fake.clone()));
        }
        SFault::DropRandRow { b, m } => {
            let k = kinds[*b][*m].len();
            edits.skips.push((start(*b, *m) + (k - 1) * row(*b, *m) + w(*b, *m) * d, r(*b, *m) * d));
        }
        SFault::DropRandMatrix { b } => {
            let m = kinds[*b].len() - 1;
            for p in 0..kinds[*b][m].len() {
                edits.skips.push((start(*b, m) + p * row(*b, m) + w(*b, m) * d, r(*b, m) * d));
            }
        }
        SFault::DropRandRound => {
            let b = kinds.len() - 1;
            for m in 0..kinds[b].len() {
                for p in 0..kinds[b][m].len() {
                    edits.skips.push((start(b, m) + p * row(b, m) + w(b, m) * d, r(b, m) * d));
                }
            }
        }
        SFault::ExtraPoint { b, m } => {
            edits.skips.push((start(*b, *m) + row(*b, *m), row(*b, *m)));
        }
    }
    if edits.total() == 0 {
        return Ok(None);
    }
    let (coms, mut claimed, mut proof, _, done) = guarded(|| prove_ext(params, ProverFault::None, Some(&kinds), edits.clone()))
        .map_err(|p| format!("faulty prover panicked: {}", panic_site(&p)))?;
    if done != edits.total() {
        return Ok(None);
    }
    if json!(coms) != json!(honest.coms) {
        return Err("prover is not deterministic: commitments differ from the honest run".into());
    }
    // Self-check of the edited transcript: the native verifier, replaying the same stream edits,
    // accepts what the prover really proved.
    let ok = guarded(|| {
        let pcs = make_pcs(params);
        let (ch0, zeta) = fresh_challenger(&coms);
        let mut ch = EvilChallenger::new(ch0, ProverFault::None, edits.clone());
        let mut cwp = vec![];
        for (b, com) in coms.iter().enumerate() {
            let mut mats = vec![];
            for (m, s) in params.batches[b].iter().enumerate() {
                let dom = domain_of(&pcs, s);
                let pv: Vec<(Challenge, Vec<Challenge>)> = kinds[b][m]
                    .iter()
                    .zip(claimed[b][m].iter())
                    .map(|(k, vals)| (point_of_kind(zeta, &dom, *k), vals.clone()))
                    .collect();
                mats.push((dom, pv));
            }
            cwp.push((com.clone(), mats));
        }
        <ThePcs as Pcs<Challenge, EvilChallenger>>::verify(&pcs, cwp, &proof, &mut ch).is_ok()
    });
    if ok != Ok(true) {
        return Err(format!("edited prover transcript is not self-consistent ({ok:?})"));
    }
    // the verifier's view
    match f {
        SFault::DropPoint { b, m } => {
            let rowv: Vec<Challenge> = fake
                .chunks(d)
                .map(|c| Challenge::from_basis_coefficients_slice(c).expect("coefficients"))
                .collect();
            claimed[*b][*m].push(rowv);
        }
        SFault::DropRandRow { b, m } => {
            rand_mut(&mut proof).ok_or("no random opened values")?[*b][*m].pop();
        }
        SFault::DropRandMatrix { b } => {
            rand_mut(&mut proof).ok_or("no random opened values")?[*b].pop();
        }
        SFault::DropRandRound => {
            rand_mut(&mut proof).ok_or("no random opened values")?.pop();
        }
        SFault::ExtraPoint { b, m } => {
            claimed[*b][*m].pop();
        }
    }
    Ok(Some(Typed { coms, claimed, proof }))
}

fn sfault_one(cx: &Ctx, honest: &Typed, f: &SFault) -> Result<Option<(V, V, &'static str)>, String> {
    let Some(view) = sfault_view(&cx.params, honest, f)? else { return Ok(None) };
    if !stmt_matches(&cx.stmt, &view) {
        return Err("structural prover fault: view does not fit the honest statement".into());
    }
    let n = native(cx, &view);
    let (c, stage) = run_rebuilt_s(cx, &cx.stmt, &view);
    Ok(Some((n, c, stage)))
}

pub fn sweep_sfaults(prep: &Prepared, lo: usize, hi: usize) -> StructOut {
    let mut out = StructOut::default();
    let honest = match parse(&prep.doc) {
        Ok(t) => t,
        Err(e) => {
            out.harness_error = Some(e);
            return out;
        }
    };
    let cx = make_ctx(&prep.params, honest.coms.clone());
    for i in lo..hi.min(prep.sfaults.len()) {
        match sfault_one(&cx, &honest, &prep.sfaults[i]) {
            Ok(Some((n, c, stage))) => out.outcomes.push(SOutcome { idx: i, native: n, circuit: c, stage }),
            Ok(None) => out.not_landed += 1,
            Err(e) => out.harness_error = Some(e),
        }
    }
    out
}

pub fn replay_sfault(params: &Params, f: &SFault) -> Result<SOutcome, String> {
    let prep = prepare(params);
    let honest = parse(&prep.doc)?;
    let cx = make_ctx(params, honest.coms.clone());
    match sfault_one(&cx, &honest, f)? {
        Some((n, c, stage)) => Ok(SOutcome { idx: 0, native: n, circuit: c, stage }),
        None => Err("fault did not land".into()),
    }
}
