//! C17 — recursion layers and aggregations chain, with or without cached preparation.
//!
//! Monitor (exploration over call HISTORIES): a history is a sequence of 1–4 steps
//! `next_layer(input, cache?)` / `aggregate(left, right, cache?)` of the real unified recursion API
//! (`p3_recursion::recursion`), started from uni-STARK or batch-STARK leaf proofs, with
//! `ProveNextLayerParams` changing between steps and cache slots filled by earlier calls of the
//! same history or by adversarial donor calls (same size counters, different wiring / op kind /
//! constant / child shape / packing).
//!
//! Per step: the uncached call must succeed, its output must verify natively
//! (`verify_all_tables`), carry the preprocessed commitment of the honest key generation of THIS
//! step's verifier circuit, and be accepted as the input of the following step. The same call with
//! a cache must give the same verdict when the cache belongs to the same circuit; when it was
//! prepared for a different circuit the call must be refused or recomputed: never a panic, never an
//! `Ok` proof that does not verify, never a proof bound to another circuit's preprocessed commitment.

use std::rc::Rc;
use std::sync::Arc;

use p3_air::{Air, AirBuilder, BaseAir, WindowAccess};
use p3_batch_stark::ProverData;
use p3_circuit::ops::{generate_poseidon2_trace, generate_recompose_trace};
use p3_circuit::{Circuit, CircuitBuilder, CircuitRunner, NonPrimitiveOpId};
use p3_circuit_prover::common::get_airs_and_degrees_with_prep;
use p3_circuit_prover::{BatchStarkProver, CircuitProverData, ConstraintProfile, TablePacking};
use p3_commit::Pcs;
use p3_field::PrimeCharacteristicRing;
use p3_fri::FriParameters;
use p3_lookup::logup::LogUpGadget;
use p3_matrix::dense::RowMajorMatrix;
use p3_poseidon2_circuit_air::KoalaBearD4Width16;
use p3_recursion::backend::FriRecursionBackendForExt;
use p3_recursion::pcs::{
    FriProofTargets, InputProofTargets, MerkleCapTargets, RecExtensionValMmcs, RecValMmcs, Witness,
    set_fri_mmcs_private_data,
};
use p3_recursion::recursion::{
    AggregationCircuitFingerprint, AggregationPrepCache, NextLayerPrepCache, PcsRecursionBackend,
    ProveNextLayerParams, RecursionInput, RecursionOutput, VerifierCircuitResult, build_and_prove_aggregation_layer,
    build_and_prove_next_layer, build_next_layer_circuit, build_next_layer_prep, prove_aggregation_layer,
    prove_next_layer,
};
use p3_recursion::traits::{RecursiveAir, RecursivePcs};
use p3_recursion::verifier::VerificationError;
use p3_recursion::{FriRecursionBackend, FriRecursionConfig, FriVerifierParams, Poseidon2Config};
use p3_test_utils::koala_bear_params::{
    Challenge, ChallengeMmcs, Challenger, DIGEST_ELEMS, Dft, F, MyCompress, MyConfig, MyHash, MyMmcs,
    MyPcs, default_koalabear_poseidon2_16,
};
use p3_uni_stark::{Proof, StarkGenericConfig, Val};
use p3r_verif::fields::commitment_json;
use p3r_verif::opsem::ops_text;
use p3r_verif::util::*;
use rand::RngExt;
use rand::rngs::SmallRng;
use serde::{Deserialize, Serialize};
use serde_json::{Value, json};

const D: usize = 4;
const P2: Poseidon2Config = Poseidon2Config::KOALA_BEAR_D4_W16;

// ---------------------------------------------------------------------------------------------
// STARK configuration glue (what a client of the recursion API has to provide)
// ---------------------------------------------------------------------------------------------

type InnerFri = FriProofTargets<
    F,
    Challenge,
    RecExtensionValMmcs<F, Challenge, DIGEST_ELEMS, RecValMmcs<F, DIGEST_ELEMS, MyHash, MyCompress>>,
    InputProofTargets<F, Challenge, RecValMmcs<F, DIGEST_ELEMS, MyHash, MyCompress>>,
    Witness<F>,
>;
type InProof = InputProofTargets<F, Challenge, RecValMmcs<F, DIGEST_ELEMS, MyHash, MyCompress>>;

#[derive(Clone)]
struct Cfg {
    config: Arc<MyConfig>,
    fri: FriVerifierParams,
    /// false = the verification circuits are built with `noop_enable_recompose` (the examples'
    /// `--disable-recompose-npo`): recompositions go through ALU rows, no recompose table
    recompose_npo: bool,
}

impl StarkGenericConfig for Cfg {
    type Challenge = Challenge;
    type Challenger = Challenger;
    type Pcs = MyPcs;
    fn pcs(&self) -> &MyPcs {
        self.config.pcs()
    }
    fn initialise_challenger(&self) -> Challenger {
        self.config.initialise_challenger()
    }
}

impl FriRecursionConfig for Cfg
where
    MyPcs: RecursivePcs<Cfg, InProof, InnerFri, MerkleCapTargets<F, DIGEST_ELEMS>, <MyPcs as Pcs<Challenge, Challenger>>::Domain>,
{
    type Commitment = MerkleCapTargets<F, DIGEST_ELEMS>;
    type InputProof = InProof;
    type OpeningProof = InnerFri;
    type RawOpeningProof = <MyPcs as Pcs<Challenge, Challenger>>::Proof;
    const DIGEST_ELEMS: usize = DIGEST_ELEMS;

    fn with_fri_opening_proof<'a, A, R>(
        prev: &RecursionInput<'a, Self, A>,
        f: impl FnOnce(&Self::RawOpeningProof) -> R,
    ) -> R
    where
        A: RecursiveAir<Val<Self>, Self::Challenge, LogUpGadget>,
    {
        match prev {
            RecursionInput::UniStark { proof, .. } => f(&proof.opening_proof),
            RecursionInput::BatchStark { proof, .. } => f(&proof.proof.opening_proof),
        }
    }

    fn prepare_circuit_for_verification(&self, circuit: &mut CircuitBuilder<Challenge>) -> Result<(), VerificationError> {
        circuit.enable_poseidon2_perm::<KoalaBearD4Width16, _>(
            generate_poseidon2_trace::<Challenge, KoalaBearD4Width16>,
            default_koalabear_poseidon2_16(),
        );
        if self.recompose_npo {
            circuit.enable_recompose::<F>(generate_recompose_trace::<F, Challenge>);
        } else {
            circuit.noop_enable_recompose::<F>(generate_recompose_trace::<F, Challenge>);
        }
        Ok(())
    }

    fn pcs_verifier_params(
        &self,
    ) -> &<MyPcs as RecursivePcs<Cfg, InProof, InnerFri, MerkleCapTargets<F, DIGEST_ELEMS>, <MyPcs as Pcs<Challenge, Challenger>>::Domain>>::VerifierParams
    {
        &self.fri
    }

    fn set_fri_private_data(
        runner: &mut CircuitRunner<'_, Challenge>,
        op_ids: &[NonPrimitiveOpId],
        opening_proof: &Self::RawOpeningProof,
    ) -> Result<(), &'static str> {
        set_fri_mmcs_private_data::<F, Challenge, ChallengeMmcs, MyMmcs, MyHash, MyCompress, DIGEST_ELEMS>(
            runner,
            op_ids,
            opening_proof,
            P2,
        )
    }
}

/// FRI shapes a history can run under (all steps of one history share it: a layer verifies its
/// inputs with its own config's verifier parameters).
const FRI_SHAPES: [(usize, usize, usize); 3] = [(2, 1, 2), (1, 2, 3), (2, 2, 2)]; // (log_blowup, max_log_arity, queries)

fn make_cfg(shape: usize) -> Cfg {
    let (log_blowup, max_log_arity, num_queries) = FRI_SHAPES[shape % FRI_SHAPES.len()];
    let perm = default_koalabear_poseidon2_16();
    let hash = MyHash::new(perm.clone());
    let compress = MyCompress::new(perm.clone());
    let val_mmcs = MyMmcs::new(hash, compress, 0);
    let challenge_mmcs = ChallengeMmcs::new(val_mmcs.clone());
    let fri_params = FriParameters {
        max_log_arity,
        log_blowup,
        log_final_poly_len: 0,
        num_queries,
        commit_proof_of_work_bits: 1,
        query_proof_of_work_bits: 1,
        mmcs: challenge_mmcs,
    };
    let pcs = MyPcs::new(Dft::default(), val_mmcs, fri_params);
    Cfg {
        config: Arc::new(MyConfig::new(pcs, Challenger::new(perm))),
        fri: FriVerifierParams::with_mmcs(log_blowup, 0, 1, 1, P2),
        // history shapes >= FRI_SHAPES.len() select the recompose-table-off variant
        recompose_npo: shape < FRI_SHAPES.len(),
    }
}

type Backend = FriRecursionBackendForExt<4, 16, 8, Poseidon2Config>;
type VR = <Backend as PcsRecursionBackend<Cfg, LeafAir, D>>::VerifierResult;

fn backend() -> Backend {
    FriRecursionBackend::<16, 8, _>::new(P2).for_extension_degree::<4>()
}

// ---------------------------------------------------------------------------------------------
// Leaves
// ---------------------------------------------------------------------------------------------

/// Width-3 AIRs of identical shape; the constraint differs in wiring, in one op kind or in one
/// constant.
#[derive(Clone, Copy, Debug, PartialEq, Eq)]
struct LeafAir {
    kind: u8,
}

const AIR_KINDS: [&str; 5] = ["mul(a,b)=c", "mul(a,c)=b", "add(a,b)=c", "a+77771b=c", "a+77773b=c"];

impl<T> BaseAir<T> for LeafAir {
    fn width(&self) -> usize {
        3
    }
}

impl<AB: AirBuilder> Air<AB> for LeafAir {
    fn eval(&self, builder: &mut AB) {
        let main = builder.main();
        let row = main.current_slice();
        let (a, b, c): (AB::Expr, AB::Expr, AB::Expr) = (row[0].into(), row[1].into(), row[2].into());
        let k = |n: u64| -> AB::Expr { AB::F::from_u64(n).into() };
        let e = match self.kind {
            0 => a * b - c,
            1 => a * c - b,
            2 => a + b - c,
            3 => a + b * k(77771) - c,
            _ => a + b * k(77773) - c,
        };
        builder.assert_zero(e);
    }
}

fn leaf_trace(kind: u8, rows: usize, off: u64) -> RowMajorMatrix<F> {
    let mut v = F::zero_vec(rows * 3);
    for r in 0..rows {
        let a = F::from_u64(r as u64 + off + 1);
        let x = F::from_u64(2 * r as u64 + off + 3);
        let (b, c) = match kind {
            0 => (x, a * x),
            1 => (a * x, x),
            2 => (x, a + x),
            3 => (x, a + x * F::from_u64(77771)),
            _ => (x, a + x * F::from_u64(77773)),
        };
        v[r * 3] = a;
        v[r * 3 + 1] = b;
        v[r * 3 + 2] = c;
    }
    RowMajorMatrix::new(v, 3)
}

/// A proof that can be fed into a step.
enum Node {
    Uni { proof: Proof<Cfg>, air: LeafAir },
    Batch(RecursionOutput<Cfg>),
}

impl Node {
    fn input(&self) -> RecursionInput<'_, Cfg, LeafAir> {
        match self {
            Node::Uni { proof, air } => RecursionInput::UniStark {
                proof,
                air,
                public_inputs: vec![],
                preprocessed_commit: None,
            },
            Node::Batch(out) => out.into_recursion_input::<LeafAir>(),
        }
    }
}

#[derive(Clone, Copy, Debug, Serialize, Deserialize, PartialEq, Eq)]
enum Leaf {
    /// uni-STARK proof of `LeafAir { kind }`
    Uni(u8),
    /// batch-STARK proof of a small base-field circuit of the given shape (0: one constant,
    /// 1: 12 additions, 2: like 0 with a different constant, 3: one ALU op on 4 lanes, 4: two ALU
    /// ops on 3 lanes, 5: one constant with 2 public / 2 ALU lanes, 6: 7 squarings on 2 lanes)
    Batch(u8),
}

impl Leaf {
    fn name(&self) -> String {
        match self {
            Leaf::Uni(_) => "uni".into(),
            Leaf::Batch(_) => "batch".into(),
        }
    }
}

fn make_leaf(cfg: &Cfg, leaf: Leaf, log_blowup: usize) -> Result<Node, String> {
    match leaf {
        Leaf::Uni(kind) => {
            let air = LeafAir { kind };
            let trace = leaf_trace(kind, 8, kind as u64);
            let proof = p3_uni_stark::prove(cfg, &air, trace, &[]);
            p3_uni_stark::verify(cfg, &air, &proof, &[]).map_err(|e| format!("uni leaf does not verify: {e:?}"))?;
            Ok(Node::Uni { proof, air })
        }
        Leaf::Batch(shape) => {
            let mut b = CircuitBuilder::<F>::new();
            let expected = b.alloc_public_input("expected");
            let mut extra_pub: Vec<F> = vec![];
            let (last, val) = match shape {
                1 => {
                    let mut x = b.alloc_const(F::ZERO, "f0");
                    let mut y = b.alloc_const(F::ONE, "f1");
                    let (mut xv, mut yv) = (F::ZERO, F::ONE);
                    for _ in 0..12 {
                        let n = b.add(x, y);
                        x = y;
                        y = n;
                        let nv = xv + yv;
                        xv = yv;
                        yv = nv;
                    }
                    (y, yv)
                }
                2 => (b.alloc_const(F::from_u32(43), "c"), F::from_u32(43)),
                // exactly one / exactly two ALU operations (proven with several ALU lanes below:
                // the prover reduces lanes for tiny tables, key generation may not)
                3 | 4 => {
                    // a public operand: constants would be folded away by the builder
                    let x = b.alloc_public_input("x");
                    extra_pub.push(F::from_u32(5));
                    let y = b.alloc_const(F::from_u32(9), "y");
                    let mut r = b.add(x, y);
                    let mut rv = F::from_u32(14);
                    if shape == 4 {
                        r = b.mul(r, y);
                        rv *= F::from_u32(9);
                    }
                    (r, rv)
                }
                5 => (b.alloc_const(F::from_u32(44), "c"), F::from_u32(44)),
                6 => {
                    let mut x = b.alloc_const(F::from_u32(2), "f0");
                    let mut xv = F::from_u32(2);
                    for _ in 0..7 {
                        x = b.mul(x, x);
                        xv = xv * xv;
                    }
                    (x, xv)
                }
                _ => (b.alloc_const(F::from_u32(42), "c"), F::from_u32(42)),
            };
            b.connect(last, expected);
            let circuit = b.build().map_err(|e| format!("{e:?}"))?;
            let n_alu = circuit.ops.iter().filter(|o| matches!(o, p3_circuit::Op::Alu { .. })).count();
            if (shape == 3 && n_alu != 1) || (shape == 4 && n_alu != 2) {
                return Err(format!("batch leaf shape {shape}: {n_alu} ALU ops, not what the shape is for"));
            }
            let (pl, al) = match shape {
                3 => (1, 4),
                4 => (1, 3),
                5 => (2, 2),
                6 => (1, 2),
                _ => (1, 1),
            };
            let packing = TablePacking::new(pl, al).with_fri_params(0, log_blowup);
            let (ad, prim, nonprim) =
                get_airs_and_degrees_with_prep::<Cfg, F, 1>(&circuit, &packing, &[], &[], ConstraintProfile::Standard)
                    .map_err(|e| format!("{e:?}"))?;
            let (airs, degs): (Vec<_>, Vec<usize>) = ad.into_iter().unzip();
            let mut runner = circuit.runner();
            let mut pubs = vec![val];
            pubs.extend(extra_pub);
            runner.set_public_inputs(&pubs).map_err(|e| format!("{e:?}"))?;
            let traces = runner.run().map_err(|e| format!("{e:?}"))?;
            let pd = ProverData::from_airs_and_degrees(cfg, &airs, &degs);
            let cpd = CircuitProverData::new(pd, prim, nonprim);
            let prover = BatchStarkProver::new(cfg.clone()).with_table_packing(packing);
            let proof = prover.prove_all_tables(&traces, &cpd).map_err(|e| format!("{e:?}"))?;
            prover.verify_all_tables::<F>(&proof).map_err(|e| format!("batch leaf does not verify: {e:?}"))?;
            Ok(Node::Batch(RecursionOutput(proof, Rc::new(cpd))))
        }
    }
}

// ---------------------------------------------------------------------------------------------
// Parameters
// ---------------------------------------------------------------------------------------------

const N_PARAMS: usize = 6;
/// batch leaf shapes (see `make_leaf`)
const N_BATCH_SHAPES: u8 = 7;

fn params(id: usize, log_blowup: usize) -> ProveNextLayerParams {
    let (packing, profile) = match id % N_PARAMS {
        0 => (TablePacking::new(1, 4), ConstraintProfile::Standard),
        1 => (TablePacking::new(2, 2), ConstraintProfile::Standard),
        2 => (TablePacking::new(1, 8).with_horner_pack_k(3), ConstraintProfile::Standard),
        3 => (TablePacking::new(3, 3), ConstraintProfile::RecursionOptimized),
        // recompose table packed two operations per row (the examples' non-default --recompose-lanes)
        4 => (TablePacking::new(1, 4).with_npo_lanes(p3_circuit::ops::NpoTypeId::recompose(), 2), ConstraintProfile::Standard),
        _ => (TablePacking::new(1, 4).with_horner_pack_k(4), ConstraintProfile::Standard),
    };
    ProveNextLayerParams {
        table_packing: packing.with_fri_params(0, log_blowup),
        constraint_profile: profile,
    }
}

// ---------------------------------------------------------------------------------------------
// History description
// ---------------------------------------------------------------------------------------------

#[derive(Clone, Copy, Debug, Serialize, Deserialize, PartialEq, Eq)]
enum Other {
    Leaf(Leaf),
    /// the current proof on both sides
    Cur,
    /// the output of an earlier step of this history (index), falls back to `Cur`
    Earlier(usize),
}

#[derive(Clone, Copy, Debug, Serialize, Deserialize, PartialEq, Eq)]
enum StepKind {
    Next,
    Agg { other: Other, cur_left: bool },
}

#[derive(Clone, Copy, Debug, Serialize, Deserialize, PartialEq, Eq)]
enum Offer {
    /// no cache: only the uncached call
    None,
    /// aggregation: `Some(&mut None)` (the call fills the slot)
    EmptySlot,
    /// cache prepared by an identical earlier call (same circuit, same params)
    Own,
    /// cache prepared for the same circuit under other `ProveNextLayerParams`
    OwnOtherParams(usize),
    /// whatever an earlier step of this history left in the slot
    Carry,
    /// cache prepared by the same call with one uni-STARK child replaced by a proof of another
    /// AIR kind (same shape)
    DonorAir(u8),
    /// cache prepared by the same call with one batch leaf replaced by another shape
    DonorBatch(u8),
}

#[derive(Clone, Debug, Serialize, Deserialize)]
struct Step {
    kind: StepKind,
    params: usize,
    offer: Offer,
    /// continue the chain from the cached output when it is usable
    continue_from_cached: bool,
    /// use the convenience wrappers (`build_and_prove_*`) for the uncached call
    wrapper: bool,
}

#[derive(Clone, Debug, Serialize, Deserialize)]
struct History {
    fri_shape: usize,
    start: Leaf,
    steps: Vec<Step>,
}

fn sibling_air(rng: &mut SmallRng, k: u8) -> u8 {
    // wiring variant, op-kind variant, constant variant
    let opts: &[u8] = match k {
        0 => &[1, 2],
        1 => &[0, 2],
        2 => &[0, 3],
        3 => &[4, 2],
        _ => &[3, 2],
    };
    *pick(rng, opts)
}

fn gen_history(rng: &mut SmallRng, tier: Tier, idx: usize) -> History {
    let depth = match tier {
        Tier::Quick => [1, 2, 2, 3][rng.random_range(0..4)],
        Tier::Thorough => [1, 2, 2, 3, 3, 4][rng.random_range(0..6)],
    };
    let leaf = |rng: &mut SmallRng| {
        if chance(rng, 3, 5) {
            Leaf::Uni(rng.random_range(0..AIR_KINDS.len() as u8))
        } else {
            Leaf::Batch(rng.random_range(0..N_BATCH_SHAPES))
        }
    };
    // themes make sure every adversarial cache relation is offered in every run
    let theme = idx % 8;
    let start = match theme {
        0 | 1 => Leaf::Uni(rng.random_range(0..AIR_KINDS.len() as u8)),
        2 => Leaf::Uni(rng.random_range(3..5)),
        3 => Leaf::Batch(rng.random_range(0..N_BATCH_SHAPES)),
        _ => leaf(rng),
    };
    let mut steps = vec![];
    let mut cur_uni = matches!(start, Leaf::Uni(_));
    let mut cur_batch_leaf = matches!(start, Leaf::Batch(_));
    let mut p = rng.random_range(0..N_PARAMS);
    for s in 0..depth {
        if chance(rng, 1, 2) {
            p = rng.random_range(0..N_PARAMS);
        }
        let is_agg = match (theme, s) {
            (0 | 2 | 3, 0) => true,
            (1, 0) => false,
            _ => chance(rng, 1, 2),
        };
        let kind = if is_agg {
            let other = match (theme, s) {
                (0, 0) => Other::Leaf(Leaf::Uni(rng.random_range(0..AIR_KINDS.len() as u8))),
                (2, 0) => Other::Leaf(Leaf::Uni(rng.random_range(3..5))),
                (3, 0) => Other::Leaf(Leaf::Batch(rng.random_range(0..N_BATCH_SHAPES))),
                _ => match rng.random_range(0..10u32) {
                    0 => Other::Cur,
                    1 | 2 if s > 0 => Other::Earlier(rng.random_range(0..s)),
                    _ => Other::Leaf(leaf(rng)),
                },
            };
            StepKind::Agg {
                other,
                cur_left: chance(rng, 1, 2),
            }
        } else {
            StepKind::Next
        };
        // which adversarial donors are realisable for this step
        let other_leaf = match kind {
            StepKind::Agg { other: Other::Leaf(l), .. } => Some(l),
            _ => None,
        };
        let uni_kind = match (other_leaf, cur_uni) {
            (Some(Leaf::Uni(k)), _) => Some(k),
            (_, true) => match start {
                Leaf::Uni(k) => Some(k),
                _ => None,
            },
            _ => None,
        };
        let has_batch_leaf = matches!(other_leaf, Some(Leaf::Batch(_))) || cur_batch_leaf;
        let mut offers = vec![Offer::None, Offer::Own, Offer::OwnOtherParams((p + 1 + rng.random_range(0..N_PARAMS - 1)) % N_PARAMS)];
        if s > 0 {
            offers.push(Offer::Carry);
            offers.push(Offer::Carry);
        }
        if is_agg {
            offers.push(Offer::EmptySlot);
        }
        if let Some(k) = uni_kind {
            for _ in 0..4 {
                offers.push(Offer::DonorAir(sibling_air(rng, k)));
            }
        }
        if has_batch_leaf {
            offers.push(Offer::DonorBatch(rng.random_range(0..N_BATCH_SHAPES)));
            offers.push(Offer::DonorBatch(rng.random_range(0..N_BATCH_SHAPES)));
        }
        let offer = match (theme, s, uni_kind) {
            (0, 0, Some(k)) => Offer::DonorAir(if k == 0 { 1 } else if k == 1 { 0 } else { sibling_air(rng, k) }),
            (1, 0, Some(k)) => Offer::DonorAir(sibling_air(rng, k)),
            (2, 0, Some(k)) => Offer::DonorAir(if k == 3 { 4 } else { 3 }),
            (3, 0, _) => Offer::DonorBatch(rng.random_range(0..N_BATCH_SHAPES)),
            (4, 0, _) => offers[2],
            (5, 0, _) => Offer::Own,
            _ => *pick(rng, &offers),
        };
        steps.push(Step {
            kind,
            params: p,
            offer,
            continue_from_cached: chance(rng, 1, 2),
            wrapper: chance(rng, 1, 2),
        });
        cur_uni = false;
        cur_batch_leaf = false;
    }
    History {
        // one history in five builds its verification circuits without the recompose table
        fri_shape: rng.random_range(0..FRI_SHAPES.len()) + if rng.random_range(0..5u32) == 0 { FRI_SHAPES.len() } else { 0 },
        start,
        steps,
    }
}

// ---------------------------------------------------------------------------------------------
// Running one step
// ---------------------------------------------------------------------------------------------

struct World {
    cfg: Cfg,
    backend: Backend,
    log_blowup: usize,
}

fn verr(e: &VerificationError) -> String {
    let s = format!("{e:?}");
    s.chars().take(160).collect()
}

fn err_variant(e: &VerificationError) -> String {
    let s = format!("{e:?}");
    s.split(|c: char| !c.is_alphanumeric()).next().unwrap_or("Err").to_string()
}

fn norm_site(msg: &str) -> String {
    let s = panic_site(msg);
    let s = s.rsplit_once(':').map(|(f, _)| f.to_string()).unwrap_or(s);
    if let Some(i) = s.find("/registry/src/") {
        let rest = &s[i + "/registry/src/".len()..];
        return rest.splitn(2, '/').nth(1).unwrap_or(rest).to_string();
    }
    if let Some(i) = s.find("/repo/") {
        return s[i + "/repo/".len()..].to_string();
    }
    s
}

struct Built {
    circuit: Circuit<Challenge>,
    /// one verifier result (next layer) or two (aggregation)
    vrs: Vec<VR>,
    fp: AggregationCircuitFingerprint,
    ops_digest: u64,
}

fn fingerprint(c: &Circuit<Challenge>) -> AggregationCircuitFingerprint {
    AggregationCircuitFingerprint {
        witness_count: c.witness_count,
        public_flat_len: c.public_flat_len,
        private_flat_len: c.private_flat_len,
        ops_len: c.ops.len(),
    }
}

fn finish_built(circuit: Circuit<Challenge>, vrs: Vec<VR>) -> Built {
    let fp = fingerprint(&circuit);
    let ops_digest = fnv(&ops_text(&circuit).join("\n"));
    Built {
        circuit,
        vrs,
        fp,
        ops_digest,
    }
}

/// The verifier circuit of a step, built through the public pieces of the API (the aggregation
/// variant mirrors the private `build_aggregation_layer_circuit`).
fn build_step(w: &World, inputs: &[&Node]) -> Result<Built, VerificationError> {
    if inputs.len() == 1 {
        let (c, vr) = build_next_layer_circuit::<Cfg, LeafAir, Backend, D>(&inputs[0].input(), &w.cfg, &w.backend)?;
        return Ok(finish_built(c, vec![vr]));
    }
    let mut cb = CircuitBuilder::new();
    PcsRecursionBackend::<Cfg, LeafAir, D>::prepare_circuit(&w.backend, &w.cfg, &mut cb)?;
    PcsRecursionBackend::<Cfg, LeafAir, D>::prepare_circuit(&w.backend, &w.cfg, &mut cb)?;
    let l = PcsRecursionBackend::<Cfg, LeafAir, D>::build_verifier_circuit(&w.backend, &inputs[0].input(), &w.cfg, &mut cb)?;
    let r = PcsRecursionBackend::<Cfg, LeafAir, D>::build_verifier_circuit(&w.backend, &inputs[1].input(), &w.cfg, &mut cb)?;
    let c = cb.build().map_err(VerificationError::CircuitBuilder)?;
    Ok(finish_built(c, vec![l, r]))
}

/// Preprocessed commitment of the honest key generation for (circuit, params).
fn keygen_commit(w: &World, c: &Circuit<Challenge>, p: &ProveNextLayerParams) -> Result<String, String> {
    let prep = build_next_layer_prep::<Cfg, LeafAir, Backend, D>(c, &w.cfg, &w.backend, p).map_err(|e| verr(&e))?;
    Ok(commitment_json(prep.circuit_prover_data.common_data()))
}

fn native_verify(w: &World, p: &ProveNextLayerParams, out: &RecursionOutput<Cfg>) -> Result<(), String> {
    let mut v = BatchStarkProver::new(w.cfg.clone()).with_table_packing(p.table_packing.clone());
    v.register_poseidon2_table::<4>(P2);
    v.register_recompose_table::<4>(false);
    match guarded(|| v.verify_all_tables::<Challenge>(&out.0)) {
        Ok(Ok(())) => Ok(()),
        Ok(Err(e)) => Err(format!("{e:?}").chars().take(160).collect()),
        Err(p) => Err(format!("panic in verify_all_tables: {}", norm_site(&p))),
    }
}

enum CacheRef<'a> {
    NoCache,
    Next(&'a NextLayerPrepCache<Cfg>),
    Agg(&'a mut Option<AggregationPrepCache<Cfg>>),
}

/// One call of the API under test.
fn call(
    w: &World,
    inputs: &[&Node],
    built: &Built,
    p: &ProveNextLayerParams,
    cache: CacheRef<'_>,
    wrapper: bool,
) -> Result<Result<RecursionOutput<Cfg>, VerificationError>, String> {
    guarded(|| {
        if inputs.len() == 1 {
            let input = inputs[0].input();
            match cache {
                CacheRef::Next(c) => prove_next_layer::<Cfg, LeafAir, Backend, D>(
                    &input,
                    &built.circuit,
                    &built.vrs[0],
                    &w.cfg,
                    &w.backend,
                    p,
                    Some(c),
                ),
                _ if wrapper => build_and_prove_next_layer::<Cfg, LeafAir, Backend, D>(&input, &w.cfg, &w.backend, p),
                _ => prove_next_layer::<Cfg, LeafAir, Backend, D>(
                    &input,
                    &built.circuit,
                    &built.vrs[0],
                    &w.cfg,
                    &w.backend,
                    p,
                    None,
                ),
            }
        } else {
            let (l, r) = (inputs[0].input(), inputs[1].input());
            let slot = match cache {
                CacheRef::Agg(s) => Some(s),
                _ => None,
            };
            if wrapper {
                build_and_prove_aggregation_layer::<Cfg, LeafAir, LeafAir, Backend, D>(&l, &r, &w.cfg, &w.backend, p, slot)
            } else {
                prove_aggregation_layer::<Cfg, LeafAir, LeafAir, Backend, D>(
                    &l,
                    &r,
                    &built.vrs[0],
                    &built.vrs[1],
                    &built.circuit,
                    &w.cfg,
                    &w.backend,
                    p,
                    slot,
                )
            }
        }
    })
}

/// What is known about a cache that is offered to a step.
struct CacheInfo {
    fp: AggregationCircuitFingerprint,
    ops_digest: u64,
    params: usize,
    /// commitment the cache carries
    commit: String,
}

struct Slots {
    next: Option<(NextLayerPrepCache<Cfg>, CacheInfo)>,
    agg: Option<AggregationPrepCache<Cfg>>,
    agg_info: Option<CacheInfo>,
}

fn relation(info: &CacheInfo, built: &Built, params: usize, right_commit_under_cache_params: Option<&String>) -> String {
    let circ = if info.ops_digest == built.ops_digest && info.fp == built.fp {
        "same-circuit"
    } else if info.fp == built.fp {
        if right_commit_under_cache_params == Some(&info.commit) {
            "same-counters-other-ops-same-preprocessing"
        } else {
            "same-counters-other-ops"
        }
    } else {
        "other-counters"
    };
    let par = if info.params == params { "same-params" } else { "other-params" };
    format!("{circ}/{par}")
}

/// Coarse part of a cache relation used in signatures: the params relation only matters when the
/// circuit is the same.
fn rel_sig(rel: &str) -> String {
    if rel.starts_with("same-circuit") || rel == "empty-slot" {
        rel.to_string()
    } else {
        rel.split('/').next().unwrap_or(rel).to_string()
    }
}

/// Does a further layer accept `node` as its input? (build the next verifier circuit and execute
/// it on the proof; no proving)
fn accepts(w: &World, node: &Node) -> Result<(), String> {
    let r = guarded(|| -> Result<(), String> {
        let input = node.input();
        let (c, vr) =
            build_next_layer_circuit::<Cfg, LeafAir, Backend, D>(&input, &w.cfg, &w.backend).map_err(|e| verr(&e))?;
        let pubs = VerifierCircuitResult::<Cfg, LeafAir>::pack_public_inputs(&vr, &input).map_err(|e| verr(&e))?;
        let privs = VerifierCircuitResult::<Cfg, LeafAir>::pack_private_inputs(&vr, &input).map_err(|e| verr(&e))?;
        let mut runner = c.runner();
        runner.set_public_inputs(&pubs).map_err(|e| format!("{e:?}"))?;
        runner.set_private_inputs(&privs).map_err(|e| format!("{e:?}"))?;
        PcsRecursionBackend::<Cfg, LeafAir, D>::set_private_data(
            &w.backend,
            &w.cfg,
            &mut runner,
            VerifierCircuitResult::<Cfg, LeafAir>::op_ids(&vr),
            &input,
        )
        .map_err(|e| e.to_string())?;
        runner.run().map(|_| ()).map_err(|e| format!("{e:?}").chars().take(160).collect())
    });
    match r {
        Ok(x) => x,
        Err(p) => Err(format!("panic: {}", norm_site(&p))),
    }
}

fn step_name(kind: &StepKind, names: &[String]) -> String {
    match kind {
        StepKind::Next => format!("next({})", names[0]),
        StepKind::Agg { .. } => format!("agg({},{})", names[0], names[1]),
    }
}

/// State invariant of an aggregation cache slot, checked right after a call that was handed the
/// slot returned `Ok`: the slot's fingerprint describes the slot's data. Either the slot was left
/// as offered (same fingerprint, same preprocessed commitment), or it now describes the circuit
/// that was just proven (this circuit's fingerprint). A slot whose data changed under an unchanged
/// foreign fingerprint poisons every later call that offers it.
fn slot_invariant(
    slot: &Option<AggregationPrepCache<Cfg>>,
    offered: Option<&CacheInfo>,
    res: &Option<Result<Result<RecursionOutput<Cfg>, VerificationError>, String>>,
    built: &Built,
    prefix: &[String],
    out: &mut Vec<CaseResult>,
    detail: &dyn Fn(Value) -> Value,
) {
    if let (Some(c), Some(Ok(Ok(_)))) = (slot, res) {
        let commit = commitment_json(c.circuit_prover_data.common_data());
        let untouched = offered.is_some_and(|o| o.fp == c.circuit_fingerprint && o.commit == commit);
        if c.circuit_fingerprint != built.fp && !untouched {
            out.push(CaseResult::violated(
                format!("{}|slot-after-call", prefix.join(">")),
                "cache-slot-stale-fingerprint-after-call",
                detail(json!({"slot": format!("{:?}", c.circuit_fingerprint), "circuit": format!("{:?}", built.fp),
                              "offered": offered.map(|o| format!("{:?}", o.fp))})),
            ));
        } else {
            out.push(CaseResult::held(format!("{}|slot-after-call", prefix.join(">")), true).count("slot-invariant-checked", 1));
        }
    }
}

fn run_history(h: &History, sample: bool) -> Vec<CaseResult> {
    let mut rs = run_history_inner(h, sample);
    if h.fri_shape >= FRI_SHAPES.len() {
        // the recompose-table-off variant has its own signatures and counters
        for r in rs.iter_mut() {
            if let Verdict::Violated { signature, detail } = &mut r.verdict {
                if detail.to_string().contains("non-primitive table count mismatch") {
                    // one root cause whatever the step kinds: the layer's proof carries no recompose
                    // table but the backend always expects one when it is consumed
                    *signature = "layer-output-not-chainable/recompose-table-off/non-primitive-table-count-mismatch".to_string();
                } else {
                    signature.push_str("/recompose-table-off");
                }
            }
            r.key.push_str("|recompose-table-off");
            r.counters.push(("variant/recompose-table-off".into(), 1));
        }
    }
    rs
}

fn run_history_inner(h: &History, sample: bool) -> Vec<CaseResult> {
    let cfg = make_cfg(h.fri_shape);
    let w = World {
        log_blowup: FRI_SHAPES[h.fri_shape % FRI_SHAPES.len()].0,
        cfg,
        backend: backend(),
    };
    let hist_json = serde_json::to_value(h).unwrap();
    let mut out: Vec<CaseResult> = vec![];
    let mut nodes: Vec<(Node, String)> = vec![]; // (proof, kind name: uni | batch | layer)
    match make_leaf(&w.cfg, h.start, w.log_blowup) {
        Ok(n) => {
            nodes.push((n, h.start.name()));
            out.push(CaseResult::held("leaf-made", false).count(format!("leaf/{:?}", h.start), 1));
        }
        Err(e) => return vec![CaseResult::inconclusive("leaf", format!("start leaf: {e}"))],
    }
    let mut cur = 0usize;
    let mut step_outputs: Vec<usize> = vec![];
    let mut slots = Slots {
        next: None,
        agg: None,
        agg_info: None,
    };
    let mut prefix: Vec<String> = vec![];
    for (si, st) in h.steps.iter().enumerate() {
        let p = params(st.params, w.log_blowup);
        // ---- inputs ----
        // position of the child a donor may replace
        let donor_replace: Option<usize>;
        let input_idx: Vec<usize> = match st.kind {
            StepKind::Next => {
                donor_replace = Some(0);
                vec![cur]
            }
            StepKind::Agg { other, cur_left } => {
                let o = match other {
                    Other::Cur => cur,
                    Other::Earlier(i) => step_outputs.get(i).copied().unwrap_or(cur),
                    Other::Leaf(l) => match make_leaf(&w.cfg, l, w.log_blowup) {
                        Ok(n) => {
                            nodes.push((n, l.name()));
                            out.push(CaseResult::held("leaf-made", false).count(format!("leaf/{l:?}"), 1));
                            nodes.len() - 1
                        }
                        Err(e) => {
                            out.push(CaseResult::inconclusive("leaf", format!("leaf: {e}")));
                            return out;
                        }
                    },
                };
                let v = if cur_left { vec![cur, o] } else { vec![o, cur] };
                // a donor replaces a leaf child: prefer the freshly made leaf, else the start leaf
                donor_replace = if matches!(other, Other::Leaf(_)) {
                    Some(if cur_left { 1 } else { 0 })
                } else if si == 0 {
                    Some(if cur_left { 0 } else { 1 })
                } else {
                    None
                };
                v
            }
        };
        let names: Vec<String> = input_idx.iter().map(|i| nodes[*i].1.clone()).collect();
        let sname = step_name(&st.kind, &names);
        prefix.push(sname.clone());
        let detail = |extra: Value| json!({"history": hist_json, "step": si, "step_name": sname, "observed": extra});
        let inputs: Vec<&Node> = input_idx.iter().map(|i| &nodes[*i].0).collect();
        // ---- the step's verifier circuit and its honest key ----
        let built = match guarded(|| build_step(&w, &inputs)) {
            Ok(Ok(b)) => b,
            Ok(Err(e)) => {
                out.push(CaseResult::violated(
                    format!("{}|build", prefix.join(">")),
                    format!("uncached-step-failed/build/{}", step_name(&st.kind, &names)),
                    detail(json!({"error": verr(&e), "what": "the previous output / leaf is not accepted as input"})),
                ));
                return out;
            }
            Err(pm) => {
                out.push(CaseResult::violated(
                    format!("{}|build", prefix.join(">")),
                    format!("panic/build/{}", norm_site(&pm)),
                    detail(json!({"panic": pm})),
                ));
                return out;
            }
        };
        let right_commit = match keygen_commit(&w, &built.circuit, &p) {
            Ok(c) => c,
            Err(e) => {
                out.push(CaseResult::inconclusive("keygen", format!("keygen of the step circuit failed: {e}")));
                return out;
            }
        };
        // ---- uncached call ----
        let unc = call(&w, &inputs, &built, &p, CacheRef::NoCache, st.wrapper);
        let unc_out = match unc {
            Ok(Ok(o)) => o,
            Ok(Err(e)) => {
                out.push(CaseResult::violated(
                    format!("{}|uncached", prefix.join(">")),
                    format!("uncached-step-failed/{}/{}", err_variant(&e), sname),
                    detail(json!({"error": verr(&e)})),
                ));
                return out;
            }
            Err(pm) => {
                out.push(CaseResult::violated(
                    format!("{}|uncached", prefix.join(">")),
                    format!("panic/uncached/{}", norm_site(&pm)),
                    detail(json!({"panic": pm})),
                ));
                return out;
            }
        };
        if let Err(e) = native_verify(&w, &p, &unc_out) {
            out.push(CaseResult::violated(
                format!("{}|uncached", prefix.join(">")),
                format!("uncached-output-unverifiable/{sname}"),
                detail(json!({"verify_all_tables": e})),
            ));
            return out;
        }
        let unc_commit = commitment_json(&unc_out.0.stark_common);
        if unc_commit != right_commit {
            out.push(CaseResult::violated(
                format!("{}|uncached", prefix.join(">")),
                format!("uncached-output-other-preprocessing/{sname}"),
                detail(json!({"what": "stark_common of the output differs from build_next_layer_prep of the same circuit and params"})),
            ));
            return out;
        }
        // ---- the cache offer ----
        let mut counters: Vec<(String, u64)> = vec![("steps".into(), 1), (format!("step/{sname}"), 1)];
        if si > 0 {
            counters.push(("previous-output-accepted-as-input".into(), 1));
        }
        let is_agg = inputs.len() == 2;
        // donor inputs (one child replaced)
        let donor_nodes: Option<Vec<Node>> = match (st.offer, donor_replace) {
            (Offer::DonorAir(k), Some(pos)) if matches!(nodes[input_idx[pos]].0, Node::Uni { .. }) => {
                make_leaf(&w.cfg, Leaf::Uni(k), w.log_blowup).ok().map(|n| vec![n])
            }
            (Offer::DonorBatch(s), Some(pos)) if matches!(nodes[input_idx[pos]].0, Node::Batch(_)) && nodes[input_idx[pos]].1 == "batch" => {
                make_leaf(&w.cfg, Leaf::Batch(s), w.log_blowup).ok().map(|n| vec![n])
            }
            _ => None,
        };
        let mut offered: Option<CacheInfo> = None;
        let mut offer_name = format!("{:?}", st.offer).split('(').next().unwrap_or("").to_string();
        let mut cached_res: Option<Result<Result<RecursionOutput<Cfg>, VerificationError>, String>> = None;
        let mut prep_holder: Option<NextLayerPrepCache<Cfg>> = None;
        match st.offer {
            Offer::None => {}
            Offer::EmptySlot if is_agg => {
                let mut slot: Option<AggregationPrepCache<Cfg>> = None;
                cached_res = Some(call(&w, &inputs, &built, &p, CacheRef::Agg(&mut slot), st.wrapper));
                if let Some(c) = &slot {
                    if c.circuit_fingerprint != built.fp {
                        out.push(CaseResult::violated(
                            format!("{}|slot", prefix.join(">")),
                            "cache-slot-filled-with-other-fingerprint",
                            detail(json!({"slot": format!("{:?}", c.circuit_fingerprint), "circuit": format!("{:?}", built.fp)})),
                        ));
                    }
                    slots.agg_info = Some(CacheInfo {
                        fp: c.circuit_fingerprint,
                        ops_digest: built.ops_digest,
                        params: st.params,
                        commit: commitment_json(c.circuit_prover_data.common_data()),
                    });
                }
                slots.agg = slot;
                // an empty slot is "no cache" for the verdict comparison
                offered = None;
                offer_name = "EmptySlot".into();
            }
            Offer::EmptySlot => {}
            Offer::Own | Offer::OwnOtherParams(_) | Offer::DonorAir(_) | Offer::DonorBatch(_) => {
                let cache_params_id = match st.offer {
                    Offer::OwnOtherParams(q) => q,
                    _ => st.params,
                };
                let cp = params(cache_params_id, w.log_blowup);
                // donor call inputs
                let donor_inputs: Option<Vec<&Node>> = match (&donor_nodes, donor_replace) {
                    (Some(d), Some(pos)) => {
                        let mut v = inputs.clone();
                        v[pos] = &d[0];
                        Some(v)
                    }
                    _ if matches!(st.offer, Offer::Own | Offer::OwnOtherParams(_)) => Some(inputs.clone()),
                    _ => None,
                };
                if let Some(di) = donor_inputs {
                    match guarded(|| build_step(&w, &di)) {
                        Ok(Ok(db)) => {
                            if is_agg {
                                let mut slot: Option<AggregationPrepCache<Cfg>> = None;
                                let fill = call(&w, &di, &db, &cp, CacheRef::Agg(&mut slot), false);
                                if let (Ok(Ok(_)), Some(c)) = (&fill, &slot) {
                                    offered = Some(CacheInfo {
                                        fp: c.circuit_fingerprint,
                                        ops_digest: db.ops_digest,
                                        params: cache_params_id,
                                        commit: commitment_json(c.circuit_prover_data.common_data()),
                                    });
                                    cached_res = Some(call(&w, &inputs, &built, &p, CacheRef::Agg(&mut slot), st.wrapper));
                                    slot_invariant(&slot, offered.as_ref(), &cached_res, &built, &prefix, &mut out, &detail);
                                    slots.agg_info = slot.as_ref().map(|c| CacheInfo {
                                        fp: c.circuit_fingerprint,
                                        // after a miss the slot was refilled for this step's circuit
                                        ops_digest: if c.circuit_fingerprint == db.fp && offered.as_ref().map(|o| &o.commit) == Some(&commitment_json(c.circuit_prover_data.common_data())) { db.ops_digest } else { built.ops_digest },
                                        params: if offered.as_ref().map(|o| &o.commit) == Some(&commitment_json(c.circuit_prover_data.common_data())) { cache_params_id } else { st.params },
                                        commit: commitment_json(c.circuit_prover_data.common_data()),
                                    });
                                    slots.agg = slot;
                                } else {
                                    counters.push(("donor-call-failed".into(), 1));
                                }
                            } else {
                                match guarded(|| build_next_layer_prep::<Cfg, LeafAir, Backend, D>(&db.circuit, &w.cfg, &w.backend, &cp)) {
                                    Ok(Ok(prep)) => {
                                        offered = Some(CacheInfo {
                                            fp: db.fp,
                                            ops_digest: db.ops_digest,
                                            params: cache_params_id,
                                            commit: commitment_json(prep.circuit_prover_data.common_data()),
                                        });
                                        cached_res = Some(call(&w, &inputs, &built, &p, CacheRef::Next(&prep), false));
                                        prep_holder = Some(prep);
                                    }
                                    _ => counters.push(("donor-prep-failed".into(), 1)),
                                }
                            }
                        }
                        _ => counters.push(("donor-build-failed".into(), 1)),
                    }
                } else {
                    counters.push(("offer-not-realisable".into(), 1));
                }
            }
            Offer::Carry => {
                if is_agg {
                    if let (Some(_), Some(info)) = (&slots.agg, slots.agg_info.take()) {
                        let mut slot = slots.agg.take();
                        offered = Some(info);
                        cached_res = Some(call(&w, &inputs, &built, &p, CacheRef::Agg(&mut slot), st.wrapper));
                        slot_invariant(&slot, offered.as_ref(), &cached_res, &built, &prefix, &mut out, &detail);
                        slots.agg_info = slot.as_ref().map(|c| {
                            let commit = commitment_json(c.circuit_prover_data.common_data());
                            let kept = offered.as_ref().map(|o| o.commit == commit).unwrap_or(false);
                            CacheInfo {
                                fp: c.circuit_fingerprint,
                                ops_digest: if kept { offered.as_ref().unwrap().ops_digest } else { built.ops_digest },
                                params: if kept { offered.as_ref().unwrap().params } else { st.params },
                                commit,
                            }
                        });
                        slots.agg = slot;
                    } else {
                        counters.push(("carry-slot-empty".into(), 1));
                    }
                } else if let Some((prep, info)) = slots.next.take() {
                    cached_res = Some(call(&w, &inputs, &built, &p, CacheRef::Next(&prep), false));
                    offered = Some(CacheInfo {
                        fp: info.fp,
                        ops_digest: info.ops_digest,
                        params: info.params,
                        commit: info.commit.clone(),
                    });
                    slots.next = Some((prep, info));
                } else {
                    counters.push(("carry-slot-empty".into(), 1));
                }
            }
        }
        // remember a next-layer prep for later Carry offers
        if !is_agg {
            if let (Some(prep), Some(info)) = (prep_holder.take(), offered.as_ref()) {
                slots.next = Some((
                    prep,
                    CacheInfo {
                        fp: info.fp,
                        ops_digest: info.ops_digest,
                        params: info.params,
                        commit: info.commit.clone(),
                    },
                ));
            }
        }
        // ---- oracle on the cached call ----
        let kind = if is_agg { "aggregation-cache" } else { "next-layer-prep" };
        let mut rel = "no-cache".to_string();
        let mut cached_usable: Option<RecursionOutput<Cfg>> = None;
        let mut violations: Vec<(String, Value)> = vec![];
        let cached_ran = cached_res.is_some();
        if let Some(res) = cached_res {
            let right_under_cache_params = offered.as_ref().and_then(|i| {
                if i.params == st.params {
                    Some(right_commit.clone())
                } else {
                    keygen_commit(&w, &built.circuit, &params(i.params, w.log_blowup)).ok()
                }
            });
            rel = match &offered {
                Some(i) => relation(i, &built, st.params, right_under_cache_params.as_ref()),
                None => "empty-slot".into(),
            };
            let same_circuit = rel.starts_with("same-circuit") || rel == "empty-slot";
            match res {
                Err(pm) => violations.push((
                    // the panic site depends on which table notices the foreign preprocessing first:
                    // it is reported in the detail, not in the signature
                    format!("panic/{kind}/{}", rel_sig(&rel)),
                    json!({"panic": pm, "panic_site": norm_site(&pm), "cache_relation": rel}),
                )),
                Ok(Err(e)) => {
                    counters.push((format!("cached-call-refused/{rel}/{}", err_variant(&e)), 1));
                    if same_circuit && rel.ends_with("same-params") || rel == "empty-slot" {
                        violations.push((
                            format!("cached-verdict-differs/{kind}/{}", rel_sig(&rel)),
                            json!({"uncached": "Ok+verifies", "cached": verr(&e), "cache_relation": rel}),
                        ));
                    }
                }
                Ok(Ok(o)) => {
                    let commit = commitment_json(&o.0.stark_common);
                    // the proof declares the packing it was proven under; verify with the verifier a
                    // relying party would build from the params of this call
                    let v = native_verify(&w, &p, &o);
                    let hit = match &offered {
                        Some(i) if i.commit == commit && commit != right_commit => "cache-used",
                        Some(i) if i.commit == commit => "cache-used-or-recomputed",
                        _ => "recomputed",
                    };
                    counters.push((format!("cached-call-ok/{rel}/{hit}"), 1));
                    match v {
                        Err(e) => violations.push((
                            format!("cached-output-unverifiable/{kind}/{}", rel_sig(&rel)),
                            json!({"verify_all_tables": e, "cache_relation": rel, "cache_used": hit,
                                "cache_fingerprint": offered.as_ref().map(|i| format!("{:?}", i.fp)), "circuit_fingerprint": format!("{:?}", built.fp)}),
                        )),
                        Ok(()) => {
                            let right = commit == right_commit || right_under_cache_params.as_ref() == Some(&commit);
                            if !right {
                                violations.push((
                                    format!("cached-output-bound-to-other-preprocessing/{kind}/{}", rel_sig(&rel)),
                                    json!({"cache_relation": rel, "cache_used": hit, "what": "output verifies but its stark_common is not the key of this step's circuit (under the call's or the cache's params)"}),
                                ));
                            } else {
                                cached_usable = Some(o);
                            }
                        }
                    }
                }
            }
        }
        let donor_note: Vec<(String, u64)> = match (st.offer, donor_replace, cached_ran) {
            (Offer::DonorAir(k2), Some(pos), true) => match &nodes[input_idx[pos]].0 {
                Node::Uni { air, .. } => vec![(
                    format!("donor-air/{} for {}/{}", AIR_KINDS[k2 as usize % 5], AIR_KINDS[air.kind as usize % 5], rel.split('/').next().unwrap_or("")),
                    1,
                )],
                _ => vec![],
            },
            _ => vec![],
        };
        let key = format!("{}|{}|{}", prefix.join(">"), offer_name, rel);
        if violations.is_empty() {
            let mut c = CaseResult::held(key, true);
            c.counters = counters;
            c.counters.push((format!("cache-relation/{rel}"), 1));
            c.counters.extend(donor_note.clone());
            if sample && si == 0 {
                c.sample = Some(json!({"history": hist_json, "first_step": sname, "fingerprint": format!("{:?}", built.fp), "cache_relation": rel}));
            }
            out.push(c);
        } else {
            for (i, (sig, d)) in violations.into_iter().enumerate() {
                let mut c = CaseResult::violated(key.clone(), sig, detail(d));
                if i == 0 {
                    c.counters = counters.clone();
                    c.counters.push((format!("cache-relation/{rel}"), 1));
                    c.counters.extend(donor_note.clone());
                }
                out.push(c);
            }
        }
        // ---- acceptance by a further layer, continuation of the chain ----
        let last = si + 1 == h.steps.len();
        let use_cached = cached_usable.is_some() && st.continue_from_cached;
        let mut cached_node = cached_usable.map(Node::Batch);
        let unc_node = Node::Batch(unc_out);
        if let Some(cn) = &cached_node {
            if !use_cached || last {
                match accepts(&w, cn) {
                    Ok(()) => {
                        out.last_mut().map(|c| c.counters.push(("cached-output-accepted-by-probe-layer".into(), 1)));
                    }
                    Err(e) => out.push(CaseResult::violated(
                        format!("{}|{}|{}|accept", prefix.join(">"), offer_name, rel),
                        format!("cached-output-not-accepted-by-next-layer/{kind}/{}", rel_sig(&rel)),
                        detail(json!({"next_layer": e, "cache_relation": rel})),
                    )),
                }
            }
        }
        if last && !use_cached {
            match accepts(&w, &unc_node) {
                Ok(()) => {
                    out.last_mut().map(|c| c.counters.push(("final-output-accepted-by-probe-layer".into(), 1)));
                }
                Err(e) => out.push(CaseResult::violated(
                    format!("{}|final-accept", prefix.join(">")),
                    format!("uncached-output-not-accepted-by-next-layer/{sname}"),
                    detail(json!({"next_layer": e})),
                )),
            }
        }
        let next_node = if use_cached {
            out.last_mut().map(|c| c.counters.push(("chain-continued-from-cached-output".into(), 1)));
            cached_node.take().unwrap()
        } else {
            unc_node
        };
        nodes.push((next_node, "layer".into()));
        cur = nodes.len() - 1;
        step_outputs.push(cur);
    }
    out
}

fn main() {
    let args = parse_args();
    let mut rep = Report::new(
        "C17",
        "exploration",
        &args,
        "case = one step of a generated call history (depth 1-4) of next_layer / aggregate calls over uni-STARK and \
         batch-STARK children, together with the cache offered to it; non-trivial = the uncached call ran, its output \
         verified natively and matched the honest key of the step's circuit (so chaining and the cached/uncached \
         comparison had a reference); distinct by (sequence of step kinds with child kinds so far, cache offer, \
         relation of the offered cache to the step's circuit and params)",
    );
    rep.assume("the reference preprocessed commitment of a step is build_next_layer_prep(circuit built through the public backend calls, params) (deterministic compilation: C18)");
    rep.assume("a relying party verifies a layer output with a prover built from the call's params and registered Poseidon2 + recompose tables");
    rep.assume("an Ok proof that does not verify is a violation even under test FRI parameters (verification is exact, not statistical)");
    if let Some(pth) = &args.replay {
        let v: Value = serde_json::from_str(&std::fs::read_to_string(pth).expect("replay file")).expect("json");
        let h: History = serde_json::from_value(v["detail"]["history"].clone()).expect("history");
        let rs = run_history(&h, false);
        for r in &rs {
            if let Verdict::Violated { signature, .. } = &r.verdict {
                println!("replay: {signature}");
            }
        }
        rep.add_all(rs);
        rep.finish(0);
    }
    let n = args
        .extra
        .get("n")
        .and_then(|s| s.parse().ok())
        .unwrap_or(args.tier.pick(64usize, 400usize));
    let (seed, tier) = (args.seed, args.tier);
    let results = run_cases(n, args.threads, |i| {
        let mut rng = case_rng(seed, "c17", i as u64);
        let h = gen_history(&mut rng, tier, i);
        let t = std::time::Instant::now();
        let mut r = run_history(&h, i < 6);
        if let Some(f) = r.first_mut() {
            f.counters.push(("history-ms".into(), t.elapsed().as_millis() as u64));
            f.counters.push((format!("histories/depth-{}", h.steps.len()), 1));
        }
        r
    });
    for r in &results {
        for (k, _) in &r.counters {
            if let Some(x) = k.strip_prefix("cache-relation/") {
                rep.observe("cache-relations", x);
            }
            if let Some(x) = k.strip_prefix("step/") {
                rep.observe("step-shapes", x);
            }
            if let Some(x) = k.strip_prefix("cached-call-") {
                rep.observe("cached-call-outcomes", x);
            }
        }
    }
    rep.set_extra("histories", json!(n));
    rep.add_all(results);
    rep.finish(args.tier.pick(15, 150));
}
