//! C20 — verifier arithmetic gadgets equal their native counterparts.
//!
//! Monitor: for every (gadget, parameter tuple) a small circuit is built whose public inputs are
//! the gadget inputs; the *real* gadget of `/repo` is called on them, the circuit is run, and the
//! value of every output target (witness slot of the target and, independently, its tag probe)
//! is compared with the native Plonky3 computation of the same quantity:
//!
//! | gadget (repo)                                   | native oracle                                        |
//! |-------------------------------------------------|------------------------------------------------------|
//! | `RecursivePcs::selectors_at_point_circuit`       | `PolynomialSpace::selectors_at_point`                |
//! | `vanishing_poly_at_point_circuit`                | `PolynomialSpace::vanishing_poly_at_point`           |
//! | `recompose_quotient_from_chunks_circuit`         | `p3_uni_stark::recompose_quotient_from_chunks`       |
//! | `evaluate_periodic_columns(_at_point)_circuit`   | `PolynomialSpace::evaluate_periodic_column_at`       |
//! | `evaluate_polynomial`                            | Horner over the field                                |
//! | `circuit_exp_by_constant`                        | `exp_u64`                                            |
//! | `one_hot_from_bits`, `reconstruct_evals`         | the placement loop of `p3_fri::verifier::verify_query` |
//! | `precompute_two_adic_powers`                     | `two_adic_generator(h)^(2^j)`                        |
//! | `compute_final_query_point`                      | `g^(reverse_bits_len(index >> consumed, log_max))`   |
//! | `precompute_evaluation_points`                   | `GENERATOR * g_h^(reverse_bits_len(index >> .., h))` |
//! | `precompute_subgroup_starts`                     | `subgroup_start` of `TwoAdicFriFolding::fold_row`    |
//! | `arity2_fold_at_point`                           | 2-point Lagrange interpolation                       |
//! | `fold_one_phase` (and starts + phases chained)   | `TwoAdicFriFolding::fold_row` + roll-in              |

use std::marker::PhantomData;

use p3_circuit::{Circuit, CircuitBuilder, CircuitError};
use p3_commit::PolynomialSpace;
use p3_field::coset::TwoAdicMultiplicativeCoset as Coset;
use p3_field::{
    BasedVectorSpace, ExtensionField, Field, PrimeCharacteristicRing, PrimeField64, TwoAdicField,
};
use p3_fri::{FriFoldingStrategy, TwoAdicFriFolding};
use p3_recursion::Target;
use p3_recursion::pcs::fri::verif_hooks as fh;
use p3_util::reverse_bits_len;
use p3r_verif::util::*;
use rand::RngExt;
use rand::rngs::SmallRng;
use serde::{Deserialize, Serialize};
use serde_json::{Value, json};

// ---------------------------------------------------------------------------------------------
// Configurations
// ---------------------------------------------------------------------------------------------

/// A field pair together with a concrete PCS whose `RecursivePcs` implementation is exercised.
trait Cfg: 'static {
    const NAME: &'static str;
    type F: TwoAdicField + PrimeField64;
    type EF: ExtensionField<Self::F> + BasedVectorSpace<Self::F> + Eq + std::hash::Hash;

    /// `[is_first_row, is_last_row, is_transition, inv_vanishing]`
    fn selectors(b: &mut CircuitBuilder<Self::EF>, d: &Coset<Self::F>, pt: Target) -> Vec<Target>;
    fn vanishing(b: &mut CircuitBuilder<Self::EF>, d: &Coset<Self::F>, pt: Target) -> Target;
    fn recompose(
        b: &mut CircuitBuilder<Self::EF>,
        doms: &[Coset<Self::F>],
        chunks: &[Vec<Target>],
        zeta: Target,
    ) -> Target;
    fn periodic_pcs(
        b: &mut CircuitBuilder<Self::EF>,
        d: &Coset<Self::F>,
        cols: &[Vec<Self::F>],
        pt: Target,
    ) -> Result<Vec<Target>, String>;
    fn native_recompose(doms: &[Coset<Self::F>], chunks: &[Vec<Self::EF>], zeta: Self::EF) -> Self::EF;
}

/// Body shared by all configurations; expects `F`, `Challenge`, `SC`, `IP`, `OP`, `Comm` and
/// `mk() -> SC` in scope.
macro_rules! cfg_impl {
    ($label:expr) => {
        pub struct C;
        impl super::Cfg for C {
            const NAME: &'static str = $label;
            type F = F;
            type EF = Challenge;

            fn selectors(
                b: &mut p3_circuit::CircuitBuilder<Challenge>,
                d: &super::Coset<F>,
                pt: super::Target,
            ) -> Vec<super::Target> {
                let cfg = mk();
                let pcs = p3_uni_stark::StarkGenericConfig::pcs(&cfg);
                let s = <_ as p3_recursion::RecursivePcs<SC, IP, OP, Comm, super::Coset<F>>>::selectors_at_point_circuit(pcs, b, d, &pt);
                vec![
                    s.row_selectors.is_first_row,
                    s.row_selectors.is_last_row,
                    s.row_selectors.is_transition,
                    s.inv_vanishing,
                ]
            }
            fn vanishing(
                b: &mut p3_circuit::CircuitBuilder<Challenge>,
                d: &super::Coset<F>,
                pt: super::Target,
            ) -> super::Target {
                let cfg = mk();
                let pcs = p3_uni_stark::StarkGenericConfig::pcs(&cfg);
                p3_recursion::verifier::verif_hooks::vanishing_poly_at_point_circuit::<SC, IP, OP, Comm, super::Coset<F>>(pcs, d, pt, b)
            }
            fn recompose(
                b: &mut p3_circuit::CircuitBuilder<Challenge>,
                doms: &[super::Coset<F>],
                chunks: &[Vec<super::Target>],
                zeta: super::Target,
            ) -> super::Target {
                let cfg = mk();
                let pcs = p3_uni_stark::StarkGenericConfig::pcs(&cfg);
                p3_recursion::verifier::recompose_quotient_from_chunks_circuit::<SC, IP, OP, Comm, super::Coset<F>>(b, doms, chunks, zeta, pcs)
            }
            fn periodic_pcs(
                b: &mut p3_circuit::CircuitBuilder<Challenge>,
                d: &super::Coset<F>,
                cols: &[Vec<F>],
                pt: super::Target,
            ) -> Result<Vec<super::Target>, String> {
                let cfg = mk();
                let pcs = p3_uni_stark::StarkGenericConfig::pcs(&cfg);
                <_ as p3_recursion::RecursivePcs<SC, IP, OP, Comm, super::Coset<F>>>::evaluate_periodic_columns_at_point_circuit(pcs, b, d, cols, pt)
                    .map_err(|e| format!("{e:?}"))
            }
            fn native_recompose(doms: &[super::Coset<F>], chunks: &[Vec<Challenge>], zeta: Challenge) -> Challenge {
                p3_uni_stark::recompose_quotient_from_chunks::<SC>(doms, chunks, zeta)
            }
        }
    };
}

macro_rules! twoadic_types {
    () => {
        use p3_recursion::pcs::fri::{
            FriProofTargets, InputProofTargets, MerkleCapTargets, RecExtensionValMmcs, RecValMmcs, Witness,
        };
        pub type SC = MyConfig;
        pub type RecVal = RecValMmcs<F, DIGEST_ELEMS, MyHash, MyCompress>;
        pub type IP = InputProofTargets<F, Challenge, RecVal>;
        pub type OP = FriProofTargets<F, Challenge, RecExtensionValMmcs<F, Challenge, DIGEST_ELEMS, RecVal>, IP, Witness<F>>;
        pub type Comm = MerkleCapTargets<F, DIGEST_ELEMS>;
    };
}

mod bb {
    use p3_test_utils::baby_bear_params::*;
    twoadic_types!();
    fn mk() -> SC {
        make_test_config()
    }
    cfg_impl!("babybear-d4");
}

mod kbq {
    use p3_test_utils::koala_bear_quintic_params::*;
    twoadic_types!();
    fn mk() -> SC {
        make_test_config()
    }
    cfg_impl!("koalabear-d5-quintic");
}

mod gl {
    use p3_test_utils::goldilocks_params::*;
    use rand::SeedableRng;
    twoadic_types!();
    fn mk() -> SC {
        let mut rng = rand::rngs::SmallRng::seed_from_u64(1);
        let perm = Poseidon2Goldilocks::<8>::new_from_rng_128(&mut rng);
        let hash = MyHash::new(perm.clone());
        let compress = MyCompress::new(perm.clone());
        let val_mmcs = MyMmcs::new(hash, compress, 0);
        let challenge_mmcs = ChallengeMmcs::new(val_mmcs.clone());
        let fri_params = FriParameters::new_testing(challenge_mmcs, 0);
        let pcs = MyPcs::new(Dft::default(), val_mmcs, fri_params);
        MyConfig::new(pcs, Challenger::new(perm))
    }
    cfg_impl!("goldilocks-d2");
}

/// KoalaBear D4 with the ZK `HidingFriPcs` (its own `RecursivePcs` implementation).
mod kbh {
    use p3_fri::HidingFriPcs;
    use p3_merkle_tree::MerkleTreeHidingMmcs;
    use p3_recursion::pcs::fri::{
        HidingFriProofTargets, InputProofTargets, MerkleCapTargets, RecExtensionValMmcs, RecValHidingMmcs, Witness,
    };
    use p3_test_utils::koala_bear_params::*;
    use rand::SeedableRng;
    use rand::rngs::SmallRng;
    const SALT_ELEMS: usize = 4;
    type HidingValMmcs = MerkleTreeHidingMmcs<
        <F as Field>::Packing,
        <F as Field>::Packing,
        MyHash,
        MyCompress,
        SmallRng,
        2,
        DIGEST_ELEMS,
        SALT_ELEMS,
    >;
    type HidingChallengeMmcs = ExtensionMmcs<F, Challenge, HidingValMmcs>;
    type MyPcsZk = HidingFriPcs<F, Dft, HidingValMmcs, HidingChallengeMmcs, SmallRng>;
    pub type SC = StarkConfig<MyPcsZk, Challenge, Challenger>;
    type RecVal = RecValHidingMmcs<F, DIGEST_ELEMS, SALT_ELEMS, MyHash, MyCompress, SmallRng>;
    pub type IP = InputProofTargets<F, Challenge, RecVal>;
    pub type OP =
        HidingFriProofTargets<F, Challenge, RecExtensionValMmcs<F, Challenge, DIGEST_ELEMS, RecVal>, IP, Witness<F>>;
    pub type Comm = MerkleCapTargets<F, DIGEST_ELEMS>;
    fn mk() -> SC {
        let perm = default_koalabear_poseidon2_16();
        let hash = MyHash::new(perm.clone());
        let compress = MyCompress::new(perm.clone());
        let val_mmcs = HidingValMmcs::new(hash, compress, 0, SmallRng::seed_from_u64(11));
        let challenge_mmcs = HidingChallengeMmcs::new(val_mmcs.clone());
        let fri_params = FriParameters::new_testing(challenge_mmcs, 0);
        let pcs = MyPcsZk::new(Dft::default(), val_mmcs, fri_params, 2, SmallRng::seed_from_u64(1));
        SC::new(pcs, Challenger::new(perm))
    }
    cfg_impl!("koalabear-d4-hiding");
}

const CFGS: [&str; 4] = ["babybear-d4", "goldilocks-d2", "koalabear-d5-quintic", "koalabear-d4-hiding"];

macro_rules! dispatch {
    ($cfg:expr, $f:ident ( $($a:expr),* )) => {
        match $cfg {
            "babybear-d4" => $f::<bb::C>($($a),*),
            "goldilocks-d2" => $f::<gl::C>($($a),*),
            "koalabear-d5-quintic" => $f::<kbq::C>($($a),*),
            _ => $f::<kbh::C>($($a),*),
        }
    };
}

// ---------------------------------------------------------------------------------------------
// Gadget specifications
// ---------------------------------------------------------------------------------------------

const SHIFT_GEN: u64 = u64::MAX;
const SHIFT_RAND: u64 = u64::MAX - 1;

#[derive(Clone, Debug, Serialize, Deserialize)]
enum Spec {
    Selectors { log_n: usize, shift: u64 },
    Vanishing { log_n: usize, shift: u64 },
    /// Domains exactly as `p3_uni_stark::verify`: trace domain of `log_deg + zk` bits (shift
    /// `shift`), disjoint quotient domain of `log_deg + zk + log_q` bits split into
    /// `2^(log_q + zk)` chunks.
    Recompose { log_deg: usize, log_q: usize, zk: bool, shift: u64 },
    Periodic { via_pcs: bool, log_n: usize, shift: u64, lens: Vec<usize>, col_seed: u64 },
    EvalPoly { len: usize },
    ExpConst { n: u64 },
    OneHot { bits: usize },
    Reconstruct { log_arity: usize },
    TwoAdicPowers { log_h: usize },
    FinalQueryPoint { log_max: usize, consumed: usize },
    EvalPoints { log_global: usize, heights: Vec<usize> },
    SubgroupStarts { log_max: usize, log_arities: Vec<usize> },
    Arity2Fold,
    FoldPhase { log_max: usize, consumed: usize, log_arity: usize, roll_in: bool },
    FoldChain { log_max: usize, log_arities: Vec<usize>, roll_ins: Vec<bool> },
}

fn shift_class<C: Cfg>(s: u64) -> &'static str {
    if s == 1 {
        "one"
    } else if s == C::F::GENERATOR.as_canonical_u64() {
        "gen"
    } else {
        "rand"
    }
}

impl Spec {
    fn gadget(&self) -> &'static str {
        match self {
            Spec::Selectors { .. } => "selectors_at_point",
            Spec::Vanishing { .. } => "vanishing_poly_at_point",
            Spec::Recompose { .. } => "recompose_quotient",
            Spec::Periodic { via_pcs: true, .. } => "periodic_at_point(pcs)",
            Spec::Periodic { via_pcs: false, .. } => "periodic_columns",
            Spec::EvalPoly { .. } => "evaluate_polynomial",
            Spec::ExpConst { .. } => "exp_by_constant",
            Spec::OneHot { .. } => "one_hot_from_bits",
            Spec::Reconstruct { .. } => "reconstruct_evals",
            Spec::TwoAdicPowers { .. } => "two_adic_powers",
            Spec::FinalQueryPoint { .. } => "final_query_point",
            Spec::EvalPoints { .. } => "evaluation_points",
            Spec::SubgroupStarts { .. } => "subgroup_starts",
            Spec::Arity2Fold => "arity2_fold_at_point",
            Spec::FoldPhase { .. } => "fold_one_phase",
            Spec::FoldChain { .. } => "fold_chain",
        }
    }
    /// Parameter tuple (shift by class, column values dropped).
    fn key<C: Cfg>(&self) -> String {
        match self {
            Spec::Selectors { log_n, shift } | Spec::Vanishing { log_n, shift } => {
                format!("{}:({log_n},{})", self.gadget(), shift_class::<C>(*shift))
            }
            Spec::Recompose { log_deg, log_q, zk, shift } => {
                format!("{}:({log_deg},{log_q},{zk},{})", self.gadget(), shift_class::<C>(*shift))
            }
            Spec::Periodic { via_pcs, log_n, shift, lens, .. } => {
                let _ = via_pcs;
                format!("{}:({log_n},{},{lens:?})", self.gadget(), shift_class::<C>(*shift))
            }
            other => format!("{}:{other:?}", self.gadget()),
        }
    }
    /// Coarse shape class for signatures (code path of the gadget).
    fn shape(&self) -> String {
        match self {
            Spec::Selectors { log_n, .. } | Spec::Vanishing { log_n, .. } | Spec::Periodic { log_n, .. } => {
                if *log_n == 0 { "size1".into() } else { "sizeN".into() }
            }
            Spec::Recompose { log_q, zk, .. } => {
                if log_q + (*zk as usize) == 0 { "chunks1".into() } else { format!("chunksN/zk={zk}") }
            }
            Spec::EvalPoly { len } => if *len == 1 { "len1".into() } else { "lenN".into() },
            Spec::ExpConst { n } => {
                if *n == 1 { "n1".into() } else if n.is_power_of_two() { "pow2".into() } else { "general".into() }
            }
            Spec::OneHot { bits } => format!("bits{}", (*bits).min(5)),
            Spec::Reconstruct { log_arity } | Spec::FoldPhase { log_arity, .. } => {
                format!("log_arity{}", (*log_arity).min(4))
            }
            _ => "any".into(),
        }
    }
}

// ---------------------------------------------------------------------------------------------
// Field helpers
// ---------------------------------------------------------------------------------------------

fn fe<C: Cfg>(v: u64) -> C::F {
    C::F::from_u64(v % C::F::ORDER_U64)
}
fn el<C: Cfg>(c: &[u64]) -> C::EF {
    C::EF::from_basis_coefficients_fn(|i| fe::<C>(c.get(i).copied().unwrap_or(0)))
}
fn co<C: Cfg>(e: &C::EF) -> Vec<u64> {
    e.as_basis_coefficients_slice().iter().map(|c| c.as_canonical_u64()).collect()
}
fn rnd_f<C: Cfg>(rng: &mut SmallRng) -> C::F {
    fe::<C>(rng.random::<u64>())
}
fn rnd_ef<C: Cfg>(rng: &mut SmallRng) -> C::EF {
    C::EF::from_basis_coefficients_fn(|_| fe::<C>(rng.random::<u64>()))
}
fn base<C: Cfg>(f: C::F) -> C::EF {
    C::EF::from(f)
}
fn bits_of<C: Cfg>(index: u64, n: usize) -> Vec<C::EF> {
    (0..n).map(|k| if (index >> k) & 1 == 1 { C::EF::ONE } else { C::EF::ZERO }).collect()
}
fn index_of<C: Cfg>(bits: &[C::EF]) -> usize {
    bits.iter().enumerate().fold(0usize, |a, (k, b)| a | (((*b == C::EF::ONE) as usize) << k))
}
fn coset<C: Cfg>(shift: u64, log_n: usize) -> Coset<C::F> {
    Coset::new(fe::<C>(shift), log_n).expect("coset")
}
fn periodic_cols<C: Cfg>(lens: &[usize], col_seed: u64) -> Vec<Vec<C::F>> {
    lens.iter()
        .enumerate()
        .map(|(j, &l)| {
            let mut r = case_rng(col_seed, "c20-cols", j as u64);
            (0..l).map(|_| rnd_f::<C>(&mut r)).collect()
        })
        .collect()
}
fn recompose_domains<C: Cfg>(log_deg: usize, log_q: usize, zk: bool, shift: u64) -> (Coset<C::F>, Vec<Coset<C::F>>) {
    // p3_uni_stark::verify: degree_bits includes the ZK doubling; the quotient domain has
    // degree_bits + log_num_quotient_chunks bits and is split into 2^(log_chunks + zk) chunks.
    let degree_bits = log_deg + zk as usize;
    let trace = coset::<C>(shift, degree_bits);
    let qd = trace.create_disjoint_domain(1usize << (degree_bits + log_q));
    let chunks = qd.split_domains(1usize << (log_q + zk as usize));
    (trace, chunks)
}
fn cumulative(log_arities: &[usize]) -> Vec<usize> {
    let mut c = vec![0usize];
    for &la in log_arities {
        c.push(c.last().unwrap() + la);
    }
    c
}

// ---------------------------------------------------------------------------------------------
// Building the gadget circuits (real repo code)
// ---------------------------------------------------------------------------------------------

struct Built<EF: Field> {
    circuit: Circuit<EF>,
    outs: Vec<Target>,
    n_in: usize,
    ops: usize,
}

enum BuildErr {
    /// The gadget itself returned an error (only periodic columns can).
    Rejected(String),
    /// A defect visible at build time (missing output).
    Defect(String, String),
    Harness(String),
}

fn n_inputs<C: Cfg>(spec: &Spec) -> usize {
    let d = <C::EF as BasedVectorSpace<C::F>>::DIMENSION;
    match spec {
        Spec::Selectors { .. } | Spec::Vanishing { .. } | Spec::Periodic { .. } | Spec::ExpConst { .. } => 1,
        Spec::Recompose { log_q, zk, .. } => 1 + (1usize << (log_q + *zk as usize)) * d,
        Spec::EvalPoly { len } => len + 1,
        Spec::OneHot { bits } => *bits,
        Spec::Reconstruct { log_arity } => (1usize << log_arity) + log_arity,
        Spec::TwoAdicPowers { .. } => 0,
        Spec::FinalQueryPoint { log_max, .. } => *log_max,
        Spec::EvalPoints { log_global, .. } => *log_global,
        Spec::SubgroupStarts { log_max, .. } => *log_max,
        Spec::Arity2Fold => 4,
        Spec::FoldPhase { log_max, log_arity, roll_in, .. } => {
            1 + ((1usize << log_arity) - 1) + 1 + log_max + *roll_in as usize + 1
        }
        Spec::FoldChain { log_max, log_arities, roll_ins } => {
            1 + log_max
                + log_arities.iter().map(|la| (1usize << la) - 1 + 1).sum::<usize>()
                + roll_ins.iter().filter(|r| **r).count()
        }
    }
}

fn build<C: Cfg>(spec: &Spec) -> Result<Built<C::EF>, BuildErr> {
    let mut b = CircuitBuilder::<C::EF>::new();
    let n = n_inputs::<C>(spec);
    let x: Vec<Target> = (0..n).map(|_| b.public_input()).collect();
    let d = <C::EF as BasedVectorSpace<C::F>>::DIMENSION;
    let outs: Vec<Target> = match spec {
        Spec::Selectors { log_n, shift } => C::selectors(&mut b, &coset::<C>(*shift, *log_n), x[0]),
        Spec::Vanishing { log_n, shift } => vec![C::vanishing(&mut b, &coset::<C>(*shift, *log_n), x[0])],
        Spec::Recompose { log_deg, log_q, zk, shift } => {
            let (_, doms) = recompose_domains::<C>(*log_deg, *log_q, *zk, *shift);
            let chunks: Vec<Vec<Target>> = (0..doms.len()).map(|i| x[1 + i * d..1 + (i + 1) * d].to_vec()).collect();
            vec![C::recompose(&mut b, &doms, &chunks, x[0])]
        }
        Spec::Periodic { via_pcs, log_n, shift, lens, col_seed } => {
            let dom = coset::<C>(*shift, *log_n);
            let cols = periodic_cols::<C>(lens, *col_seed);
            let r = if *via_pcs {
                C::periodic_pcs(&mut b, &dom, &cols, x[0])
            } else {
                p3_recursion::verifier::verif_hooks::evaluate_periodic_columns_circuit::<C::F, C::EF>(
                    &mut b, &dom, &cols, x[0],
                )
                .map_err(|e| format!("{e:?}"))
            };
            match r {
                Ok(o) => {
                    if o.len() != cols.len() {
                        return Err(BuildErr::Defect(
                            "output-count-mismatch/periodic".into(),
                            format!("{} outputs for {} columns", o.len(), cols.len()),
                        ));
                    }
                    o
                }
                Err(e) => return Err(BuildErr::Rejected(e)),
            }
        }
        Spec::EvalPoly { len } => vec![fh::evaluate_polynomial::<C::EF>(&mut b, &x[..*len], x[*len])],
        Spec::ExpConst { n } => vec![fh::circuit_exp_by_constant::<C::EF>(&mut b, x[0], *n as usize)],
        Spec::OneHot { .. } => fh::one_hot_from_bits::<C::EF>(&mut b, &x),
        Spec::Reconstruct { log_arity } => {
            let arity = 1usize << log_arity;
            fh::reconstruct_evals::<C::EF>(&mut b, x[0], &x[1..arity], &x[arity..])
        }
        Spec::TwoAdicPowers { log_h } => fh::precompute_two_adic_powers::<C::F, C::EF>(&mut b, *log_h),
        Spec::FinalQueryPoint { log_max, consumed } => {
            let pows = fh::precompute_two_adic_powers::<C::F, C::EF>(&mut b, *log_max);
            vec![fh::compute_final_query_point::<C::F, C::EF>(&mut b, &x, *log_max, *consumed, &pows)]
        }
        Spec::EvalPoints { log_global, heights } => {
            let m = fh::precompute_evaluation_points::<C::F, C::EF>(&mut b, heights, &x, *log_global);
            let mut o = vec![];
            for h in heights {
                match m.get(h) {
                    Some(t) => o.push(*t),
                    None => {
                        return Err(BuildErr::Defect(
                            "missing-height/evaluation_points".into(),
                            format!("height {h} absent from the returned map"),
                        ));
                    }
                }
            }
            if m.len() != heights.len() {
                return Err(BuildErr::Defect(
                    "extra-height/evaluation_points".into(),
                    format!("{} keys for {} heights", m.len(), heights.len()),
                ));
            }
            o
        }
        Spec::SubgroupStarts { log_max, log_arities } => {
            let o = fh::precompute_subgroup_starts::<C::F, C::EF>(&mut b, &x, *log_max, log_arities, &cumulative(log_arities));
            if o.len() != log_arities.len() {
                return Err(BuildErr::Defect(
                    "output-count-mismatch/subgroup_starts".into(),
                    format!("{} outputs for {} phases", o.len(), log_arities.len()),
                ));
            }
            o
        }
        Spec::Arity2Fold => vec![fh::arity2_fold_at_point::<C::EF>(&mut b, x[0], x[1], x[2], x[3])],
        Spec::FoldPhase { log_max, consumed, log_arity, roll_in } => {
            let arity = 1usize << log_arity;
            let folded = x[0];
            let sib = &x[1..arity];
            let beta = x[arity];
            let bits = &x[arity + 1..arity + 1 + log_max];
            let mut p = arity + 1 + log_max;
            let ro = if *roll_in {
                p += 1;
                Some(x[p - 1])
            } else {
                None
            };
            let ss = x[p];
            vec![fh::fold_one_phase::<C::F, C::EF>(&mut b, folded, sib, beta, bits, *consumed, *log_arity, ro, ss)]
        }
        Spec::FoldChain { log_max, log_arities, roll_ins } => {
            let bits = &x[1..1 + log_max];
            let starts =
                fh::precompute_subgroup_starts::<C::F, C::EF>(&mut b, bits, *log_max, log_arities, &cumulative(log_arities));
            let mut folded = x[0];
            let mut p = 1 + log_max;
            let mut consumed = 0;
            let mut o = vec![];
            for (i, &la) in log_arities.iter().enumerate() {
                let ns = (1usize << la) - 1;
                let sib = &x[p..p + ns];
                let beta = x[p + ns];
                p += ns + 1;
                let ro = if roll_ins[i] {
                    p += 1;
                    Some(x[p - 1])
                } else {
                    None
                };
                folded = fh::fold_one_phase::<C::F, C::EF>(&mut b, folded, sib, beta, bits, consumed, la, ro, starts[i]);
                consumed += la;
                o.push(folded);
            }
            o
        }
    };
    for (i, o) in outs.iter().enumerate() {
        b.tag(*o, format!("o{i}")).map_err(|e| BuildErr::Harness(format!("tag: {e:?}")))?;
    }
    let circuit = b.build().map_err(|e| BuildErr::Harness(format!("build: {e:?}")))?;
    let ops = circuit.ops.len();
    Ok(Built { circuit, outs, n_in: n, ops })
}

enum RunErr {
    DivByZero,
    Other(String),
    Harness(String),
}

fn run<C: Cfg>(bt: &Built<C::EF>, x: &[C::EF]) -> Result<Vec<C::EF>, RunErr> {
    if x.len() != bt.n_in {
        return Err(RunErr::Harness(format!("input arity {} != {}", x.len(), bt.n_in)));
    }
    let mut r = bt.circuit.runner();
    r.set_public_inputs(x).map_err(|e| RunErr::Harness(format!("set_public_inputs: {e:?}")))?;
    let traces = match r.run() {
        Ok(t) => t,
        Err(CircuitError::DivisionByZero) => return Err(RunErr::DivByZero),
        Err(e) => {
            let s = format!("{e:?}");
            return Err(RunErr::Other(s.split(|c: char| !c.is_alphanumeric()).next().unwrap_or("Err").to_string()));
        }
    };
    let mut v = vec![];
    for (i, o) in bt.outs.iter().enumerate() {
        let Some(w) = bt.circuit.expr_to_widx.get(o) else {
            return Err(RunErr::Harness(format!("output {i} has no witness slot")));
        };
        let Some(val) = traces.witness_trace.get_value(*w).copied() else {
            return Err(RunErr::Harness(format!("output {i}: slot unset")));
        };
        // independent read through the tag table
        if traces.probe(&format!("o{i}")).copied() != Some(val) {
            return Err(RunErr::Other("ProbeDisagreesWithSlot".into()));
        }
        v.push(val);
    }
    Ok(v)
}

// ---------------------------------------------------------------------------------------------
// Native oracle
// ---------------------------------------------------------------------------------------------

fn fold_row_native<C: Cfg>(index: usize, log_height: usize, log_arity: usize, beta: C::EF, evals: Vec<C::EF>) -> C::EF {
    let f = TwoAdicFriFolding::<(), ()>(PhantomData);
    <TwoAdicFriFolding<(), ()> as FriFoldingStrategy<C::F, C::EF>>::fold_row(
        &f,
        index,
        log_height,
        log_arity,
        beta,
        evals.into_iter(),
    )
}

/// The row placement of `p3_fri::verifier::verify_query`.
fn reconstruct_native<E: Field>(folded: E, siblings: &[E], index_in_group: usize) -> Vec<E> {
    let arity = siblings.len() + 1;
    let mut evals = E::zero_vec(arity);
    evals[index_in_group] = folded;
    let mut s = 0;
    for (j, e) in evals.iter_mut().enumerate() {
        if j != index_in_group {
            *e = siblings[s];
            s += 1;
        }
    }
    evals
}

fn subgroup_start_native<C: Cfg>(parent_index: usize, log_folded: usize, log_arity: usize) -> C::F {
    C::F::two_adic_generator(log_folded + log_arity).exp_u64(reverse_bits_len(parent_index, log_folded) as u64)
}

/// Native value of every output. Panics (inverse of zero) mean "natively undefined".
fn oracle<C: Cfg>(spec: &Spec, x: &[C::EF]) -> Vec<C::EF> {
    let d = <C::EF as BasedVectorSpace<C::F>>::DIMENSION;
    match spec {
        Spec::Selectors { log_n, shift } => {
            let s = coset::<C>(*shift, *log_n).selectors_at_point(x[0]);
            vec![s.is_first_row, s.is_last_row, s.is_transition, s.inv_vanishing]
        }
        Spec::Vanishing { log_n, shift } => vec![coset::<C>(*shift, *log_n).vanishing_poly_at_point(x[0])],
        Spec::Recompose { log_deg, log_q, zk, shift } => {
            let (_, doms) = recompose_domains::<C>(*log_deg, *log_q, *zk, *shift);
            let chunks: Vec<Vec<C::EF>> = (0..doms.len()).map(|i| x[1 + i * d..1 + (i + 1) * d].to_vec()).collect();
            vec![C::native_recompose(&doms, &chunks, x[0])]
        }
        Spec::Periodic { log_n, shift, lens, col_seed, .. } => {
            let dom = coset::<C>(*shift, *log_n);
            periodic_cols::<C>(lens, *col_seed)
                .iter()
                .map(|c| {
                    if x[0].is_zero() {
                        // The native barycentric formula divides by the point; at 0 the interpolant
                        // over a coset s<h> is its constant coefficient = mean of the column
                        // (sum over the coset of x^k vanishes for 0 < k < period).
                        let sum = c.iter().fold(C::F::ZERO, |a, v| a + *v);
                        base::<C>(sum * C::F::from_u64(c.len() as u64).inverse())
                    } else {
                        dom.evaluate_periodic_column_at(c, x[0])
                    }
                })
                .collect()
        }
        Spec::EvalPoly { len } => {
            let pt = x[*len];
            vec![x[..*len].iter().rev().fold(C::EF::ZERO, |acc, c| acc * pt + *c)]
        }
        Spec::ExpConst { n } => vec![x[0].exp_u64(*n)],
        Spec::OneHot { bits } => {
            let idx = index_of::<C>(x);
            (0..1usize << bits).map(|j| if j == idx { C::EF::ONE } else { C::EF::ZERO }).collect()
        }
        Spec::Reconstruct { log_arity } => {
            let arity = 1usize << log_arity;
            reconstruct_native(x[0], &x[1..arity], index_of::<C>(&x[arity..]))
        }
        Spec::TwoAdicPowers { log_h } => {
            let g = C::F::two_adic_generator(*log_h);
            (0..*log_h).map(|j| base::<C>(g.exp_u64(1u64 << j))).collect()
        }
        Spec::FinalQueryPoint { log_max, consumed } => {
            let domain_index = index_of::<C>(x) >> consumed;
            vec![base::<C>(
                C::F::two_adic_generator(*log_max).exp_u64(reverse_bits_len(domain_index, *log_max) as u64),
            )]
        }
        Spec::EvalPoints { log_global, heights } => {
            let index = index_of::<C>(x);
            heights
                .iter()
                .map(|&h| {
                    let rev = reverse_bits_len(index >> (log_global - h), h);
                    base::<C>(C::F::GENERATOR * C::F::two_adic_generator(h).exp_u64(rev as u64))
                })
                .collect()
        }
        Spec::SubgroupStarts { log_max, log_arities } => {
            let mut start = index_of::<C>(x);
            let mut h = *log_max;
            log_arities
                .iter()
                .map(|&la| {
                    start >>= la;
                    h -= la;
                    base::<C>(subgroup_start_native::<C>(start, h, la))
                })
                .collect()
        }
        Spec::Arity2Fold => {
            // interpolant through (x0, e0), (-x0, e1) evaluated at beta
            let (e0, e1, beta, x0) = (x[0], x[1], x[2], x[3]);
            let l0 = (beta + x0) * (x0 + x0).inverse();
            let l1 = (beta - x0) * (-(x0 + x0)).inverse();
            vec![e0 * l0 + e1 * l1]
        }
        Spec::FoldPhase { log_max, consumed, log_arity, roll_in } => {
            let arity = 1usize << log_arity;
            let folded = x[0];
            let sib = &x[1..arity];
            let beta = x[arity];
            let index = index_of::<C>(&x[arity + 1..arity + 1 + log_max]);
            let start = index >> consumed;
            let evals = reconstruct_native(folded, sib, start % arity);
            let log_folded = log_max - consumed - log_arity;
            let mut r = fold_row_native::<C>(start >> log_arity, log_folded, *log_arity, beta, evals);
            if *roll_in {
                r += beta.exp_power_of_2(*log_arity) * x[arity + 1 + log_max];
            }
            vec![r]
        }
        Spec::FoldChain { log_max, log_arities, roll_ins } => {
            let mut start = index_of::<C>(&x[1..1 + log_max]);
            let mut h = *log_max;
            let mut folded = x[0];
            let mut p = 1 + log_max;
            let mut o = vec![];
            for (i, &la) in log_arities.iter().enumerate() {
                let arity = 1usize << la;
                let sib = &x[p..p + arity - 1];
                let beta = x[p + arity - 1];
                p += arity;
                let evals = reconstruct_native(folded, sib, start % arity);
                start >>= la;
                h -= la;
                folded = fold_row_native::<C>(start, h, la, beta, evals);
                if roll_ins[i] {
                    folded += beta.exp_power_of_2(la) * x[p];
                    p += 1;
                }
                o.push(folded);
            }
            o
        }
    }
}

/// Does the gadget divide by a quantity that is zero on this input (gadget undefined)?
fn singular<C: Cfg>(spec: &Spec, x: &[C::EF]) -> bool {
    match spec {
        Spec::Selectors { log_n, shift } => coset::<C>(*shift, *log_n).vanishing_poly_at_point(x[0]).is_zero(),
        Spec::Recompose { log_deg, log_q, zk, shift } => {
            let (_, doms) = recompose_domains::<C>(*log_deg, *log_q, *zk, *shift);
            doms.iter().any(|dm| dm.vanishing_poly_at_point(x[0]).is_zero())
        }
        Spec::Arity2Fold => x[3].is_zero(),
        _ => false,
    }
}

// ---------------------------------------------------------------------------------------------
// Input generation
// ---------------------------------------------------------------------------------------------

/// Input plan of a job: `k`-th input of the spec.
#[derive(Clone, Debug)]
enum Plan {
    /// classes 0..n of the point/value generator
    Classes(usize),
    /// these index values (for index-driven gadgets), other inputs random
    Indices(std::ops::Range<u64>),
}

fn point_in_coset<C: Cfg>(dm: &Coset<C::F>, rng: &mut SmallRng) -> C::EF {
    let i = if dm.log_size() == 0 { 0 } else { rng.random_range(0..1u64 << dm.log_size().min(40)) };
    base::<C>(dm.shift() * dm.subgroup_generator().exp_u64(i))
}

/// (inputs, class label)
fn gen_inputs<C: Cfg>(spec: &Spec, rng: &mut SmallRng, k: usize, index: Option<u64>) -> (Vec<C::EF>, String) {
    let n = n_inputs::<C>(spec);
    let mut x: Vec<C::EF> = (0..n).map(|_| rnd_ef::<C>(rng)).collect();
    let mut class = "random".to_string();
    let domain_point = |dm: &Coset<C::F>, k: usize, rng: &mut SmallRng| -> (C::EF, &'static str) {
        match k % 8 {
            0 | 1 => (rnd_ef::<C>(rng), "ext"),
            2 => (base::<C>(rnd_f::<C>(rng)), "base"),
            3 => (point_in_coset::<C>(dm, rng), "in-domain"),
            4 => (base::<C>(dm.shift()), "first-point"),
            5 => (base::<C>(dm.shift() * dm.subgroup_generator().inverse()), "last-point"),
            6 => (C::EF::ZERO, "zero"),
            _ => (rnd_ef::<C>(rng), "ext"),
        }
    };
    let set_bits = |x: &mut [C::EF], at: usize, nbits: usize, rng: &mut SmallRng, index: Option<u64>| -> u64 {
        let idx = index.unwrap_or_else(|| if nbits == 0 { 0 } else { rng.random::<u64>() & ((1u64 << nbits) - 1) });
        x[at..at + nbits].copy_from_slice(&bits_of::<C>(idx, nbits));
        idx
    };
    let idx_class = |nbits: usize, idx: u64| if nbits <= 10 { format!("i{idx}") } else { "irand".to_string() };
    match spec {
        Spec::Selectors { log_n, shift } | Spec::Vanishing { log_n, shift } | Spec::Periodic { log_n, shift, .. } => {
            let dm = coset::<C>(*shift, *log_n);
            let (p, c) = domain_point(&dm, k, rng);
            x[0] = p;
            class = c.into();
        }
        Spec::Recompose { log_deg, log_q, zk, shift } => {
            let (trace, doms) = recompose_domains::<C>(*log_deg, *log_q, *zk, *shift);
            match k % 8 {
                2 => {
                    x[0] = base::<C>(rnd_f::<C>(rng));
                    class = "base".into();
                }
                3 => {
                    let j = rng.random_range(0..doms.len());
                    x[0] = point_in_coset::<C>(&doms[j], rng);
                    class = "in-chunk-domain".into();
                }
                4 => {
                    x[0] = point_in_coset::<C>(&trace, rng);
                    class = "in-trace-domain".into();
                }
                5 => {
                    x[0] = C::EF::ZERO;
                    class = "zero".into();
                }
                6 => {
                    // base-field chunk values (what an extension-degree-1 opening would look like)
                    for v in x.iter_mut().skip(1) {
                        *v = base::<C>(rnd_f::<C>(rng));
                    }
                    class = "ext/base-chunks".into();
                }
                _ => class = "ext".into(),
            }
        }
        Spec::EvalPoly { len } => match k % 6 {
            1 => {
                x[*len] = C::EF::ZERO;
                class = "point-zero".into();
            }
            2 => {
                x[*len] = C::EF::ONE;
                class = "point-one".into();
            }
            3 => {
                let z = rng.random_range(0..*len);
                for v in x.iter_mut().take(*len).skip(len - 1 - z) {
                    *v = C::EF::ZERO;
                }
                class = "leading-zero-coeffs".into();
            }
            4 => {
                x[*len] = base::<C>(rnd_f::<C>(rng));
                class = "point-base".into();
            }
            _ => {}
        },
        Spec::ExpConst { .. } => match k % 6 {
            1 => {
                x[0] = C::EF::ZERO;
                class = "base-zero".into();
            }
            2 => {
                x[0] = C::EF::ONE;
                class = "base-one".into();
            }
            3 => {
                x[0] = base::<C>(rnd_f::<C>(rng));
                class = "base-field".into();
            }
            4 => {
                x[0] = C::EF::NEG_ONE;
                class = "base-minus-one".into();
            }
            _ => {}
        },
        Spec::OneHot { bits } => {
            let idx = set_bits(&mut x, 0, *bits, rng, index);
            class = idx_class(*bits, idx);
        }
        Spec::Reconstruct { log_arity } => {
            let idx = set_bits(&mut x, 1usize << log_arity, *log_arity, rng, index);
            class = idx_class(*log_arity, idx);
        }
        Spec::TwoAdicPowers { .. } => class = "const".into(),
        Spec::FinalQueryPoint { log_max, .. } => {
            let idx = set_bits(&mut x, 0, *log_max, rng, index);
            class = idx_class(*log_max, idx);
        }
        Spec::EvalPoints { log_global, .. } => {
            let idx = set_bits(&mut x, 0, *log_global, rng, index);
            class = idx_class(*log_global, idx);
        }
        Spec::SubgroupStarts { log_max, .. } => {
            let idx = set_bits(&mut x, 0, *log_max, rng, index);
            class = idx_class(*log_max, idx);
        }
        Spec::Arity2Fold => match k % 8 {
            1 => {
                x[2] = x[3];
                class = "beta=x0".into();
            }
            2 => {
                x[2] = -x[3];
                class = "beta=-x0".into();
            }
            3 => {
                x[3] = C::EF::ZERO;
                class = "x0=0".into();
            }
            4 => {
                x[3] = base::<C>(rnd_f::<C>(rng));
                class = "x0-base".into();
            }
            5 => {
                x[1] = x[0];
                class = "e0=e1".into();
            }
            _ => {}
        },
        Spec::FoldPhase { log_max, consumed, log_arity, roll_in } => {
            let arity = 1usize << log_arity;
            let idx = set_bits(&mut x, arity + 1, *log_max, rng, index);
            let log_folded = log_max - consumed - log_arity;
            let parent = (idx as usize) >> (consumed + log_arity);
            let ss = subgroup_start_native::<C>(parent, log_folded, *log_arity);
            let p = arity + 1 + log_max + *roll_in as usize;
            x[p] = base::<C>(ss);
            class = idx_class(*log_max, idx);
            match k % 5 {
                1 => {
                    // beta on the evaluation coset (native returns the matching eval directly)
                    let j = rng.random_range(0..arity as u64);
                    x[arity] = base::<C>(ss * C::F::two_adic_generator(*log_arity).exp_u64(j));
                    class += "/beta-on-coset";
                }
                2 => {
                    x[arity] = base::<C>(rnd_f::<C>(rng));
                    class += "/beta-base";
                }
                3 => {
                    x[arity] = C::EF::ZERO;
                    class += "/beta-zero";
                }
                _ => {}
            }
        }
        Spec::FoldChain { log_max, .. } => {
            let idx = set_bits(&mut x, 1, *log_max, rng, index);
            class = idx_class(*log_max, idx);
        }
    }
    (x, class)
}

// ---------------------------------------------------------------------------------------------
// Checking
// ---------------------------------------------------------------------------------------------

fn detail<C: Cfg>(spec: &Spec, x: &[C::EF], class: &str, extra: Value) -> Value {
    json!({
        "cfg": C::NAME,
        "gadget": spec.gadget(),
        "spec": spec,
        "class": class,
        "inputs": x.iter().map(|e| co::<C>(e)).collect::<Vec<_>>(),
        "extra": extra,
    })
}

fn check_one<C: Cfg>(spec: &Spec, bt: &Built<C::EF>, x: &[C::EF], class: &str) -> CaseResult {
    let key = format!("{}|{}|{}", C::NAME, spec.key::<C>(), class);
    let g = spec.gadget();
    let exp = guarded(|| oracle::<C>(spec, x));
    let got = match guarded(|| run::<C>(bt, x)) {
        Ok(r) => r,
        Err(p) => {
            return CaseResult::violated(
                key,
                format!("runner-panic/{g}/{}", panic_site(&p)),
                detail::<C>(spec, x, class, json!({"panic": p})),
            );
        }
    };
    let sing = singular::<C>(spec, x);
    match (exp, got) {
        (_, Err(RunErr::Harness(h))) => CaseResult::inconclusive(key, format!("harness: {h}")),
        (Ok(e), Ok(v)) => {
            if e.len() != v.len() {
                return CaseResult::violated(
                    key,
                    format!("output-count-mismatch/{g}"),
                    detail::<C>(spec, x, class, json!({"expected": e.len(), "got": v.len()})),
                );
            }
            match e.iter().zip(&v).position(|(a, b)| a != b) {
                None => CaseResult::held(key, true).count(format!("compared/{g}"), 1).count("outputs-compared", v.len() as u64),
                Some(i) => CaseResult::violated(
                    key,
                    format!("value-mismatch/{g}/{}", spec.shape()),
                    detail::<C>(
                        spec,
                        x,
                        class,
                        json!({"output": i, "expected": co::<C>(&e[i]), "got": co::<C>(&v[i]),
                               "all_expected": e.iter().map(|q| co::<C>(q)).collect::<Vec<_>>(),
                               "all_got": v.iter().map(|q| co::<C>(q)).collect::<Vec<_>>()}),
                    ),
                ),
            }
        }
        (Ok(_), Err(RunErr::DivByZero)) => {
            if sing {
                CaseResult::held(key, false).count(format!("gadget-undefined(div0)-native-defined/{g}"), 1)
            } else {
                CaseResult::violated(
                    key,
                    format!("circuit-div-by-zero-where-defined/{g}/{}", spec.shape()),
                    detail::<C>(spec, x, class, json!({})),
                )
            }
        }
        (Ok(_), Err(RunErr::Other(e))) => CaseResult::violated(
            key,
            format!("circuit-run-failed/{g}/{e}"),
            detail::<C>(spec, x, class, json!({"error": e})),
        ),
        (Err(p), r) => {
            if !sing {
                return CaseResult::inconclusive(key, format!("oracle panic outside singular set: {}", panic_site(&p)));
            }
            match r {
                Ok(_) => CaseResult::held(key, false).count(format!("native-undefined-circuit-defined/{g}"), 1),
                Err(_) => CaseResult::held(key, false).count(format!("both-undefined/{g}"), 1),
            }
        }
    }
}

fn run_job<C: Cfg>(spec: &Spec, plan: &Plan, rng: &mut SmallRng, sample: bool) -> Vec<CaseResult> {
    let g = spec.gadget();
    let base_key = format!("{}|{}", C::NAME, spec.key::<C>());
    // periodic columns with illegal lengths: the gadget must refuse iff the native check refuses
    let native_reject = match spec {
        Spec::Periodic { log_n, lens, col_seed, .. } => {
            p3_uni_stark::check_periodic_column_lengths(&periodic_cols::<C>(lens, *col_seed), 1usize << log_n).is_err()
        }
        _ => false,
    };
    let bt = match guarded(|| build::<C>(spec)) {
        Ok(Ok(b)) => {
            if native_reject {
                return vec![CaseResult::violated(
                    base_key,
                    format!("accepted-illegal-period/{g}"),
                    json!({"cfg": C::NAME, "gadget": g, "spec": spec, "inputs": [], "class": "reject"}),
                )];
            }
            b
        }
        Ok(Err(BuildErr::Rejected(e))) => {
            return vec![if native_reject {
                CaseResult::held(format!("{base_key}|reject"), true).count(format!("both-reject/{g}"), 1)
            } else {
                CaseResult::violated(
                    base_key,
                    format!("rejected-legal-parameters/{g}"),
                    json!({"cfg": C::NAME, "gadget": g, "spec": spec, "inputs": [], "class": "reject", "error": e}),
                )
            }];
        }
        Ok(Err(BuildErr::Defect(sig, msg))) => {
            return vec![CaseResult::violated(
                base_key,
                sig,
                json!({"cfg": C::NAME, "gadget": g, "spec": spec, "inputs": [], "class": "build", "msg": msg}),
            )];
        }
        Ok(Err(BuildErr::Harness(h))) => return vec![CaseResult::inconclusive(base_key, format!("harness: {h}"))],
        Err(p) => {
            return vec![CaseResult::violated(
                base_key,
                format!("gadget-panic/{g}/{}", panic_site(&p)),
                json!({"cfg": C::NAME, "gadget": g, "spec": spec, "inputs": [], "class": "build", "panic": p}),
            )];
        }
    };
    let mut out = vec![];
    let mut push = |k: usize, index: Option<u64>, rng: &mut SmallRng| {
        let (x, class) = gen_inputs::<C>(spec, rng, k, index);
        let mut r = check_one::<C>(spec, &bt, &x, &class);
        if sample && k == 0 {
            r = r.with_sample(json!({"cfg": C::NAME, "gadget": g, "spec": spec, "class": class,
                "circuit_ops": bt.ops, "inputs": x.iter().take(6).map(|e| co::<C>(e)).collect::<Vec<_>>()}));
        }
        out.push(r);
    };
    match plan {
        Plan::Classes(n) => {
            for k in 0..*n {
                push(k, None, rng);
            }
        }
        Plan::Indices(r) => {
            for (k, idx) in r.clone().enumerate() {
                push(k, Some(idx), rng);
            }
        }
    }
    out
}

fn resolve<C: Cfg>(spec: &mut Spec, rng: &mut SmallRng) {
    let fix = |s: &mut u64, rng: &mut SmallRng| {
        if *s == SHIFT_GEN {
            *s = C::F::GENERATOR.as_canonical_u64();
        } else if *s == SHIFT_RAND {
            *s = 2 + rng.random::<u64>() % (C::F::ORDER_U64 - 2);
        }
    };
    match spec {
        Spec::Selectors { shift, .. }
        | Spec::Vanishing { shift, .. }
        | Spec::Recompose { shift, .. }
        | Spec::Periodic { shift, .. } => fix(shift, rng),
        _ => {}
    }
}

fn job<C: Cfg>(mut spec: Spec, plan: Plan, seed: u64, i: usize) -> Vec<CaseResult> {
    let mut rng = case_rng(seed, "c20", i as u64);
    resolve::<C>(&mut spec, &mut rng);
    run_job::<C>(&spec, &plan, &mut rng, i % 97 == 0)
}

// ---------------------------------------------------------------------------------------------
// Workload: deterministic grid + random parameter tuples
// ---------------------------------------------------------------------------------------------

const SHIFTS: [u64; 3] = [1, SHIFT_GEN, SHIFT_RAND];

fn compositions(total_max: usize, max_la: usize, rng: &mut SmallRng) -> Vec<usize> {
    let mut v = vec![];
    let mut left = total_max;
    while left > 0 {
        let la = rng.random_range(1..=max_la.min(left));
        v.push(la);
        left -= la;
        if rng.random_range(0..4u32) == 0 {
            break;
        }
    }
    v
}

fn index_jobs(spec: Spec, nbits: usize, out: &mut Vec<(Spec, Plan)>) {
    let total = 1u64 << nbits;
    let step = 128u64;
    let mut s = 0;
    while s < total {
        out.push((spec.clone(), Plan::Indices(s..(s + step).min(total))));
        s += step;
    }
}

/// Deterministic part: every small parameter tuple named by the property.
fn grid(tier: Tier) -> Vec<(Spec, Plan)> {
    let mut g: Vec<(Spec, Plan)> = vec![];
    let np = tier.pick(16, 32);
    let mut rng = case_rng(0, "c20-grid", 0); // grid structure does not depend on the run seed
    for log_n in 0..=20usize {
        for s in SHIFTS {
            g.push((Spec::Selectors { log_n, shift: s }, Plan::Classes(np)));
            g.push((Spec::Vanishing { log_n, shift: s }, Plan::Classes(np)));
            // all periods 2^k <= min(size, 2^10) at once, alternately through the trait and the hook
            let lens: Vec<usize> = (0..=log_n.min(10)).map(|k| 1usize << k).collect();
            g.push((
                Spec::Periodic { via_pcs: log_n % 2 == 0, log_n, shift: s, lens: lens.clone(), col_seed: log_n as u64 },
                Plan::Classes(np),
            ));
            g.push((
                Spec::Periodic { via_pcs: log_n % 2 == 1, log_n, shift: s, lens: vec![1usize << log_n.min(rng.random_range(0..=10))], col_seed: 77 + log_n as u64 },
                Plan::Classes(np),
            ));
        }
        g.push((Spec::TwoAdicPowers { log_h: log_n }, Plan::Classes(1)));
    }
    // large periods
    for k in 11..=tier.pick(11usize, 14usize) {
        g.push((
            Spec::Periodic { via_pcs: k % 2 == 0, log_n: (k + k % 3).min(20), shift: SHIFTS[k % 3], lens: vec![1usize << k], col_seed: k as u64 },
            Plan::Classes(4),
        ));
    }
    // illegal periodic columns: must be refused (native: check_periodic_column_lengths)
    for (log_n, lens) in [(4usize, vec![3usize]), (4, vec![0]), (2, vec![8]), (0, vec![2]), (5, vec![4, 6]), (3, vec![16, 2]), (6, vec![12])] {
        for via_pcs in [true, false] {
            g.push((Spec::Periodic { via_pcs, log_n, shift: 1, lens: lens.clone(), col_seed: 5 }, Plan::Classes(1)));
        }
    }
    for log_deg in [0usize, 1, 2, 3, 4, 5, 8, 12, 16, 19] {
        for log_q in 0..=3usize {
            for zk in [false, true] {
                for s in SHIFTS {
                    g.push((Spec::Recompose { log_deg, log_q, zk, shift: s }, Plan::Classes(np)));
                }
            }
        }
    }
    for len in 1..=33usize {
        g.push((Spec::EvalPoly { len }, Plan::Classes(np.max(12))));
    }
    let mut exps: Vec<u64> = vec![1, 2, 3, 7];
    for k in 1..=63u32 {
        exps.push(1u64 << k);
        if k >= 2 {
            exps.push((1u64 << k) - 1);
            exps.push((1u64 << k) + 1);
        }
    }
    exps.extend([u64::MAX, u64::MAX - 1, u32::MAX as u64, 0xAAAA_AAAA_AAAA_AAAA, 0x5555_5555_5555_5555, 2013265920, 0xFFFF_FFFF_0000_0000]);
    for _ in 0..tier.pick(24, 200) {
        exps.push(rng.random::<u64>() >> rng.random_range(0..63u32));
    }
    exps.retain(|n| *n > 0);
    exps.sort_unstable();
    exps.dedup();
    for n in exps {
        g.push((Spec::ExpConst { n }, Plan::Classes(np.max(6))));
    }
    for bits in 0..=10usize {
        index_jobs(Spec::OneHot { bits }, bits, &mut g);
    }
    for log_arity in 0..=5usize {
        for _rep in 0..tier.pick(2, 8) {
            index_jobs(Spec::Reconstruct { log_arity }, log_arity, &mut g);
        }
    }
    for log_max in 1..=10usize {
        for consumed in 0..=log_max {
            index_jobs(Spec::FinalQueryPoint { log_max, consumed }, log_max, &mut g);
        }
        // evaluation points: the full descending list, and random strictly descending subsets
        let full: Vec<usize> = (1..=log_max).rev().collect();
        index_jobs(Spec::EvalPoints { log_global: log_max, heights: full.clone() }, log_max, &mut g);
        for _ in 0..3 {
            let mut hs: Vec<usize> = full.iter().copied().filter(|_| rng.random_range(0..2u32) == 0).collect();
            if hs.is_empty() {
                hs.push(rng.random_range(1..=log_max));
            }
            index_jobs(Spec::EvalPoints { log_global: log_max, heights: hs }, log_max, &mut g);
        }
        // subgroup starts / fold phases for several arity schedules
        for _ in 0..4 {
            let la = compositions(log_max, 4, &mut rng);
            index_jobs(Spec::SubgroupStarts { log_max, log_arities: la.clone() }, log_max, &mut g);
            let roll_ins: Vec<bool> = la.iter().map(|_| rng.random_range(0..2u32) == 0).collect();
            index_jobs(Spec::FoldChain { log_max, log_arities: la, roll_ins }, log_max, &mut g);
        }
        for log_arity in 1..=4usize.min(log_max) {
            for consumed in 0..=(log_max - log_arity) {
                if log_max > 6 && consumed % 3 == 1 {
                    continue;
                }
                index_jobs(
                    Spec::FoldPhase { log_max, consumed, log_arity, roll_in: (consumed + log_arity) % 2 == 0 },
                    log_max,
                    &mut g,
                );
            }
        }
    }
    g.push((Spec::Arity2Fold, Plan::Classes(tier.pick(64, 512))));
    g
}

/// Random parameter tuple (large sizes, random shifts, random schedules).
fn random_job(rng: &mut SmallRng, two_adicity: usize, tier: Tier) -> (Spec, Plan) {
    let np = tier.pick(8, 16);
    let max_log = 20usize.min(two_adicity);
    let shift = || SHIFT_RAND;
    match rng.random_range(0..14u32) {
        0 => (Spec::Selectors { log_n: rng.random_range(0..=max_log), shift: shift() }, Plan::Classes(np)),
        1 => (Spec::Vanishing { log_n: rng.random_range(0..=max_log), shift: shift() }, Plan::Classes(np)),
        2 => {
            let log_q = rng.random_range(0..=3usize);
            let zk = rng.random_range(0..2u32) == 0;
            let log_deg = rng.random_range(0..=(max_log.min(two_adicity - 4) - zk as usize));
            (Spec::Recompose { log_deg, log_q, zk, shift: *pick(rng, &SHIFTS) }, Plan::Classes(np))
        }
        3 => {
            let log_n = rng.random_range(0..=max_log);
            let ncols = rng.random_range(1..=4usize);
            let lens = (0..ncols).map(|_| 1usize << rng.random_range(0..=log_n.min(9))).collect();
            (
                Spec::Periodic { via_pcs: rng.random_range(0..2u32) == 0, log_n, shift: *pick(rng, &SHIFTS), lens, col_seed: rng.random() },
                Plan::Classes(np),
            )
        }
        4 => (Spec::EvalPoly { len: rng.random_range(1..=33usize) }, Plan::Classes(np)),
        5 => (Spec::ExpConst { n: (rng.random::<u64>() >> rng.random_range(0..64u32)).max(1) }, Plan::Classes(np)),
        6 => {
            let log_max = rng.random_range(11..=max_log);
            (Spec::FinalQueryPoint { log_max, consumed: rng.random_range(0..=log_max) }, Plan::Classes(np))
        }
        7 => {
            let log_global = rng.random_range(2..=max_log);
            let h_max = if rng.random_range(0..3u32) == 0 { rng.random_range(1..=log_global) } else { log_global };
            let mut hs: Vec<usize> = (1..h_max).rev().filter(|_| rng.random_range(0..3u32) == 0).collect();
            hs.insert(0, h_max);
            (Spec::EvalPoints { log_global, heights: hs }, Plan::Classes(np))
        }
        8 => {
            let log_max = rng.random_range(1..=max_log);
            (Spec::SubgroupStarts { log_max, log_arities: compositions(log_max, 5, rng) }, Plan::Classes(np))
        }
        9 => {
            let log_max = rng.random_range(1..=max_log);
            let log_arity = rng.random_range(1..=5usize.min(log_max));
            let consumed = rng.random_range(0..=(log_max - log_arity));
            (Spec::FoldPhase { log_max, consumed, log_arity, roll_in: rng.random_range(0..2u32) == 0 }, Plan::Classes(np))
        }
        10 | 11 => {
            let log_max = rng.random_range(1..=max_log);
            let la = compositions(log_max, 4, rng);
            let roll_ins = la.iter().map(|_| rng.random_range(0..2u32) == 0).collect();
            (Spec::FoldChain { log_max, log_arities: la, roll_ins }, Plan::Classes(np))
        }
        12 => (Spec::Reconstruct { log_arity: rng.random_range(0..=6usize) }, Plan::Classes(np)),
        _ => (Spec::Arity2Fold, Plan::Classes(np)),
    }
}

fn two_adicity(cfg: &str) -> usize {
    match cfg {
        "babybear-d4" => 27,
        "goldilocks-d2" => 32,
        _ => 24,
    }
}

fn replay(path: &std::path::Path) -> Vec<CaseResult> {
    let v: Value = serde_json::from_str(&std::fs::read_to_string(path).expect("replay file")).unwrap();
    let d = v["detail"].clone();
    let cfg = d["cfg"].as_str().unwrap_or("babybear-d4").to_string();
    fn go<C: Cfg>(d: Value) -> Vec<CaseResult> {
        let spec: Spec = serde_json::from_value(d["spec"].clone()).expect("spec");
        let inputs: Vec<C::EF> = d["inputs"]
            .as_array()
            .map(|a| a.iter().map(|c| el::<C>(&c.as_array().unwrap().iter().map(|u| u.as_u64().unwrap()).collect::<Vec<_>>())).collect())
            .unwrap_or_default();
        let class = d["class"].as_str().unwrap_or("replay").to_string();
        if class == "reject" || class == "build" || inputs.len() != n_inputs::<C>(&spec) {
            let mut rng = case_rng(0, "c20-replay", 0);
            return run_job::<C>(&spec, &Plan::Classes(1), &mut rng, false);
        }
        match guarded(|| build::<C>(&spec)) {
            Ok(Ok(bt)) => vec![check_one::<C>(&spec, &bt, &inputs, &class)],
            _ => {
                let mut rng = case_rng(0, "c20-replay", 0);
                run_job::<C>(&spec, &Plan::Classes(1), &mut rng, false)
            }
        }
    }
    dispatch!(cfg.as_str(), go(d))
}

fn main() {
    let args = parse_args();
    let mut rep = Report::new(
        "C20",
        "exploration",
        &args,
        "case = (field/PCS configuration, gadget, parameter tuple, input class) evaluated on one input vector: the real \
         gadget is built into a circuit over public inputs, run, and every output target is compared with the native \
         p3 computation; non-trivial = both sides defined and compared; distinct by (configuration, gadget, parameter \
         tuple with shift by class, input class incl. the index value for <=10 bits); division-by-zero inputs are \
         counted separately and never as coverage",
    );
    rep.assume("native p3-field / p3-commit / p3-fri / p3-uni-stark computations are the reference");
    rep.assume("Circuit::expr_to_widx + witness trace report the value of a target (cross-checked against Traces::probe)");
    if let Some(p) = &args.replay {
        let rs = replay(p);
        rep.add_all(rs);
        rep.finish(0);
    }
    let (seed, tier) = (args.seed, args.tier);
    let g = grid(tier);
    let n_grid = g.len() * CFGS.len();
    let n_rand = tier.pick(150_000usize, 2_400_000usize);
    rep.set_extra("grid_jobs", json!(n_grid));
    rep.set_extra("random_jobs", json!(n_rand));
    let results = run_cases(n_grid + n_rand, args.threads, |i| {
        if i < n_grid {
            let cfg = CFGS[i % CFGS.len()];
            let (spec, plan) = g[i / CFGS.len()].clone();
            // sizes above the field's two-adicity do not exist
            dispatch!(cfg, job(spec, plan, seed, i))
        } else {
            let cfg = CFGS[i % CFGS.len()];
            let mut rng = case_rng(seed, "c20-rand", i as u64);
            let (spec, plan) = random_job(&mut rng, two_adicity(cfg), tier);
            dispatch!(cfg, job(spec, plan, seed, i))
        }
    });
    if args.extra.contains_key("show-inconclusive") {
        for r in results.iter().filter(|r| matches!(r.verdict, Verdict::Inconclusive(_))).take(40) {
            println!("inconclusive: {} {:?}", r.key, r.verdict);
        }
    }
    for r in &results {
        if let Verdict::Held = r.verdict {
            let mut it = r.key.split('|');
            let (c, s) = (it.next().unwrap_or(""), it.next().unwrap_or(""));
            let gname = s.split(':').next().unwrap_or("").to_string();
            rep.observe("gadgets", gname.clone());
            rep.observe("cfg-x-gadget", format!("{c}/{gname}"));
            if let Some(cl) = it.next() {
                if !cl.starts_with('i') || cl == "in-domain" || cl == "in-chunk-domain" || cl == "in-trace-domain" {
                    rep.observe("input-classes", cl.to_string());
                }
            }
        }
    }
    rep.add_all(results);
    rep.finish(tier.pick(15_000, 300_000));
}
