//! C09 — every witness slot has one creator and balanced multiplicities; no floating operand.
//!
//! Monitor (O3): for generated programs the honest traces are laid out by the real AIRs and every
//! WitnessChecks tuple of every row is replayed from the real matrices. Per slot: exactly one
//! creator row, creator multiplicity == number of reads, equal values; every operand an ALU
//! relation depends on shows up on the bus. Cross-checked against upstream's lookup debugger.

use std::collections::BTreeMap;

use p3_circuit::{AluOpKind, Op};
use p3r_verif::bus::{anomalies, per_slot};
use p3r_verif::fields::Setup;
use p3r_verif::pgen::{GenOpts, gen_prog};
use p3r_verif::pipeline::*;
use p3r_verif::prog::{Prog, eval, shrink};
use p3r_verif::util::*;
use p3r_verif::with_setup;
use rand::RngExt;
use serde_json::{Value, json};

/// Returns (signatures with details, observed-nothing flag).
fn bus_verdict<S: Setup>(prog: &Prog, p: &Pipeline<S>, cfg: &PackCfg) -> Result<Vec<(String, Value)>, String> {
    let built = p.built.as_ref().ok_or("not built")?;
    let traces = p.traces.as_ref().ok_or("no traces")?;
    let recompose = prog.recompose_npo && S::D > 1;
    let _rc = p3r_verif::fields::RecomposeCfg::set(prog.recompose_cfg());
    let events = guarded(|| S::bus(&built.circuit, traces, &cfg.packing(), recompose))
        .map_err(|e| format!("bus replay panic {}", panic_site(&e)))??;
    // Slots touched by non-primitive tables are not observable by this replay (their rows live
    // in plugin tables): exclude them from the verdict.
    let mut npo_slots = std::collections::BTreeSet::new();
    for op in &built.circuit.ops {
        if let Op::NonPrimitiveOpWithExecutor { inputs, outputs, .. } = op {
            for w in inputs.iter().chain(outputs.iter()).flatten() {
                npo_slots.insert(w.0 as u64);
            }
        }
    }
    let mut out = vec![];
    for a in anomalies(&built.circuit, &events, S::D) {
        if npo_slots.contains(&a.slot) {
            continue;
        }
        let class = p3r_verif::bus::anomaly_class(&built.circuit, a.slot);
        // the coarse root-cause classes are refined by the shape of the imbalance (number of creator
        // rows, sign of the net multiplicity) so that a different failure on the same kind of slot
        // is not absorbed by a known finding
        let shape = a.pattern.splitn(2, "/creators=").nth(1).map(|r| format!("creators={r}")).unwrap_or_default();
        let sig = if class == "other" {
            format!("bus/other/{}", a.pattern)
        } else if class.starts_with("first-use-creator") {
            format!("bus/{class}")
        } else {
            format!("bus/{class}/{shape}")
        };
        out.push((
            sig,
            json!({"slot": a.slot, "pattern": a.pattern, "creators": a.summary.creators, "creator_mult": a.summary.creator_mult,
                   "reads": a.summary.reads, "net": a.summary.net, "values": a.summary.values, "tables": a.summary.tables}),
        ));
    }
    // Floating operands: every operand a (non-Horner) ALU relation depends on, and every
    // Const/Public output, must account for at least one tuple on the bus.
    let mut expected: BTreeMap<u64, (usize, &'static str)> = BTreeMap::new();
    let mut exp = |id: p3_circuit::WitnessId, what: &'static str| {
        let e = expected.entry(id.0 as u64).or_insert((0, what));
        e.0 += 1;
    };
    for op in &built.circuit.ops {
        match op {
            Op::Const { out, .. } => exp(*out, "const-out"),
            Op::Public { out, .. } => exp(*out, "public-out"),
            Op::Alu { kind, a, b, c, out, .. } => match kind {
                AluOpKind::Add | AluOpKind::Mul => {
                    exp(*a, "alu-a");
                    exp(*b, "alu-b");
                    exp(*out, "alu-out");
                }
                AluOpKind::BoolCheck => exp(*a, "bool-a"),
                AluOpKind::MulAdd => {
                    exp(*a, "muladd-a");
                    exp(*b, "muladd-b");
                    if let Some(c) = c {
                        exp(*c, "muladd-c");
                    }
                    exp(*out, "muladd-out");
                }
                AluOpKind::HornerAcc => {}
            },
            _ => {}
        }
    }
    // One of the references is the creator (whose multiplicity is the number of reads, possibly
    // zero); every other reference must be a read on the bus.
    let slots = per_slot(&events, S::D);
    for (slot, (n, what)) in expected {
        if npo_slots.contains(&slot) {
            continue;
        }
        let reads = slots.get(&slot).map(|s| s.reads).unwrap_or(0);
        if reads < n as i64 - 1 {
            let class = p3r_verif::bus::anomaly_class(&built.circuit, slot);
            let sig = if class == "other" { format!("floating-operand/other/{what}") } else { format!("floating-operand/{class}") };
            out.push((sig, json!({"slot": slot, "position": what, "references_in_relations": n, "reads_on_bus": reads})));
        }
    }
    Ok(out)
}

fn one<S: Setup>(
    prog: &Prog,
    publics: &[S::E],
    privates: &[S::E],
    cfg: &PackCfg,
    key: String,
    cross: bool,
    sample: bool,
    stream: &str,
) -> Vec<CaseResult> {
    let ev = eval::<S>(prog, publics, privates);
    if !ev.all_hold() || ev.div_zero {
        return vec![CaseResult::inconclusive(key, "generator produced a non-satisfying input")];
    }
    let p = run_pipeline::<S>(prog, publics, privates, cfg, false, false);
    if let Some((n, st)) = p.first_failure() {
        if n != "prove" && n != "verify" {
            // builder / key generation / run did not accept: outside C09's quantifier
            return vec![CaseResult::held(key, false).count(format!("not-accepted-at-{n}/{}", st.class()), 1)];
        }
    }
    let strip = |s: &str| s.to_string();
    let verdict: Vec<(String, Value)> = match bus_verdict::<S>(prog, &p, cfg) {
        Ok(v) => v,
        Err(e) => return vec![CaseResult::inconclusive(key, e)],
    };
    let built = p.built.as_ref().unwrap();
    let has_npo = built.circuit.ops.iter().any(|o| matches!(o, Op::NonPrimitiveOpWithExecutor { .. }));
    let n_alias = {
        let mut per = BTreeMap::<u32, usize>::new();
        for (_, w) in built.circuit.expr_to_widx.iter() {
            *per.entry(w.0).or_default() += 1;
        }
        per.values().filter(|n| **n > 1).count()
    };
    let mut out = vec![];
    // Cross-check with upstream's lookup debugger (panics on imbalance) on a fraction of cases.
    if cross {
        let pd = run_pipeline::<S>(prog, publics, privates, cfg, true, true);
        let upstream_imbalanced = matches!(&pd.prove, Stage::Panic(m) if m.contains("ookup") || m.contains("debug_util"));
        let ours = verdict.iter().any(|(s, _)| strip(s).starts_with("bus/"));
        if !has_npo && upstream_imbalanced != ours {
            out.push(CaseResult::inconclusive(
                format!("{key}:cross"),
                format!("O3 / upstream lookup debugger disagree (ours={ours}, upstream={upstream_imbalanced})"),
            ));
        } else if has_npo && upstream_imbalanced && !ours {
            // imbalance on slots only the plugin tables touch: visible only to the upstream debugger
            // the directed recompose-dense family has its own keys (flavour, lane count)
            let sig = if p3r_verif::pgen::is_recompose_dense(prog) {
                let (lanes, split) = prog.recompose_cfg();
                format!("bus/directed-recompose-dense/{}-lanes{lanes}/upstream-debugger", if split { "split-coeff" } else { "standard" })
            } else {
                format!("bus/npo-table-slot/upstream-debugger/{}", p3r_verif::bus::npo_static_cause(&built.circuit))
            };
            out.push(CaseResult::violated(
                format!("{key}:cross"),
                sig,
                case_detail::<S>(prog, publics, privates, cfg, Some(built), json!({"prove": format!("{:?}", pd.prove)})),
            ));
        } else {
            out.push(CaseResult::held(format!("{key}:cross"), false).count("cross-checked-with-upstream-debugger", 1));
        }
    }
    if verdict.is_empty() {
        let mut r = CaseResult::held(key, n_alias > 0 || has_npo)
            .count(format!("setup/{}", S::NAME), 1)
            .count(format!("stream/{stream}"), 1)
            .count("aliased-slots", n_alias as u64);
        if sample {
            r = r.with_sample(json!({"setup": S::NAME, "packing": cfg.json(), "ops": built.circuit.ops.len(),
                "prog": prog.stmts.iter().take(20).map(|s| format!("{s:?}")).collect::<Vec<_>>(), "aliased_slots": n_alias}));
        }
        out.push(r);
        return out;
    }
    // one violation per distinct signature of this case; shrink the first
    let mut seen = std::collections::BTreeSet::new();
    for (k, (sig, d)) in verdict.iter().enumerate() {
        if !seen.insert(sig.clone()) {
            continue;
        }
        let detail = if k == 0 && first_time(sig) {
            let pred = |q: &Prog, a: &[S::E], b: &[S::E]| -> bool {
                let e = eval::<S>(q, a, b);
                if !e.all_hold() || e.div_zero {
                    return false;
                }
                let pp = run_pipeline::<S>(q, a, b, cfg, false, false);
                if pp.first_failure().is_some_and(|(n, _)| n != "prove" && n != "verify") {
                    return false;
                }
                matches!(bus_verdict::<S>(q, &pp, cfg), Ok(v) if v.iter().any(|(s, _)| *s == strip(sig)))
            };
            let (q, a, b) = shrink::<S>(prog, publics, privates, &pred);
            let pp = run_pipeline::<S>(&q, &a, &b, cfg, false, false);
            let dd = bus_verdict::<S>(&q, &pp, cfg)
                .ok()
                .and_then(|v| v.into_iter().find(|(s, _)| *s == strip(sig)))
                .map(|(_, d)| d)
                .unwrap_or(d.clone());
            case_detail::<S>(&q, &a, &b, cfg, pp.built.as_ref(), dd)
        } else {
            case_detail::<S>(prog, publics, privates, cfg, Some(built), d.clone())
        };
        out.push(CaseResult::violated(format!("{key}:{sig}"), sig.clone(), detail));
    }
    out
}

fn first_time(sig: &str) -> bool {
    static SEEN: std::sync::Mutex<std::collections::BTreeSet<String>> = std::sync::Mutex::new(std::collections::BTreeSet::new());
    SEEN.lock().unwrap().insert(sig.to_string())
}

/// Directed stream (see `pgen::first_use_programs`): every way a private input can make its first
/// appearance in an ALU row, under two packings and three field setups.
const DIRECTED_SETUPS: [&str; 3] = ["babybear-d1", "koalabear-d4", "koalabear-d5-quintic"];

fn n_directed() -> usize {
    p3r_verif::pgen::first_use_programs::<p3r_verif::fields::BbD1>().len() * 2 * DIRECTED_SETUPS.len()
}

fn directed<S: Setup>(idx: usize) -> Vec<CaseResult> {
    let progs = p3r_verif::pgen::first_use_programs::<S>();
    let k = idx / DIRECTED_SETUPS.len();
    let (name, prog, pu, pr) = &progs[k % progs.len()];
    let cfg = if (k / progs.len()) % 2 == 0 { PackCfg::default_cfg() } else { PackCfg { alu_lanes: 3, public_lanes: 2, ..PackCfg::default_cfg() } };
    let key = format!("directed:{}:{name}:{}", S::NAME, cfg.key());
    let mut rs = one::<S>(prog, pu, pr, &cfg, key, false, idx < 6, "directed");
    for r in rs.iter_mut() {
        *r = std::mem::replace(r, CaseResult::held("", false)).count(format!("directed/{}", name.split(":reads").next().unwrap_or(name)), 1);
    }
    rs
}

/// Directed stream 2 (`pgen::recompose_dense_programs`): recompose tables dense in rows, both
/// flavours, 1-3 lanes, always cross-checked with upstream's lookup debugger.
fn dense<S: Setup>() -> Vec<CaseResult> {
    let mut out = vec![];
    for (variant, n, prog, publics) in p3r_verif::pgen::recompose_dense_programs::<S>() {
        for cfg in [PackCfg::default_cfg(), PackCfg { alu_lanes: 3, public_lanes: 2, ..PackCfg::default_cfg() }] {
            let key = format!("directed:{}:recompose-dense:v{variant}:n{n}:{}", S::NAME, cfg.key());
            let mut rs = one::<S>(&prog, &publics, &[], &cfg, key, true, false, "directed");
            for r in rs.iter_mut() {
                *r = std::mem::replace(r, CaseResult::held("", false)).count("directed/recompose-dense", 1);
            }
            out.extend(rs);
        }
    }
    out
}

fn case<S: Setup>(seed: u64, idx: usize, tier: Tier) -> Vec<CaseResult> {
    let mut rng = case_rng(seed, "c09", idx as u64);
    let size = rng.random_range(1..tier.pick(30usize, 50usize));
    let clean = idx % 2 == 0;
    let opts = GenOpts {
        size,
        connect_pct: 24,
        recompose_npo: matches!(S::D, 2 | 4 | 5) && rng.random_range(0..3u32) == 0,
        recompose_variants: true,
        clean,
        ..Default::default()
    };
    let g = gen_prog::<S>(&mut rng, &opts);
    let cfg = PackCfg::random(&mut rng);
    let key = format!("{}:{}:{}", S::NAME, fnv(&serde_json::to_string(&g.prog.stmts).unwrap()), cfg.key());
    let cross = idx % tier.pick(12, 20) == 0 || (g.prog.recompose_npo && (idx % 3 == 0 || std::env::var("P3R_C09_CROSS_ALL").is_ok()));
    one::<S>(&g.prog, &g.publics, &g.privates, &cfg, key, cross, idx < 60, if clean { "clean" } else { "any" })
}

fn replay<S: Setup>(d: &Value) -> Vec<CaseResult> {
    let (prog, pu, pr, cfg) = decode_case::<S>(d);
    let stream = d["extra"]["stream"].as_str().unwrap_or("any").to_string();
    one::<S>(&prog, &pu, &pr, &cfg, "replay".into(), false, true, &stream)
}

fn main() {
    let args = parse_args();
    let mut rep = Report::new(
        "C09",
        "exploration",
        &args,
        "case = (generated program accepted by build/key generation/run, prover configuration); the bus is replayed \
         from the real AIRs and matrices of the Const/Public/ALU tables; non-trivial = the compiled circuit has >=1 \
         slot shared by several expressions or a non-primitive table; distinct by (setup, program hash, configuration)",
    );
    rep.assume("lookup tuples are (D-scaled index, value limbs) with positive multiplicity = creator; slots touched by plugin (NPO) tables are judged only by the upstream lookup debugger cross-check");
    if let Some(p) = &args.replay {
        let v: Value = serde_json::from_str(&std::fs::read_to_string(p).expect("replay file")).unwrap();
        let d = v["detail"].clone();
        if d["stream"].as_str() == Some("npo") {
            let exe = std::env::current_exe().unwrap().with_file_name("c04npo");
            let st = std::process::Command::new(exe).arg("--replay").arg(p).arg("--honest-only").status().expect("run c04npo");
            std::process::exit(st.code().unwrap_or(2));
        }
        let name = d["setup"].as_str().unwrap().to_string();
        let rs = with_setup!(name.as_str(), replay, &d);
        rep.add_all(rs);
        rep.finish(0);
    }
    let n = args.tier.pick(24_000usize, 250_000usize);
    let (seed, tier) = (args.seed, args.tier);
    let nd = n_directed();
    let rs = run_cases_isolated(n + nd, args.threads, |i| {
        if i < nd {
            with_setup!(DIRECTED_SETUPS[i % DIRECTED_SETUPS.len()], directed, i)
        } else {
            let i = i - nd;
            with_setup!(SETUP_NAMES[i % SETUP_NAMES.len()], case, seed, i, tier)
        }
    });
    rep.add_all(rs);
    rep.add_all(run_cases_isolated(SETUP_NAMES.len(), args.threads, |i| with_setup!(SETUP_NAMES[i], dense,)));
    // second stream: honest executions of row programs over the Poseidon permutation tables (Merkle
    // chains, index-accumulator exposure, tables of exactly 2^k rows) from the sibling binary c04npo:
    // an accepted honest proof shows the bus balanced; an unprovable one is handed to upstream's
    // lookup debugger
    rep.add_all(import_emitted("c04npo", "C09", &args, |r| r.key.starts_with("C09:")));
    rep.finish(args.tier.pick(1000, 30_000));
}
