//! C04 — an accepted circuit proof attests a satisfying assignment.
//!
//! Fault enumeration on execution traces: honest `Traces` of generated programs are forged
//! (single table cell, a witness value changed on every table without re-deriving dependants,
//! a constant substituted everywhere, a public value, a hint output), labelled by the independent
//! op-relation evaluator O2 (does the forged assignment still satisfy every relation?), proven
//! with the honest prover data and shown to the verifier. Unsatisfying forgeries must be rejected.

use std::collections::BTreeSet;

use p3_circuit::tables::Traces;
use p3_field::PrimeCharacteristicRing;
use p3_circuit::{AluOpKind, Op, WitnessId};
use p3r_verif::fields::Setup;
use p3r_verif::opsem::check_ops;
use p3r_verif::pgen::{GenOpts, gen_prog};
use p3r_verif::pipeline::*;
use p3r_verif::prog::{Built, Prog, eval};
use p3r_verif::util::*;
use p3r_verif::with_setup;
use rand::RngExt;
use rand::rngs::SmallRng;
use serde_json::{Value, json};

#[derive(Clone, Debug)]
struct Forgery<E> {
    class: &'static str,
    /// table / position description for the signature (coarse)
    site: String,
    /// precise description for the replay file
    desc: String,
    traces: Traces<E>,
    /// Some(true) = the forged trace still satisfies every relation (must be accepted or at least
    /// carries no claim), Some(false) = unsatisfying (must be rejected), None = unknown (no claim).
    sat: Option<bool>,
    /// the witness slot the forgery is about (for root-cause classification)
    slot: Option<WitnessId>,
}

fn kind_name(k: AluOpKind) -> &'static str {
    match k {
        AluOpKind::Add => "add",
        AluOpKind::Mul => "mul",
        AluOpKind::BoolCheck => "bool",
        AluOpKind::MulAdd => "muladd",
        AluOpKind::HornerAcc => "horner",
    }
}

/// Is ALU column `col` (0=a,1=b,2=c,3=out) part of the relation of an op of this kind?
fn col_in_relation(k: AluOpKind, col: usize) -> Option<bool> {
    Some(match (k, col) {
        (AluOpKind::Add | AluOpKind::Mul, 2) => false,
        (AluOpKind::Add | AluOpKind::Mul, _) => true,
        (AluOpKind::MulAdd, _) => true,
        (AluOpKind::HornerAcc, _) => true,
        (AluOpKind::BoolCheck, 0) => true,
        // b / c / out of a bool row: layout-specific, judged by C11
        (AluOpKind::BoolCheck, _) => return None,
    })
}

fn witness_vec<S: Setup>(t: &Traces<S::E>) -> Vec<S::E> {
    (0..t.witness_trace.num_rows())
        .map(|i| *t.witness_trace.get_value(WitnessId(i as u32)).unwrap())
        .collect()
}

/// Overwrite every table cell that carries slot `s` with `v` (the slot's value "as the prover
/// claims it"), leaving all other cells alone.
fn set_slot_everywhere<S: Setup>(t: &mut Traces<S::E>, s: WitnessId, v: S::E) {
    for (i, idx) in t.const_trace.index.iter().enumerate() {
        if *idx == s {
            t.const_trace.values[i] = v;
        }
    }
    for (i, idx) in t.public_trace.index.iter().enumerate() {
        if *idx == s {
            t.public_trace.values[i] = v;
        }
    }
    for (row, idx) in t.alu_trace.indices.iter().enumerate() {
        let kind = t.alu_trace.op_kind[row];
        for col in 0..4 {
            if idx[col] == s {
                // columns that do not carry the slot's value on this row kind
                let carries = match (kind, col) {
                    (AluOpKind::Add | AluOpKind::Mul, 2) => false,
                    (AluOpKind::BoolCheck, 1) => false,
                    _ => true,
                };
                if carries {
                    t.alu_trace.values[row][col] = v;
                }
            }
        }
    }
    let mut w = witness_vec::<S>(t);
    w[s.0 as usize] = v;
    t.witness_trace = p3_circuit::tables::WitnessTrace::new(w);
}

fn w0_of<E: Copy>(t: &Traces<E>, s: WitnessId) -> E {
    *t.witness_trace.get_value(s).unwrap()
}

fn delta<S: Setup>(rng: &mut SmallRng) -> S::E {
    if rng.random_range(0..2u32) == 0 {
        S::el(&[1])
    } else {
        let c: Vec<u64> = (0..S::D).map(|_| 1 + rng.random::<u64>() % (S::order() - 1)).collect();
        S::el(&c)
    }
}

/// Slots that no committed table cell carries under this packing: intermediate results of packed
/// Horner rows (the `out` of a step that only feeds the accumulator of the next step in the same
/// row). Found by experiment, not by re-deriving the schedule: a candidate is uncommitted iff
/// changing its value everywhere leaves every main matrix unchanged.
fn uncommitted_slots<S: Setup>(built: &Built<S>, honest: &Traces<S::E>, cfg: &PackCfg, honest_mains: &Option<Vec<Vec<u64>>>) -> BTreeSet<u32> {
    let c = &built.circuit;
    let mut other_refs = vec![0usize; c.witness_count as usize];
    let mut horner_out = vec![false; c.witness_count as usize];
    let mut acc_refs = vec![0usize; c.witness_count as usize];
    for op in &c.ops {
        match op {
            Op::Alu { kind, a, b, c: cc, out, intermediate_out } => {
                other_refs[a.0 as usize] += 1;
                other_refs[b.0 as usize] += 1;
                if let Some(x) = cc {
                    other_refs[x.0 as usize] += 1;
                }
                if *kind == AluOpKind::HornerAcc {
                    horner_out[out.0 as usize] = true;
                    if let Some(x) = intermediate_out {
                        acc_refs[x.0 as usize] += 1;
                    }
                } else {
                    other_refs[out.0 as usize] += 1;
                    if let Some(x) = intermediate_out {
                        other_refs[x.0 as usize] += 1;
                    }
                }
            }
            Op::Const { out, .. } | Op::Public { out, .. } => other_refs[out.0 as usize] += 1,
            Op::Hint { inputs, outputs, .. } => {
                for x in inputs.iter().chain(outputs.iter()) {
                    other_refs[x.0 as usize] += 1;
                }
            }
            _ => {}
        }
    }
    let mut out = BTreeSet::new();
    let Some(hm) = honest_mains else { return out };
    for s in 0..c.witness_count {
        let i = s as usize;
        if horner_out[i] && other_refs[i] == 0 && acc_refs[i] >= 1 {
            let mut t = honest.clone();
            let v = *honest.witness_trace.get_value(WitnessId(s)).unwrap() + S::E::ONE;
            set_slot_everywhere::<S>(&mut t, WitnessId(s), v);
            if let Ok(Ok(m)) = guarded(|| S::mains(c, &t, &cfg.packing())) {
                if m == *hm {
                    out.insert(s);
                }
            }
        }
    }
    out
}

/// Existential completion: an uncommitted slot has no cell the verifier could compare with, so
/// its value is whatever satisfies the relation that defines it (in op order).
fn settle_uncommitted<S: Setup>(c: &p3_circuit::Circuit<S::E>, w: &mut [S::E], uncommitted: &BTreeSet<u32>) {
    if uncommitted.is_empty() {
        return;
    }
    for op in &c.ops {
        if let Op::Alu { kind: AluOpKind::HornerAcc, a, b, c: Some(cc), out, intermediate_out: Some(acc) } = op {
            if uncommitted.contains(&out.0) {
                w[out.0 as usize] = w[acc.0 as usize] * w[b.0 as usize] + w[cc.0 as usize] - w[a.0 as usize];
            }
        }
    }
}

fn forgeries<S: Setup>(built: &Built<S>, honest: &Traces<S::E>, publics: &[S::E], rng: &mut SmallRng, per_class: usize, uncommitted: &BTreeSet<u32>) -> Vec<Forgery<S::E>> {
    let mut out = vec![];
    let c = &built.circuit;
    let refs = p3r_verif::bus::relation_ref_counts(c);
    let n_alu = honest.alu_trace.values.len();
    let real_alu = c.ops.iter().any(|o| matches!(o, Op::Alu { .. }));
    // --- class 1: one ALU cell (value only)
    if real_alu {
        // every (row, column) whose slot also sits in another column of the same row (x*y + x,
        // x*x, ...) is forged, plus `per_class` random cells
        let mut cells: Vec<(usize, usize)> = vec![];
        for (row, idx) in honest.alu_trace.indices.iter().enumerate() {
            let kind = honest.alu_trace.op_kind[row];
            for col in 0..4 {
                if col_in_relation(kind, col) != Some(true) {
                    continue;
                }
                let twin = (0..4).any(|c2| c2 != col && idx[c2] == idx[col] && col_in_relation(kind, c2) == Some(true));
                if twin && cells.len() < 6 {
                    cells.push((row, col));
                }
            }
        }
        for _ in 0..per_class {
            cells.push((rng.random_range(0..n_alu), rng.random_range(0..4usize)));
        }
        for (row, col) in cells {
            let kind = honest.alu_trace.op_kind[row];
            let mut t = honest.clone();
            t.alu_trace.values[row][col] += delta::<S>(rng);
            let slot = honest.alu_trace.indices[row][col];
            // Label: the cell now disagrees with every other reference to its slot (if any), and
            // the row's own relation may or may not survive the change.
            let v = t.alu_trace.values[row];
            let rel_ok = match kind {
                AluOpKind::Add => Some(v[0] + v[1] == v[3]),
                AluOpKind::Mul => Some(v[0] * v[1] == v[3]),
                AluOpKind::MulAdd => Some(v[0] * v[1] + v[2] == v[3]),
                _ => None,
            };
            let shared = refs[slot.0 as usize] >= 2;
            let sat = match col_in_relation(kind, col) {
                Some(false) => Some(true),
                Some(true) if shared => Some(false),
                Some(true) => rel_ok.map(|ok| ok),
                None => None,
            };
            out.push(Forgery {
                class: "alu-cell",
                site: format!("{}/{}", kind_name(kind), ["a", "b", "c", "out"][col]),
                desc: format!("alu row {row} col {col}"),
                traces: t,
                sat,
                slot: Some(slot),
            });
        }
    }
    // --- class 1b: lie about ONE operand cell of a row and carry the re-derived result: the
    // operand cell is changed, the row's `out` is recomputed from the forged operand, and the
    // new result is written wherever the `out` slot appears (dependants not re-derived). This is
    // what a floating operand (a cell that is not tied to its slot on the bus) would let through.
    if real_alu {
        let mut cells: Vec<(usize, usize)> = vec![];
        for (row, idx) in honest.alu_trace.indices.iter().enumerate() {
            let kind = honest.alu_trace.op_kind[row];
            if !matches!(kind, AluOpKind::Add | AluOpKind::Mul | AluOpKind::MulAdd) {
                continue;
            }
            let ncols = if kind == AluOpKind::MulAdd { 3 } else { 2 };
            for col in 0..ncols {
                let twin = (0..ncols).any(|c2| c2 != col && idx[c2] == idx[col]);
                if twin && cells.len() < 6 {
                    cells.push((row, col));
                }
            }
        }
        for _ in 0..per_class {
            let row = rng.random_range(0..n_alu);
            let kind = honest.alu_trace.op_kind[row];
            if matches!(kind, AluOpKind::Add | AluOpKind::Mul | AluOpKind::MulAdd) {
                let ncols = if kind == AluOpKind::MulAdd { 3 } else { 2 };
                cells.push((row, rng.random_range(0..ncols)));
            }
        }
        for (row, col) in cells {
            let kind = honest.alu_trace.op_kind[row];
            let idx = honest.alu_trace.indices[row];
            let out_slot = idx[3];
            // the forged operand must not be the out slot itself, and its slot must be referenced
            // somewhere else: a slot only this cell refers to (e.g. a private input used once) is
            // simply *defined* by the cell, so the "lie" is another satisfying assignment
            if idx[col] == out_slot || refs[idx[col].0 as usize] < 2 {
                continue;
            }
            let mut t = honest.clone();
            t.alu_trace.values[row][col] += delta::<S>(rng);
            let v = t.alu_trace.values[row];
            let new_out = match kind {
                AluOpKind::Add => v[0] + v[1],
                AluOpKind::Mul => v[0] * v[1],
                _ => v[0] * v[1] + v[2],
            };
            if new_out == w0_of(honest, out_slot) {
                continue; // the lie does not change the result (e.g. times zero)
            }
            let forged_cell = t.alu_trace.values[row][col];
            set_slot_everywhere::<S>(&mut t, out_slot, new_out);
            // set_slot_everywhere may have overwritten the forged operand if it shares the slot
            t.alu_trace.values[row][col] = forged_cell;
            // label with O2 on the slot assignment the other tables see
            let mut w = witness_vec::<S>(honest);
            w[out_slot.0 as usize] = new_out;
            let mut pubs = publics.to_vec();
            for op in &c.ops {
                if let Op::Public { out, public_pos } = op {
                    if *out == out_slot {
                        pubs[*public_pos] = new_out;
                    }
                }
            }
            settle_uncommitted::<S>(c, &mut w, uncommitted);
            let sat = match check_ops::<S>(c, &w, &pubs) {
                Ok(f) => Some(f.is_empty()),
                Err(_) => None,
            };
            out.push(Forgery {
                class: "operand-lie-result-carried",
                site: format!("{}/{}", kind_name(kind), ["a", "b", "c"][col]),
                desc: format!("alu row {row}: operand col {col} forged, out slot {out_slot} carries the re-derived result"),
                traces: t,
                sat,
                slot: Some(idx[col]),
            });
        }
    }
    // --- class 2: one constant cell, not propagated
    if !honest.const_trace.values.is_empty() {
        for _ in 0..per_class.min(2) {
            let i = rng.random_range(0..honest.const_trace.values.len());
            let mut t = honest.clone();
            t.const_trace.values[i] += delta::<S>(rng);
            // the constant row alone now disagrees with the circuit's constant and with readers
            let slot = honest.const_trace.index[i];
            out.push(Forgery {
                class: "const-cell",
                site: "const".into(),
                desc: format!("const row {i} slot {slot}"),
                traces: t,
                // an unread constant is not observable through any relation
                sat: if refs[slot.0 as usize] >= 2 { Some(false) } else { None },
                slot: Some(slot),
            });
        }
    }
    // --- class 3: one public cell, not propagated (public values are existential for this
    // verifier, so the only handle is the disagreement with the readers of the slot)
    if !honest.public_trace.values.is_empty() {
        for _ in 0..per_class.min(2) {
            let i = rng.random_range(0..honest.public_trace.values.len());
            let slot = honest.public_trace.index[i];
            // is the slot read by anything? otherwise the public row is free
            let read = c.ops.iter().any(|o| match o {
                Op::Alu { a, b, c, out, kind, .. } => {
                    *a == slot || (*b == slot && *kind != AluOpKind::BoolCheck) || *out == slot || (*c == Some(slot) && matches!(kind, AluOpKind::MulAdd | AluOpKind::HornerAcc))
                }
                Op::Const { out, .. } => *out == slot,
                _ => false,
            });
            let _ = read;
            let read = refs[slot.0 as usize] >= 2;
            let mut t = honest.clone();
            t.public_trace.values[i] += delta::<S>(rng);
            out.push(Forgery {
                class: "public-cell",
                site: "public".into(),
                desc: format!("public row {i} slot {slot}"),
                traces: t,
                sat: if read { Some(false) } else { None },
                slot: Some(slot),
            });
        }
    }
    // --- class 4: a slot's value changed on every table, dependants not re-derived. Besides
    // random slots, up to three bool-checked slots get a change that leaves the base limb alone
    // (upper limbs only: one limb, or a pair that cancels in any linear fold of the limbs).
    let w0 = witness_vec::<S>(honest);
    let mut picks: Vec<(WitnessId, Option<S::E>)> = vec![];
    if S::D > 1 {
        let bools: Vec<WitnessId> = c
            .ops
            .iter()
            .filter_map(|o| match o {
                Op::Alu { kind: AluOpKind::BoolCheck, a, .. } => Some(*a),
                _ => None,
            })
            .collect();
        for _ in 0..bools.len().min(3) {
            let s = bools[rng.random_range(0..bools.len())];
            let d = 1 + rng.random::<u64>() % (S::order() - 1);
            let mut limbs = vec![0u64; S::D];
            let i = 1 + rng.random_range(0..S::D - 1);
            limbs[i] = d;
            if S::D >= 3 && rng.random_range(0..2u32) == 0 {
                let mut j = 1 + rng.random_range(0..S::D - 1);
                if j == i {
                    j = if i + 1 < S::D { i + 1 } else { 1 };
                }
                limbs[j] = S::order() - d;
            }
            picks.push((s, Some(S::el(&limbs))));
        }
    }
    for _ in 0..per_class {
        if c.witness_count == 0 {
            break;
        }
        picks.push((WitnessId(rng.random_range(0..c.witness_count)), None));
    }
    for (s, dl) in picks {
        let mut t = honest.clone();
        let v = w0[s.0 as usize] + dl.unwrap_or_else(|| delta::<S>(rng));
        set_slot_everywhere::<S>(&mut t, s, v);
        let mut w = w0.clone();
        w[s.0 as usize] = v;
        // publics as claimed by the forged public table
        let mut pubs = publics.to_vec();
        for op in &c.ops {
            if let Op::Public { out, public_pos } = op {
                if *out == s {
                    pubs[*public_pos] = v;
                }
            }
        }
        if !uncommitted.contains(&s.0) {
            settle_uncommitted::<S>(c, &mut w, uncommitted);
        }
        let sat = match check_ops::<S>(c, &w, &pubs) {
            Ok(f) => Some(f.is_empty()),
            Err(_) => None,
        };
        let kinds = p3r_verif::bus::slot_kinds(c);
        let mut k = kinds[s.0 as usize].clone();
        k.sort();
        k.dedup();
        out.push(Forgery {
            class: "slot-everywhere",
            site: if k.is_empty() { "undefined".into() } else { k.join("+") },
            desc: format!("slot {s} := {:?}", S::coeffs(&v)),
            traces: t,
            sat,
            slot: Some(s),
        });
    }
    // --- class 5: a constant substituted and everything re-derived honestly: run the real
    // runner on a copy of the circuit whose Const op carries another value.
    let const_ops: Vec<usize> = c
        .ops
        .iter()
        .enumerate()
        .filter(|(_, o)| matches!(o, Op::Const { .. }))
        .map(|(i, _)| i)
        .collect();
    if !const_ops.is_empty() {
        let oi = const_ops[rng.random_range(0..const_ops.len())];
        let mut c2 = c.clone();
        let mut slot = WitnessId(0);
        if let Op::Const { val, out } = &mut c2.ops[oi] {
            *val += delta::<S>(rng);
            slot = *out;
        }
        // is the constant read by any relation at all?
        let read = c.ops.iter().any(|o| matches!(o, Op::Alu { a, b, c, out, .. } if *a == slot || *b == slot || *out == slot || *c == Some(slot)));
        let mut runner = c2.runner();
        // public inputs may need to follow: keep them, accept only if the run still succeeds
        if runner.set_public_inputs(publics).is_ok() {
            // privates are needed too: take them from the honest witness
            let privs: Vec<S::E> = c.private_input_rows.iter().map(|w| w0[w.0 as usize]).collect();
            if runner.set_private_inputs(&privs).is_ok() {
                if let Ok(t) = runner.run() {
                    out.push(Forgery {
                        class: "const-substituted-and-rederived",
                        site: "const".into(),
                        desc: format!("const op {oi} slot {slot}"),
                        traces: t,
                        sat: if read { Some(false) } else { None },
                        slot: Some(slot),
                    });
                }
            }
        }
    }
    out
}

/// Signature of an accepted unsatisfying forgery. Constants live in the prover's main trace
/// (one root cause whatever the slot); forgeries on slots that belong to one of the bus
/// root-cause classes of C09 are attributed to that class; everything else keeps full detail.
fn forged_signature(class: &str, site: &str, slot_class: &str) -> String {
    if class == "const-substituted-and-rederived" || (class == "slot-everywhere" && site.split('+').any(|k| k == "const")) {
        return format!("accepted-forged/{class}/const");
    }
    // forgeries on slots of a C09 bus root-cause class are attributed to that class, but keep the
    // forgery class and site: a coarser key absorbed an unrelated defect on the same kind of slot
    if matches!(slot_class, "multi-leaf-class" | "horner-referenced" | "solved-operand-of-private-out")
        || slot_class.starts_with("first-use-creator:multi-position")
        || slot_class.starts_with("first-use-creator:aliased-by-out")
    {
        // family of the slot class (the exact first-use row shape is C09's business)
        let family = slot_class.splitn(3, ':').take(2).collect::<Vec<_>>().join(":");
        return format!("accepted-forged/via-bus-defect/{family}/{class}/{site}");
    }
    format!("accepted-forged/{class}/{site}/{slot_class}")
}

fn one<S: Setup>(prog: &Prog, publics: &[S::E], privates: &[S::E], cfg: &PackCfg, rng: &mut SmallRng, key: &str, per_class: usize, sample: bool) -> Vec<CaseResult> {
    let ev = eval::<S>(prog, publics, privates);
    if !ev.all_hold() || ev.div_zero {
        return vec![CaseResult::inconclusive(key, "generator produced a non-satisfying input")];
    }
    let p = run_pipeline::<S>(prog, publics, privates, cfg, false, true);
    if p.first_failure().is_some() {
        // the honest pipeline does not complete for this program (C10's business)
        return vec![CaseResult::held(key, false).count("honest-pipeline-incomplete", 1)];
    }
    let built = p.built.as_ref().unwrap();
    if built.circuit.ops.iter().any(|o| matches!(o, Op::NonPrimitiveOpWithExecutor { .. })) {
        return vec![CaseResult::held(key, false).count("skipped-npo", 1)];
    }
    let honest = p.traces.as_ref().unwrap();
    let cpd = p.cpd.as_ref().unwrap();
    let prover = S::prover_x(cfg.packing(), false, false);
    let mut out = vec![];
    let honest_mains = S::mains(&built.circuit, honest, &cfg.packing()).ok();
    let uncommitted = uncommitted_slots::<S>(built, honest, cfg, &honest_mains);
    for (k, f) in forgeries::<S>(built, honest, publics, rng, per_class, &uncommitted).into_iter().enumerate() {
        let fkey = format!("{key}:{}:{}:{k}", f.class, f.site);
        // a "forgery" that does not change any committed matrix is not a forgery (e.g. a cell of a
        // packed Horner step that the table layout does not carry)
        if f.class != "const-substituted-and-rederived" {
            let forged_mains = guarded(|| S::mains(&built.circuit, &f.traces, &cfg.packing())).ok().and_then(|r| r.ok());
            if honest_mains.is_some() && forged_mains == honest_mains {
                out.push(CaseResult::held(fkey, false).count(format!("noop-forgery/{}", f.class), 1));
                continue;
            }
        }
        let slot_class = f
            .slot
            .map(|s| p3r_verif::bus::anomaly_class(&built.circuit, s.0 as u64))
            .unwrap_or_else(|| "other".into());
        let res = guarded(|| -> Result<(), String> {
            let proof = S::prove(&prover, &f.traces, cpd)?;
            S::verify(&prover, &proof)
        });
        let accepted = matches!(res, Ok(Ok(())));
        let mut r = match (f.sat, accepted) {
            (Some(false), true) => CaseResult::violated(
                fkey,
                forged_signature(f.class, &f.site, &slot_class),
                case_detail::<S>(prog, publics, privates, cfg, Some(built), json!({"forgery": f.desc, "class": f.class})),
            ),
            (Some(false), false) => CaseResult::held(fkey, true).count(format!("rejected/{}", f.class), 1),
            (Some(true), true) => CaseResult::held(fkey, false).count(format!("accepted-satisfying/{}", f.class), 1),
            (Some(true), false) => CaseResult::held(fkey, false).count(format!("rejected-satisfying/{}", f.class), 1),
            (None, a) => CaseResult::held(fkey, false).count(format!("unlabelled-{}/{}", if a { "accepted" } else { "rejected" }, f.class), 1),
        };
        if sample && k == 0 {
            r = r.with_sample(json!({"setup": S::NAME, "class": f.class, "site": f.site, "forgery": f.desc, "accepted": accepted,
                "prog": prog.stmts.iter().take(15).map(|s| format!("{s:?}")).collect::<Vec<_>>()}));
        }
        out.push(r);
    }
    out
}

fn case<S: Setup>(seed: u64, idx: usize, tier: Tier) -> Vec<CaseResult> {
    let mut rng = case_rng(seed, "c04", idx as u64);
    let size = rng.random_range(2..tier.pick(20usize, 36usize));
    let opts = GenOpts {
        size,
        clean: true,
        ..Default::default()
    };
    let g = gen_prog::<S>(&mut rng, &opts);
    let cfg = if rng.random_range(0..2u32) == 0 { PackCfg::default_cfg() } else { PackCfg::random(&mut rng) };
    let key = format!("{}:{}:{}", S::NAME, fnv(&serde_json::to_string(&g.prog.stmts).unwrap()), cfg.key());
    one::<S>(&g.prog, &g.publics, &g.privates, &cfg, &mut rng, &key, tier.pick(2, 3), idx < 4)
}

fn directed<S: Setup>(seed: u64, k: usize) -> Vec<CaseResult> {
    let progs = p3r_verif::pgen::first_use_programs::<S>();
    let (name, prog, pu, pr) = &progs[k % progs.len()];
    let mut rng = case_rng(seed, "c04-directed", k as u64);
    let cfg = PackCfg::default_cfg();
    let key = format!("directed:{}:{name}", S::NAME);
    one::<S>(prog, pu, pr, &cfg, &mut rng, &key, 8, false)
}

fn replay<S: Setup>(d: &Value) -> Vec<CaseResult> {
    let (prog, pu, pr, cfg) = decode_case::<S>(d);
    let mut rng = case_rng(0, "c04-replay", 0);
    one::<S>(&prog, &pu, &pr, &cfg, &mut rng, "replay", 6, true)
}

fn main() {
    let args = parse_args();
    let mut rep = Report::new(
        "C04",
        "fault_enumeration",
        &args,
        "case = (generated program whose honest proof verifies, forgery class, table/position): alu-cell, \
         operand-lie-result-carried (one operand cell forged, the row's result re-derived and carried), const-cell, \
         public-cell, slot-everywhere (value changed on all tables, dependants not re-derived), \
         const-substituted-and-rederived; second stream (keys npo|..): row programs over Poseidon2/Poseidon1 permutation \
         rows (sponge, chained, Merkle with witness-fed / private siblings, add_mmcs_verify, add_hash_slice) whose recorded \
         rows are forged: chain-limb, ctl-limb, zero-limb (each plain and with the permutation output carried down the \
         chain), bit-flip; labelled by an independent model of the row relation; non-trivial = the forged trace is labelled unsatisfying by the independent \
         op-relation evaluator; distinct by (setup, program, packing, class, site, index)",
    );
    rep.assume("the verifier under test is verify_all_tables on a proof produced with the honest CircuitProverData (preprocessed commitment unchanged)");
    rep.assume("FRI / LogUp soundness is not re-examined: only enumerated single-fault classes are tried");
    if let Some(p) = &args.replay {
        let v: Value = serde_json::from_str(&std::fs::read_to_string(p).expect("replay file")).unwrap();
        let d = v["detail"].clone();
        if d["stream"].as_str() == Some("npo") {
            // cases of the non-primitive-row stream are replayed by the sibling binary
            let exe = std::env::current_exe().unwrap().with_file_name("c04npo");
            let st = std::process::Command::new(exe).arg("--replay").arg(p).status().expect("run c04npo");
            std::process::exit(st.code().unwrap_or(2));
        }
        let name = d["setup"].as_str().unwrap().to_string();
        let rs = with_setup!(name.as_str(), replay, &d);
        rep.add_all(rs);
        rep.finish(0);
    }
    let n = args.tier.pick(220usize, 8000usize);
    let (seed, tier) = (args.seed, args.tier);
    // directed stream: every first appearance of a private input in an ALU row (the slot classes of
    // the C09 role-assignment findings), all forgery classes on these tiny programs
    let nd = p3r_verif::pgen::first_use_programs::<p3r_verif::fields::BbD1>().len() * 2;
    let rs = run_cases_isolated(n + nd, args.threads, |i| {
        if i < nd {
            if i % 2 == 0 { directed::<p3r_verif::fields::BbD1>(seed, i / 2) } else { directed::<p3r_verif::fields::KbD4>(seed, i / 2) }
        } else {
            let i = i - nd;
            with_setup!(SETUP_NAMES[i % SETUP_NAMES.len()], case, seed, i, tier)
        }
    });
    rep.add_all(rs);
    // second stream: forged Poseidon permutation rows (sponge / chained / Merkle) of row programs and
    // library gadgets, produced by the sibling binary c04npo
    rep.add_all(import_emitted("c04npo", "C04", &args, |_| true));
    rep.finish(args.tier.pick(300, 8000));
}
