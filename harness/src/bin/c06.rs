//! C06 — sampled challenges are bound to the entire transcript (fault enumeration).
//!
//! Monitor: C05-style histories (>= 2 permutations, a sample after the deviation point) are
//! built with the real `CircuitChallenger`; the witness generator is then made to DEVIATE on
//! values the verifier does not fix:
//!   * the permutation handed to `enable_poseidon*_perm` is honest on a subset of output limbs
//!     and prover-chosen (zero / random / replay of an earlier state) on the rest, at a chosen
//!     permutation index (capacity limbs, rate limbs, and — for a base permutation under the
//!     quintic circuit field — the non-constant coefficients of the rate outputs);
//!   * `Op::Hint` executors of the compiled circuit are replaced by executors that emit an
//!     alternative decomposition satisfying the recomposition identity (extension coefficients
//!     with mass moved between limbs / non-base limbs; bits of x+p);
//!   * family `row-input`: the INPUT limbs of one permutation row that do not carry an absorbed
//!     value (zero-padded rate lanes / capacity lanes of a fresh chain, capacity and unabsorbed rate
//!     lanes of later rows) are prover-chosen: the permutation of that row is computed honestly from
//!     the forged input, its outputs are propagated through the rest of the run, and the recorded
//!     row inputs in the Poseidon trace are edited to the forged input so that the table prover's
//!     recomputation of the permutation columns is consistent with what was run.
//! The resulting traces are proven with the honest `CircuitProverData` and verified with
//! `verify_all_tables`. Oracle: verifier accepts  =>  every sampled target equals the native
//! `DuplexChallenger` challenge for the full observed sequence.
#![allow(clippy::type_complexity, clippy::too_many_arguments)]

#[macro_use]
#[path = "c05.rs"]
mod c05;

use std::fmt;
use std::sync::atomic::{AtomicUsize, Ordering};
use std::sync::{Arc, Mutex};

use c05::*;
use p3_circuit::ops::{HintExecutor, Poseidon1Trace, Poseidon2Trace};
use p3_circuit::tables::NonPrimitiveTrace;
use p3_circuit::{CircuitError, Op, Traces, WitnessId};
use p3_field::PrimeField64;
use p3r_verif::fields::Setup;
use p3r_verif::util::*;
use rand::RngExt;
use rand::rngs::SmallRng;
use serde::{Deserialize, Serialize};
use serde_json::{Value, json};

// ------------------------------------------------------------------------------------------
// Deviation plans and the shared state the hooks read
// ------------------------------------------------------------------------------------------

#[derive(Clone, Debug, Serialize, Deserialize, PartialEq)]
enum Val {
    Zero,
    Random(u64),
    /// Copy the limb from the honest output of an earlier permutation call.
    Replay(usize),
}

impl Val {
    fn name(&self) -> &'static str {
        match self {
            Val::Zero => "zero",
            Val::Random(_) => "random",
            Val::Replay(_) => "replay",
        }
    }
}

/// Classes of permutation-row input lanes that do not carry an absorbed value (family `row-input`).
#[derive(Clone, Copy, Debug, Serialize, Deserialize, PartialEq, Eq, PartialOrd, Ord)]
enum LaneClass {
    /// rate lanes `absorb_len..RATE` of the first duplexing of a chain (zero by padding / initial state)
    PaddedRate,
    /// capacity lanes of the very first duplexing (first row of the permutation table; zero
    /// initial state + length tag)
    InitialCapacity,
    /// capacity lanes of the first duplexing after a `clear` (a fresh chain on a later row)
    RestartCapacity,
    /// capacity lanes of a later duplexing (inherited from the previous permutation output)
    ChainedCapacity,
    /// rate lanes `absorb_len..RATE` of a later duplexing (zero padding of a partial absorb, or
    /// the previous rate outputs of a pure squeeze)
    CarriedRate,
}

impl LaneClass {
    fn name(self) -> &'static str {
        match self {
            LaneClass::PaddedRate => "padded-rate",
            LaneClass::InitialCapacity => "initial-capacity",
            LaneClass::RestartCapacity => "restart-capacity",
            LaneClass::ChainedCapacity => "chained-capacity",
            LaneClass::CarriedRate => "carried-rate",
        }
    }
}

#[derive(Clone, Debug, Serialize, Deserialize, PartialEq)]
enum Plan {
    Honest,
    /// Input lanes `lanes` (base-limb indices) of permutation row `at` are prover-chosen; the row's
    /// permutation is recomputed from the forged input (`Val::Replay(j)`: the lanes of the output
    /// of call `j`), the outputs are propagated and the recorded trace-row inputs are edited.
    RowInput { at: usize, lanes: Vec<usize>, val: Val, class: LaneClass },
    /// Base-limb indices `limbs` of the output of permutation call `at` are prover-chosen.
    Perm { at: usize, limbs: Vec<usize>, val: Val },
    /// Non-constant coefficients of output lanes `limbs` of call `at` are prover-chosen
    /// (base permutation lifted to an extension circuit field).
    HighCoeff { at: usize, limbs: Vec<usize>, seed: u64 },
    /// `at`-th extension-decomposition hint emits an alternative decomposition.
    /// mode 0: c0 = x, others 0; mode 1: c0 += X, c1 -= 1.
    ExtHint { at: usize, mode: u8 },
    /// `at`-th binary-decomposition hint emits the bits of x + p.
    BitsHint { at: usize },
}

struct DevState {
    plan: Mutex<Plan>,
    calls: AtomicUsize,
    outer_calls: AtomicUsize,
    fired: AtomicUsize,
    hist: Mutex<Vec<Vec<u64>>>,
    /// Recorded inputs of every permutation row of the honest baseline run (kept across plans).
    rows: Mutex<Vec<Vec<u64>>>,
    /// The forged input of the row a `RowInput` plan fired on.
    forged: Mutex<Option<Vec<u64>>>,
}

impl DevState {
    fn new() -> Arc<Self> {
        Arc::new(Self {
            plan: Mutex::new(Plan::Honest),
            calls: AtomicUsize::new(0),
            outer_calls: AtomicUsize::new(0),
            fired: AtomicUsize::new(0),
            hist: Mutex::new(vec![]),
            rows: Mutex::new(vec![]),
            forged: Mutex::new(None),
        })
    }
    fn arm(&self, p: &Plan) {
        *self.plan.lock().unwrap() = p.clone();
        self.calls.store(0, Ordering::SeqCst);
        self.outer_calls.store(0, Ordering::SeqCst);
        self.fired.store(0, Ordering::SeqCst);
        self.hist.lock().unwrap().clear();
        *self.forged.lock().unwrap() = None;
    }
}

fn mix(a: u64, b: u64) -> u64 {
    let mut z = a ^ b.wrapping_mul(0x9E3779B97F4A7C15);
    z = (z ^ (z >> 30)).wrapping_mul(0xBF58476D1CE4E5B9);
    z = (z ^ (z >> 27)).wrapping_mul(0x94D049BB133111EB);
    z ^ (z >> 31)
}

fn base_hook<C: Cfg>(st: Arc<DevState>) -> LimbHook<BOf<C>> {
    let order = <C::S as Setup>::order();
    Arc::new(move |x: &mut [BOf<C>]| {
        let k = st.calls.fetch_add(1, Ordering::SeqCst);
        let honest: Vec<u64> = x.iter().map(|v| v.as_canonical_u64()).collect();
        let mut hist = st.hist.lock().unwrap();
        match &*st.plan.lock().unwrap() {
            Plan::Perm { at, limbs, val } if *at == k => {
                for &l in limbs {
                    let v = match val {
                        Val::Zero => 0,
                        Val::Random(s) => mix(*s, l as u64) % order,
                        Val::Replay(j) => hist.get(*j).map(|o| o[l]).unwrap_or(0),
                    };
                    x[l] = bel::<C>(v);
                }
                st.fired.fetch_add(1, Ordering::SeqCst);
            }
            Plan::RowInput { at, lanes, val, .. } if *at == k => {
                // Rows before `at` are honest, so the input of this call is the recorded input of
                // the honest baseline run; the whole output becomes P(forged input).
                if let Some(inp) = st.rows.lock().unwrap().get(k).filter(|r| r.len() == x.len()) {
                    let mut f = inp.clone();
                    let w = f.len();
                    for &l in lanes.iter().filter(|l| **l < w) {
                        f[l] = match val {
                            Val::Zero => 0,
                            Val::Random(s) => 1 + mix(*s, l as u64) % (order - 1),
                            Val::Replay(j) => hist.get(*j).map(|o| o[l]).unwrap_or(0),
                        };
                    }
                    if f != *inp {
                        let mut y: Vec<BOf<C>> = f.iter().map(|v| bel::<C>(*v)).collect();
                        C::raw_permute(&mut y);
                        x.copy_from_slice(&y);
                        *st.forged.lock().unwrap() = Some(f);
                        st.fired.fetch_add(1, Ordering::SeqCst);
                    }
                }
            }
            _ => {}
        }
        hist.push(honest);
    })
}

fn ext_hook<C: Cfg>(st: Arc<DevState>) -> LimbHook<EOf<C>> {
    let order = <C::S as Setup>::order();
    let d = <C::S as Setup>::D;
    Arc::new(move |x: &mut [EOf<C>]| {
        let k = st.outer_calls.fetch_add(1, Ordering::SeqCst);
        if let Plan::HighCoeff { at, limbs, seed } = &*st.plan.lock().unwrap() {
            if *at == k {
                for &l in limbs {
                    let mut c = vec![0u64; d];
                    for (i, ci) in c.iter_mut().enumerate().skip(1) {
                        *ci = 1 + mix(*seed, (l * 8 + i) as u64) % (order - 1);
                    }
                    x[l] += eel::<C>(&c);
                }
                st.fired.fetch_add(1, Ordering::SeqCst);
            }
        }
    })
}

#[derive(Clone, Copy, PartialEq, Debug)]
enum HKind {
    Ext,
    Bits,
}

struct EvilHint<C: Cfg> {
    inner: Box<dyn HintExecutor<EOf<C>>>,
    st: Arc<DevState>,
    idx: usize,
    kind: HKind,
}

impl<C: Cfg> fmt::Debug for EvilHint<C> {
    fn fmt(&self, f: &mut fmt::Formatter<'_>) -> fmt::Result {
        write!(f, "EvilHint({:?}#{} over {:?})", self.kind, self.idx, self.inner)
    }
}

fn put<E: PartialEq + fmt::Debug>(witness: &mut [Option<E>], wid: WitnessId, val: E) -> Result<(), CircuitError> {
    let Some(slot) = witness.get_mut(wid.0 as usize) else {
        return Err(CircuitError::WitnessIdOutOfBounds { witness_id: wid });
    };
    if let Some(existing) = slot.as_ref() {
        if *existing != val {
            return Err(CircuitError::WitnessConflict {
                witness_id: wid,
                existing: format!("{existing:?}"),
                new: format!("{val:?}"),
                expr_ids: vec![],
            });
        }
    } else {
        *slot = Some(val);
    }
    Ok(())
}

impl<C: Cfg> HintExecutor<EOf<C>> for EvilHint<C> {
    fn execute(
        &self,
        inputs: &[WitnessId],
        outputs: &[WitnessId],
        witness: &mut [Option<EOf<C>>],
    ) -> Result<(), CircuitError> {
        let plan = self.st.plan.lock().unwrap().clone();
        let d = <C::S as Setup>::D;
        let order = <C::S as Setup>::order();
        match (self.kind, plan) {
            (HKind::Ext, Plan::ExtHint { at, mode }) if at == self.idx && inputs.len() == 1 && outputs.len() == d && d > 1 => {
                let Some(x) = witness.get(inputs[0].0 as usize).and_then(|o| *o) else {
                    return Err(CircuitError::WitnessNotSet { witness_id: inputs[0] });
                };
                let c = <C::S as Setup>::coeffs(&x);
                let mut alt: Vec<EOf<C>> = c.iter().map(|ci| eel::<C>(&[*ci])).collect();
                if mode == 0 {
                    // everything in the first limb
                    alt[0] = x;
                    for a in alt.iter_mut().skip(1) {
                        *a = eel::<C>(&[0]);
                    }
                } else {
                    // move one unit of the second basis element into the first limb
                    let mut b1 = vec![0u64; d];
                    b1[1] = 1;
                    alt[0] += eel::<C>(&b1);
                    alt[1] = eel::<C>(&[(c[1] + order - 1) % order]);
                }
                self.st.fired.fetch_add(1, Ordering::SeqCst);
                for (w, v) in outputs.iter().zip(alt) {
                    put(witness, *w, v)?;
                }
                Ok(())
            }
            (HKind::Bits, Plan::BitsHint { at }) if at == self.idx && inputs.len() == 1 => {
                let Some(x) = witness.get(inputs[0].0 as usize).and_then(|o| *o) else {
                    return Err(CircuitError::WitnessNotSet { witness_id: inputs[0] });
                };
                let c = <C::S as Setup>::coeffs(&x);
                let n = outputs.len();
                let alt = c[0] as u128 + order as u128;
                // realisable only when x + p still fits the requested number of bits and the
                // value is a base element (what sample_bits decomposes)
                if n > 64 || (n < 128 && alt >> n != 0) || c.iter().skip(1).any(|v| *v != 0) {
                    return self.inner.execute(inputs, outputs, witness);
                }
                self.st.fired.fetch_add(1, Ordering::SeqCst);
                for (i, w) in outputs.iter().enumerate() {
                    put(witness, *w, eel::<C>(&[((alt >> i) & 1) as u64]))?;
                }
                Ok(())
            }
            _ => self.inner.execute(inputs, outputs, witness),
        }
    }

    fn boxed(&self) -> Box<dyn HintExecutor<EOf<C>>> {
        Box::new(EvilHint::<C> { inner: self.inner.boxed(), st: self.st.clone(), idx: self.idx, kind: self.kind })
    }
}

/// Wraps every decomposition hint of the compiled circuit; returns (#ext hints, #bits hints).
fn install_hints<C: Cfg>(built: &mut Built<C>, st: &Arc<DevState>) -> (usize, usize) {
    let (mut ne, mut nb) = (0, 0);
    for op in built.circuit.ops.iter_mut() {
        if let Op::Hint { executor, .. } = op {
            let name = format!("{executor:?}");
            let (kind, idx) = if name.contains("ExtDecompositionHint") {
                ne += 1;
                (HKind::Ext, ne - 1)
            } else if name.contains("BinaryDecompositionHint") {
                nb += 1;
                (HKind::Bits, nb - 1)
            } else {
                continue;
            };
            let inner = executor.boxed();
            *executor = Box::new(EvilHint::<C> { inner, st: st.clone(), idx, kind });
        }
    }
    (ne, nb)
}

// ------------------------------------------------------------------------------------------
// Executing one plan
// ------------------------------------------------------------------------------------------

/// Recorded input limbs (canonical values) of every Poseidon permutation row of a run.
fn poseidon_row_inputs<C: Cfg>(traces: &Traces<EOf<C>>) -> Option<Vec<Vec<u64>>> {
    let can = |v: &[BOf<C>]| v.iter().map(|x| x.as_canonical_u64()).collect::<Vec<u64>>();
    for t in traces.non_primitive_traces.values() {
        if let Some(p) = t.as_any().downcast_ref::<Poseidon2Trace<BOf<C>>>() {
            return Some(p.operations.iter().map(|r| can(&r.input_values)).collect());
        }
        if let Some(p) = t.as_any().downcast_ref::<Poseidon1Trace<BOf<C>>>() {
            return Some(p.operations.iter().map(|r| can(&r.input_values)).collect());
        }
    }
    None
}

/// Replaces the recorded input limbs of Poseidon row `at` (what the table prover recomputes the
/// permutation columns from) by `forged`. Nothing else of the traces is touched.
fn forge_row_inputs<C: Cfg>(traces: &mut Traces<EOf<C>>, at: usize, forged: &[u64]) -> bool {
    let vals: Vec<BOf<C>> = forged.iter().map(|v| bel::<C>(*v)).collect();
    for t in traces.non_primitive_traces.values_mut() {
        let edited: Option<Box<dyn NonPrimitiveTrace<EOf<C>>>> =
            if let Some(p) = t.as_any().downcast_ref::<Poseidon2Trace<BOf<C>>>() {
                let mut p = p.clone();
                match p.operations.get_mut(at) {
                    Some(r) if r.input_values.len() == vals.len() => r.input_values = vals.clone(),
                    _ => return false,
                }
                Some(Box::new(p))
            } else if let Some(p) = t.as_any().downcast_ref::<Poseidon1Trace<BOf<C>>>() {
                let mut p = p.clone();
                match p.operations.get_mut(at) {
                    Some(r) if r.input_values.len() == vals.len() => r.input_values = vals.clone(),
                    _ => return false,
                }
                Some(Box::new(p))
            } else {
                None
            };
        if let Some(e) = edited {
            *t = e;
            return true;
        }
    }
    false
}

#[derive(Debug)]
enum Outcome {
    RunnerError(String),
    NotApplied,
    NoEffect,
    ProverFailed(String),
    Rejected(String),
    Accepted { mismatches: Vec<Value> },
    /// row-input family only: accepted, and every sampled value equals the native one
    AcceptedSame,
    /// honest plan only
    HonestOk(String),
}

fn err_class(s: &str) -> String {
    // first two identifier-like tokens of a debug-formatted error
    let toks: Vec<&str> = s
        .split(|c: char| !c.is_alphanumeric())
        .filter(|t| !t.is_empty() && t.chars().next().is_some_and(|c| c.is_alphabetic()))
        .take(2)
        .collect();
    toks.join(".")
}

fn exec_plan<C: Cfg>(
    built: &Built<C>,
    kit: &ProveKit<SCOf<C>>,
    st: &Arc<DevState>,
    nat: &NativeRun,
    plan: &Plan,
    pin: Option<&str>,
) -> Outcome {
    st.arm(plan);
    let row_input = matches!(plan, Plan::RowInput { .. });
    let mut traces = match guarded(|| run_built::<C>(built, &built.publics)) {
        Ok(Ok(t)) => t,
        Ok(Err(e)) => return Outcome::RunnerError(err_variant(&e)),
        Err(p) => return Outcome::RunnerError(format!("panic@{}", panic_site(&p))),
    };
    let got = read_probes::<C>(built, &traces);
    let mut mismatches = vec![];
    for (j, (exp, g)) in nat.expects.iter().zip(&got).enumerate() {
        if !probe_matches::<C>(exp, g) {
            mismatches.push(json!({"probe": j, "op_index": built.probes[j].0, "native": format!("{exp:?}"), "circuit": g}));
        }
    }
    let honest = *plan == Plan::Honest;
    if !honest {
        if st.fired.load(Ordering::SeqCst) == 0 {
            return Outcome::NotApplied;
        }
        if let Plan::RowInput { at, .. } = plan {
            // make the recorded row consistent with what was run: the table prover recomputes the
            // permutation columns (and hence the exposed outputs) from the recorded row inputs
            let forged = st.forged.lock().unwrap().clone();
            match forged {
                Some(f) if forge_row_inputs::<C>(&mut traces, *at, &f) => {}
                _ => return Outcome::NotApplied,
            }
        } else if mismatches.is_empty() {
            return Outcome::NoEffect;
        }
    } else if !mismatches.is_empty() {
        // the unfaulted run itself samples something else than the native challenger: if that
        // run is provable and accepted, it is the very thing the property forbids (no deviation
        // needed); otherwise it is reported as a harness-level inconclusive by the caller
        let proof = match guarded(|| <C::S as Setup>::prove(&kit.prover, &traces, &kit.cpd)) {
            Ok(Ok(p)) => p,
            _ => return Outcome::RunnerError(format!("honest transcript differs from native: {}", mismatches[0])),
        };
        return match guarded(|| <C::S as Setup>::verify(&kit.prover, &proof)) {
            Ok(Ok(())) => {
                mismatches.truncate(4);
                Outcome::Accepted { mismatches }
            }
            _ => Outcome::RunnerError(format!("honest transcript differs from native: {}", mismatches[0])),
        };
    } else {
        // the honest row inputs the row-input family forges from; sanity: the plain permutation of
        // the recorded inputs is what the (hooked) executor produced, row by row
        let rows = poseidon_row_inputs::<C>(&traces).unwrap_or_default();
        let hist = st.hist.lock().unwrap().clone();
        let consistent = rows.len() == hist.len()
            && rows.iter().zip(&hist).all(|(r, o)| {
                let mut y: Vec<BOf<C>> = r.iter().map(|v| bel::<C>(*v)).collect();
                r.len() == C::WIDTH && {
                    C::raw_permute(&mut y);
                    y.iter().map(|v| v.as_canonical_u64()).eq(o.iter().copied())
                }
            });
        *st.rows.lock().unwrap() = if consistent { rows } else { vec![] };
    }
    let proof = match guarded(|| <C::S as Setup>::prove(&kit.prover, &traces, &kit.cpd)) {
        Ok(Ok(p)) => p,
        Ok(Err(e)) => return Outcome::ProverFailed(err_class(&e)),
        Err(p) => return Outcome::ProverFailed(format!("panic@{}", panic_site(&p))),
    };
    match guarded(|| <C::S as Setup>::verify(&kit.prover, &proof)) {
        Ok(Ok(())) => {
            let this_pin = C::pin(&proof);
            if honest {
                Outcome::HonestOk(this_pin)
            } else if pin.is_some_and(|p| p != this_pin) {
                Outcome::Rejected("preprocessed-commitment-differs-from-pinned".into())
            } else if row_input && mismatches.is_empty() {
                Outcome::AcceptedSame
            } else {
                mismatches.truncate(4);
                Outcome::Accepted { mismatches }
            }
        }
        Ok(Err(e)) => Outcome::Rejected(err_class(&e)),
        Err(p) => Outcome::Rejected(format!("verifier-panic@{}", panic_site(&p))),
    }
}

/// (signature class, limb class) of a plan.
fn classify<C: Cfg>(plan: &Plan) -> (&'static str, String) {
    match plan {
        Plan::Honest => ("honest", "honest".into()),
        Plan::Perm { limbs, .. } => {
            let cap = limbs.iter().all(|l| *l >= C::RATE);
            let all = limbs.len() == if cap { C::WIDTH - C::RATE } else { C::RATE };
            if cap {
                ("capacity-unbound", if all { "capacity-all".into() } else { "capacity-one".into() })
            } else {
                ("rate-unbound", if all { "rate-all".into() } else { "rate-one".into() })
            }
        }
        Plan::RowInput { lanes, class, .. } => {
            ("row-input-unbound", format!("{}-{}", class.name(), if lanes.len() == 1 { "one" } else { "all" }))
        }
        Plan::HighCoeff { .. } => ("rate-unbound", "rate-highcoeff".into()),
        Plan::ExtHint { .. } => ("hint-unbound", "ext-coeffs".into()),
        Plan::BitsHint { .. } => ("hint-unbound", "bits".into()),
    }
}

/// `<class>/<configuration>[+recompose mode]/<prover-chosen limb class>`. The recompose mode is part
/// of the signature where the binding mechanism differs per mode (coefficient targets are read
/// through the recompose table or through ALU rows): rate limbs and extension-coefficient hints.
/// Capacity limbs and bit hints do not pass through recomposition before they are (not) checked.
/// Row inputs: a packed permutation (degree 4 / 2) reads recomposed limbs (mode in the signature);
/// a base permutation reads the state targets directly (no mode).
fn signature<C: Cfg>(plan: &Plan, recompose: bool) -> String {
    let (class, limb) = classify::<C>(plan);
    let coarse = limb.trim_end_matches("-all").trim_end_matches("-one");
    let mode = if recompose { "npo" } else { "alu" };
    match plan {
        Plan::ExtHint { .. } | Plan::HighCoeff { .. } => format!("{class}/{}+{mode}/{coarse}", C::NAME),
        Plan::RowInput { .. } if C::PERM_D > 1 => format!("{class}/{}+{mode}/{coarse}", C::NAME),
        Plan::Perm { limbs, .. } if limbs.iter().any(|l| *l < C::RATE) => format!("{class}/{}+{mode}/{coarse}", C::NAME),
        _ => format!("{class}/{}/{coarse}", C::NAME),
    }
}

fn plan_tag(plan: &Plan) -> String {
    match plan {
        Plan::Honest => "honest".into(),
        Plan::Perm { at, val, .. } => format!("{}@perm{}", val.name(), at),
        Plan::RowInput { at, val, lanes, .. } if lanes.len() == 1 => format!("{}@row{}.lane{}", val.name(), at, lanes[0]),
        Plan::RowInput { at, val, .. } => format!("{}@row{}", val.name(), at),
        Plan::HighCoeff { at, .. } => format!("random@perm{at}"),
        Plan::ExtHint { at, mode } => format!("mode{mode}@hint{at}"),
        Plan::BitsHint { at } => format!("x+p@hint{at}"),
    }
}

fn detail<C: Cfg>(h: &[HOp], recompose: bool, plan: &Plan, extra: Value) -> Value {
    json!({"config": C::NAME, "recompose_npo": recompose, "history": h, "plan": plan, "extra": extra})
}

/// Runs the honest baseline and every plan on one history. `mk_plans` sees the number of
/// permutations / hints of the built circuit.
fn run_history<C: Cfg>(
    h: &[HOp],
    recompose: bool,
    mk_plans: &mut dyn FnMut(usize, usize, usize) -> Vec<Plan>,
    sample: bool,
) -> Vec<CaseResult> {
    let nat = native_eval::<C>(h, None);
    let phash = path_hash(C::NAME, &nat.phases);
    let mode = if recompose { "npo" } else { "alu" };
    let base_key = format!("{}|{mode}|{phash}", C::NAME);
    let st = DevState::new();
    let mut built = match guarded(|| build_history::<C>(h, recompose, true, Some(base_hook::<C>(st.clone())), Some(ext_hook::<C>(st.clone())))) {
        Ok(Ok(b)) => b,
        Ok(Err(e)) => return vec![CaseResult::inconclusive(base_key, format!("build failed: {}", err_class(&e)))],
        Err(p) => return vec![CaseResult::inconclusive(base_key, format!("build panic: {}", panic_site(&p)))],
    };
    let (n_ext, n_bits) = install_hints::<C>(&mut built, &st);
    let kit = match guarded(|| C::prove_kit(&built.circuit, recompose)) {
        Ok(Ok(k)) => k,
        Ok(Err(e)) => return vec![CaseResult::inconclusive(base_key, format!("prove kit: {}", err_class(&e)))],
        Err(p) => return vec![CaseResult::inconclusive(base_key, format!("prove kit panic: {}", panic_site(&p)))],
    };
    let mut out = vec![];
    // honest baseline: must run, equal the native transcript, prove and verify
    let pin = match exec_plan::<C>(&built, &kit, &st, &nat, &Plan::Honest, None) {
        Outcome::HonestOk(pin) => {
            let mut r = CaseResult::held(format!("{base_key}|honest"), false)
                .count("honest-baseline-accepted", 1)
                .count(format!("config/{}+{mode}", C::NAME), 1);
            if sample {
                r = r.with_sample(json!({"config": C::NAME, "recompose_npo": recompose, "permutations": nat.perms,
                    "ext_hints": n_ext, "bits_hints": n_bits, "ops": built.circuit.ops.len(),
                    "phases": nat.phases.iter().take(40).collect::<Vec<_>>()}));
            }
            out.push(r);
            pin
        }
        Outcome::Accepted { mismatches } => {
            return vec![CaseResult::violated(
                format!("{base_key}|honest"),
                format!("honest-run-accepted-with-non-native-challenge/{}", C::NAME),
                detail::<C>(h, recompose, &Plan::Honest, json!({"accepted_with_non_native_challenges": mismatches, "permutations": nat.perms})),
            )];
        }
        o => {
            return vec![CaseResult::inconclusive(
                base_key,
                format!("honest baseline not accepted: {}", format!("{o:?}").chars().take(90).collect::<String>()),
            )];
        }
    };
    for plan in mk_plans(nat.perms, n_ext, n_bits) {
        let (class, limb) = classify::<C>(&plan);
        let key = format!("{base_key}|{class}|{limb}|{}", plan_tag(&plan));
        let cname = format!("{limb}/{}", C::NAME);
        let ri = match &plan {
            Plan::RowInput { class, .. } => Some(format!("row-input/{}/{}", class.name(), C::NAME)),
            _ => None,
        };
        if ri.is_some() && st.rows.lock().unwrap().is_empty() {
            out.push(CaseResult::inconclusive(key, "row-input: recorded row inputs of the honest run not recoverable / not consistent with the plain permutation"));
            continue;
        }
        let outcome = exec_plan::<C>(&built, &kit, &st, &nat, &plan, Some(&pin));
        let ri_label = match &outcome {
            Outcome::Accepted { .. } => "accepted-different-challenge",
            Outcome::AcceptedSame => "accepted-same-challenge",
            Outcome::Rejected(_) => "rejected-by-verifier",
            Outcome::ProverFailed(_) => "rejected-by-prover",
            Outcome::RunnerError(_) => "rejected-by-run",
            Outcome::NotApplied | Outcome::NoEffect => "not-realisable",
            Outcome::HonestOk(_) => "harness-error",
        };
        let mut r = match outcome {
            Outcome::Accepted { mismatches } => CaseResult::violated(
                key,
                signature::<C>(&plan, recompose),
                detail::<C>(h, recompose, &plan, json!({"accepted_with_non_native_challenges": mismatches,
                    "permutations": nat.perms})),
            )
            .count(format!("accepted/{cname}"), 1),
            Outcome::Rejected(e) => CaseResult::held(key, true)
                .count(format!("rejected/{cname}"), 1)
                .count(format!("rejection-error/{e}"), 1),
            Outcome::NoEffect | Outcome::AcceptedSame => {
                CaseResult::held(key, false).count(format!("trivial/no-sampled-value-changed/{limb}"), 1)
            }
            Outcome::NotApplied => CaseResult::held(key, false).count(format!("trivial/deviation-not-realisable/{limb}"), 1),
            Outcome::RunnerError(e) => CaseResult::held(key, false).count(format!("trivial/runner-error/{limb}+{mode}/{e}"), 1),
            Outcome::ProverFailed(e) => CaseResult::held(key, false).count(format!("trivial/prover-failed/{limb}/{e}"), 1),
            Outcome::HonestOk(_) => CaseResult::inconclusive(key, "harness: honest outcome for a deviating plan"),
        };
        if let Some(p) = ri {
            r = r.count(format!("{p}/attempted"), 1).count(format!("{p}/{ri_label}"), 1);
        }
        out.push(r);
    }
    out
}

// ------------------------------------------------------------------------------------------
// Workload
// ------------------------------------------------------------------------------------------

/// The minimal history of the property text: observe RATE, sample, observe RATE, sample
/// (`ext`: the samples are extension samples, as a verifier draws alpha / zeta / beta).
fn canonical<C: Cfg>(ext: bool) -> Vec<HOp> {
    let mut h = vec![];
    for i in 0..C::RATE as u64 {
        h.push(HOp::Obs { v: 100 + i, k: false });
    }
    h.push(if ext { HOp::SampleExt } else { HOp::Sample });
    for i in 0..C::RATE as u64 {
        h.push(HOp::Obs { v: 200 + i, k: false });
    }
    h.push(if ext { HOp::SampleExt } else { HOp::Sample });
    h
}

/// A history whose (last) `sample_bits` draws a value x with x + p < 2^bits(p), found by
/// grinding the observation before it natively (None if not realisable for this field).
fn bits_history<C: Cfg>(rng: &mut SmallRng) -> Option<Vec<HOp>> {
    let order = <C::S as Setup>::order();
    let nbits = bf_bits::<C>();
    if nbits >= 64 || (1u128 << nbits) - (order as u128) < (order as u128 >> 12) {
        return None; // probability of a small sample below 2^-12: not realisable by grinding
    }
    let o = GenOpts { max_ops: 14, max_perms: 2, pow: false, clear: false, bits: false, end_sample: false, const_pct: 20 };
    let mut h = gen_history::<C>(rng, &o);
    let mut nat = C::native();
    for op in &h {
        apply_native::<C>(nat.as_mut(), op, None);
    }
    let start = rng.random::<u64>() % order;
    let mut found = None;
    for i in 0..40_000u64 {
        let c = (start + i) % order;
        let mut f = nat.fork();
        f.observe(bel::<C>(c));
        let x = f.sample().as_canonical_u64();
        if (x as u128 + order as u128) >> nbits == 0 {
            found = Some(c);
            break;
        }
    }
    let c = found?;
    h.push(HOp::Obs { v: c, k: false });
    h.push(HOp::SampleBits { n: rng.random_range(1..=nbits) });
    for _ in 0..rng.random_range(1..=C::RATE) {
        h.push(HOp::Obs { v: rng.random::<u64>() % order, k: false });
    }
    h.push(HOp::Sample);
    Some(h)
}

fn limb_sets<C: Cfg>(rng: &mut SmallRng) -> (Vec<usize>, Vec<usize>, Vec<usize>, Vec<usize>) {
    let cap: Vec<usize> = (C::RATE..C::WIDTH).collect();
    let rate: Vec<usize> = (0..C::RATE).collect();
    let cap1 = vec![rng.random_range(C::RATE..C::WIDTH)];
    // samples pop from the end of the rate part: prefer the limbs sampled first
    let rate1 = vec![C::RATE - 1 - rng.random_range(0..C::RATE.min(4))];
    (cap, cap1, rate, rate1)
}

fn rand_val(rng: &mut SmallRng, at: usize) -> Val {
    match rng.random_range(0..3u32) {
        0 => Val::Zero,
        1 if at > 0 => Val::Replay(rng.random_range(0..at)),
        _ => Val::Random(rng.random()),
    }
}

/// One plan per limb class (two for the hint classes), positions and values random.
fn random_plans<C: Cfg>(rng: &mut SmallRng, perms: usize, n_ext: usize, n_bits: usize, bits_target: bool) -> Vec<Plan> {
    let mut v = vec![];
    let (cap, cap1, rate, rate1) = limb_sets::<C>(rng);
    if perms >= 2 {
        let at = rng.random_range(0..perms - 1);
        v.push(Plan::Perm { at, limbs: cap, val: rand_val(rng, at) });
        let at = rng.random_range(0..perms - 1);
        v.push(Plan::Perm { at, limbs: cap1, val: if chance(rng, 1, 2) { Val::Random(rng.random()) } else { rand_val(rng, at) } });
    }
    if perms >= 1 {
        let at = rng.random_range(0..perms);
        v.push(Plan::Perm { at, limbs: rate, val: rand_val(rng, at) });
        let at = rng.random_range(0..perms);
        v.push(Plan::Perm { at, limbs: rate1.clone(), val: Val::Random(rng.random()) });
        if C::PERM_D == 1 && <C::S as Setup>::D > 1 {
            let at = rng.random_range(0..perms);
            let limbs = if chance(rng, 1, 2) { rate1 } else { (0..C::RATE).collect() };
            v.push(Plan::HighCoeff { at, limbs, seed: rng.random() });
        }
    }
    if n_ext > 0 {
        v.push(Plan::ExtHint { at: rng.random_range(0..n_ext), mode: rng.random_range(0..2u32) as u8 });
    }
    if n_bits > 0 {
        let at = if bits_target { n_bits - 1 } else { rng.random_range(0..n_bits) };
        v.push(Plan::BitsHint { at });
    }
    v
}

/// Every class, deterministic, on the canonical history (deviation at the first permutation
/// for the capacity classes: "the second challenge ignores the first RATE observations").
fn canonical_plans<C: Cfg>(n_ext: usize, _n_bits: usize) -> Vec<Plan> {
    let cap: Vec<usize> = (C::RATE..C::WIDTH).collect();
    let rate: Vec<usize> = (0..C::RATE).collect();
    let mut v = vec![
        Plan::Perm { at: 0, limbs: cap.clone(), val: Val::Zero },
        Plan::Perm { at: 0, limbs: cap, val: Val::Random(7) },
        Plan::Perm { at: 1, limbs: rate.clone(), val: Val::Zero },
        Plan::Perm { at: 1, limbs: rate, val: Val::Replay(0) },
        Plan::Perm { at: 0, limbs: vec![C::RATE - 1], val: Val::Random(13) },
    ];
    // every capacity limb on its own (a single unchained / unexposed limb must be found)
    for l in C::RATE..C::WIDTH {
        v.push(Plan::Perm { at: 0, limbs: vec![l], val: Val::Random(11 + l as u64) });
    }
    if C::PERM_D == 1 && <C::S as Setup>::D > 1 {
        v.push(Plan::HighCoeff { at: 1, limbs: vec![C::RATE - 1], seed: 5 });
        v.push(Plan::HighCoeff { at: 0, limbs: (0..C::RATE).collect(), seed: 6 });
    }
    if n_ext > 0 {
        // hints 0..: decompositions of the outputs of the first permutation (output 0 holds rate limbs)
        // hint 1 = decomposition of output 1 of the first permutation (its last coefficient is the
        // first sample); hint width_ext + 1 = the same for the second permutation
        let we = C::WIDTH / C::PERM_D;
        v.push(Plan::ExtHint { at: 1, mode: 0 });
        v.push(Plan::ExtHint { at: 1, mode: 1 });
        v.push(Plan::ExtHint { at: (we + 1).min(n_ext - 1), mode: 0 });
    }
    v
}

// ------------------------------------------------------------------------------------------
// Family `row-input`: which lanes of which permutation row carry no absorbed value
// ------------------------------------------------------------------------------------------

/// One duplexing of a history: first of its chain (after init / clear)? how many inputs absorbed?
#[derive(Clone, Copy, Debug, PartialEq)]
struct RowSim {
    fresh: bool,
    absorb: usize,
}

/// Buffer bookkeeping of the duplex sponge over a history (independent of the repository code;
/// cross-checked against the permutation count of the native challenger by the caller).
fn sim_rows<C: Cfg>(h: &[HOp]) -> Vec<RowSim> {
    struct S {
        r: usize,
        inl: usize,
        outl: usize,
        fresh: bool,
        rows: Vec<RowSim>,
    }
    impl S {
        fn duplex(&mut self) {
            self.rows.push(RowSim { fresh: self.fresh, absorb: self.inl });
            self.fresh = false;
            self.inl = 0;
            self.outl = self.r;
        }
        fn obs(&mut self, n: usize) {
            for _ in 0..n {
                self.outl = 0;
                self.inl += 1;
                if self.inl == self.r {
                    self.duplex();
                }
            }
        }
        fn smp(&mut self, n: usize) {
            for _ in 0..n {
                if self.inl > 0 || self.outl == 0 {
                    self.duplex();
                }
                self.outl -= 1;
            }
        }
    }
    let d = <C::S as Setup>::D;
    let mut s = S { r: C::RATE, inl: 0, outl: 0, fresh: true, rows: vec![] };
    for op in h {
        match op {
            HOp::Obs { .. } => s.obs(1),
            HOp::ObsExt { .. } => s.obs(d),
            HOp::ObsSlice { vs, .. } => s.obs(vs.len()),
            HOp::ObsExtSlice { vs, .. } => s.obs(vs.len() * d),
            HOp::Sample | HOp::SampleBits { .. } => s.smp(1),
            HOp::SampleExt => s.smp(d),
            HOp::SampleExtVec { n } => s.smp(n * d),
            HOp::Pow { bits, .. } => {
                if *bits > 0 {
                    s.obs(1);
                    s.smp(1);
                }
            }
            HOp::Clear => {
                s.inl = 0;
                s.outl = 0;
                s.fresh = true;
            }
        }
    }
    s.rows
}

fn class_lanes<C: Cfg>(at: usize, row: &RowSim, class: LaneClass) -> Vec<usize> {
    match class {
        LaneClass::PaddedRate if row.fresh => (row.absorb..C::RATE).collect(),
        LaneClass::InitialCapacity if row.fresh && at == 0 => (C::RATE..C::WIDTH).collect(),
        LaneClass::RestartCapacity if row.fresh && at > 0 => (C::RATE..C::WIDTH).collect(),
        LaneClass::ChainedCapacity if !row.fresh => (C::RATE..C::WIDTH).collect(),
        LaneClass::CarriedRate if !row.fresh => (row.absorb..C::RATE).collect(),
        _ => vec![],
    }
}

const LANE_CLASSES: [LaneClass; 5] = [
    LaneClass::PaddedRate,
    LaneClass::InitialCapacity,
    LaneClass::RestartCapacity,
    LaneClass::ChainedCapacity,
    LaneClass::CarriedRate,
];

/// Every (row, lane class) of the history with every value kind that is not the identity there:
/// all lanes random ("zero -> junk"), one lane random (`every_lane`: each table limb of the class
/// on its own, so that a single unbound lane is found), all lanes zero ("reset") where the honest lanes
/// are not zero, all lanes replayed from an earlier permutation output where there is one.
fn all_row_plans<C: Cfg>(rows: &[RowSim], seed: u64, every_lane: bool) -> Vec<Plan> {
    let mut v = vec![];
    for (at, row) in rows.iter().enumerate() {
        for class in LANE_CLASSES {
            let lanes = class_lanes::<C>(at, row, class);
            if lanes.is_empty() {
                continue;
            }
            let s = mix(seed, (at * 8 + class as usize) as u64);
            v.push(Plan::RowInput { at, lanes: lanes.clone(), val: Val::Random(s), class });
            if every_lane && lanes.len() > 1 {
                // one lane of every limb the permutation table binds as a unit (a base lane for a
                // base permutation, the PERM_D coefficients of a packed limb otherwise)
                let d = C::PERM_D.max(1);
                let mut limbs: Vec<usize> = lanes.iter().map(|l| l / d).collect();
                limbs.dedup();
                for limb in limbs {
                    let cands: Vec<usize> = lanes.iter().copied().filter(|l| l / d == limb).collect();
                    let l = cands[(mix(s, 32 + limb as u64) % cands.len() as u64) as usize];
                    v.push(Plan::RowInput { at, lanes: vec![l], val: Val::Random(mix(s, 16 + l as u64)), class });
                }
            } else {
                let one = lanes[(mix(s, 1) % lanes.len() as u64) as usize];
                v.push(Plan::RowInput { at, lanes: vec![one], val: Val::Random(mix(s, 2)), class });
            }
            let honest_nonzero = match class {
                LaneClass::PaddedRate => false,
                LaneClass::InitialCapacity | LaneClass::RestartCapacity => row.absorb > 0, // the length tag
                LaneClass::ChainedCapacity => true,
                LaneClass::CarriedRate => row.absorb == 0, // previous rate outputs
            };
            if honest_nonzero {
                v.push(Plan::RowInput { at, lanes: lanes.clone(), val: Val::Zero, class });
            }
            // an earlier state; for inherited lanes the previous output is the identity
            let inherited = matches!(class, LaneClass::ChainedCapacity) || (class == LaneClass::CarriedRate && row.absorb == 0);
            let newest = if inherited { at.saturating_sub(1) } else { at };
            if newest > 0 {
                v.push(Plan::RowInput { at, lanes, val: Val::Replay((mix(s, 3) % newest as u64) as usize), class });
            }
        }
    }
    v
}

/// `k` random (row, lane class, value kind, all lanes / one lane) plans.
fn random_row_plans<C: Cfg>(rng: &mut SmallRng, rows: &[RowSim], k: usize) -> Vec<Plan> {
    let every = chance(rng, 1, 2);
    let all = all_row_plans::<C>(rows, rng.random(), every);
    if all.len() <= k {
        return all;
    }
    let mut v: Vec<Plan> = vec![];
    for _ in 0..8 * k {
        let p = pick(rng, &all).clone();
        if v.len() < k && !v.contains(&p) {
            v.push(p);
        }
    }
    v
}

/// Minimal histories for the row-input family.
/// kind 0: partial first absorb (observe 3, sample, observe RATE, sample);
/// kind 1: pure squeeze first (sample, observe 2, extension sample);
/// kind 2: full first absorb, squeeze without absorbing (RATE + 1 samples), clear, partial absorb
///         on the fresh chain in the middle of the table.
fn row_canonical<C: Cfg>(kind: usize) -> Vec<HOp> {
    let obs = |n: usize, base: u64| (0..n as u64).map(move |i| HOp::Obs { v: base + i, k: false });
    let mut h: Vec<HOp> = vec![];
    match kind {
        0 => {
            h.extend(obs(3, 100));
            h.push(HOp::Sample);
            h.extend(obs(C::RATE, 200));
            h.push(HOp::Sample);
        }
        1 => {
            h.push(HOp::Sample);
            h.extend(obs(2, 100));
            h.push(HOp::SampleExt);
        }
        _ => {
            h.extend(obs(C::RATE, 100));
            for _ in 0..C::RATE + 1 {
                h.push(HOp::Sample);
            }
            h.push(HOp::Clear);
            h.extend(obs(1, 300));
            h.push(HOp::Sample);
        }
    }
    h
}

pub const ROW_CANONICAL_ROUNDS: usize = 6;

/// Cases of the row-input family (their own index space, appended after the cases of `case`).
fn row_case<C: Cfg>(seed: u64, j: usize, _tier: Tier) -> Vec<CaseResult> {
    let round = j / PROVABLE.len();
    let mut rng = case_rng(seed, "c06-row", j as u64);
    // rounds 0..5: the three minimal histories with the recompose table on / off and every
    // (row, lane class, value kind): first witnesses are minimal reproducers. With the recompose
    // table on, every table limb is also forged on its own.
    // (a base permutation reads the state targets directly, whatever the recompose mode: its
    // recompose-off rounds are random histories instead)
    let (h, recompose, exhaustive) = if round < ROW_CANONICAL_ROUNDS && (round < 3 || C::PERM_D > 1) {
        (row_canonical::<C>(round % 3), round < 3, true)
    } else {
        let o = GenOpts {
            max_ops: *pick(&mut rng, &[6usize, 12, 24]),
            max_perms: 5,
            pow: false,
            clear: chance(&mut rng, 1, 2),
            bits: true,
            end_sample: true,
            const_pct: 20,
        };
        let mut h = vec![];
        for _ in 0..30 {
            h = gen_history::<C>(&mut rng, &o);
            if native_eval::<C>(&h, None).perms >= 1 {
                break;
            }
        }
        if native_eval::<C>(&h, None).perms < 1 {
            h = row_canonical::<C>(rng.random_range(0..3));
        }
        (h, rng.random_range(0..2u32) == 0, false)
    };
    let rows = sim_rows::<C>(&h);
    let perms = native_eval::<C>(&h, None).perms;
    if rows.len() != perms {
        return vec![CaseResult::inconclusive(
            format!("{}|row-sim", C::NAME),
            format!("harness: sponge bookkeeping gives {} duplexings, native challenger {}", rows.len(), perms),
        )];
    }
    let mut prng = case_rng(seed, "c06-row-plans", j as u64);
    let pseed: u64 = prng.random();
    let mut rs = run_history::<C>(
        &h,
        recompose,
        &mut |_p, _ne, _nb| if exhaustive { all_row_plans::<C>(&rows, pseed, recompose) } else { random_row_plans::<C>(&mut prng, &rows, 4) },
        j < 24,
    );
    // the honest baseline of these histories is already counted by its own key
    for r in rs.iter_mut() {
        if r.key.ends_with("|honest") {
            r.counters.retain(|(k, _)| k != "honest-baseline-accepted");
            r.counters.push(("row-input/honest-baseline-accepted".into(), 1));
        }
    }
    rs
}

pub const PROVABLE: [&str; 8] = [
    "babybear-d4-w16-poseidon2",
    "koalabear-d5q-over-d1-w16-poseidon2",
    "goldilocks-d2-w8-poseidon2",
    "koalabear-d4-w16-poseidon2",
    "babybear-d4-w16-poseidon1",
    "koalabear-d5q-over-d1-w16-poseidon1",
    "goldilocks-d2-w8-poseidon1",
    "koalabear-d4-w16-poseidon1",
];

fn case<C: Cfg>(seed: u64, idx: usize, _tier: Tier) -> Vec<CaseResult> {
    let mut rng = case_rng(seed, "c06", idx as u64);
    let n_cfg = PROVABLE.len();
    let round = idx / n_cfg;
    // rounds 0..3: the canonical minimal histories (base / extension samples) with the recompose
    // table on / off and one deterministic plan per class: the first witness of every signature
    // (and hence its replay file) is a minimal reproducer.
    if round < 4 {
        let recompose = round % 2 == 0;
        let h = canonical::<C>(round >= 2);
        return run_history::<C>(&h, recompose, &mut |_p, ne, nb| canonical_plans::<C>(ne, nb), true);
    }
    let recompose = rng.random_range(0..2u32) == 0;
    // every fourth round: a history with a ground small sample for the bit-decomposition hint
    let (h, bits_target) = if round % 4 == 1 {
        match bits_history::<C>(&mut rng) {
            Some(h) => (h, true),
            None => (vec![], false),
        }
    } else {
        (vec![], false)
    };
    let h = if h.is_empty() {
        let o = GenOpts {
            max_ops: *pick(&mut rng, &[12usize, 24, 40]),
            max_perms: 6,
            pow: false,
            clear: chance(&mut rng, 1, 5),
            bits: true,
            end_sample: true,
            const_pct: 20,
        };
        let mut h = vec![];
        for _ in 0..30 {
            h = gen_history::<C>(&mut rng, &o);
            if native_eval::<C>(&h, None).perms >= 2 {
                break;
            }
        }
        if native_eval::<C>(&h, None).perms < 2 {
            h = canonical::<C>(chance(&mut rng, 1, 2));
        }
        h
    } else {
        h
    };
    let mut prng = case_rng(seed, "c06-plans", idx as u64);
    run_history::<C>(&h, recompose, &mut |p, ne, nb| random_plans::<C>(&mut prng, p, ne, nb, bits_target), idx < 40)
}

fn replay_one<C: Cfg>(d: &Value) -> Vec<CaseResult> {
    let h: Vec<HOp> = serde_json::from_value(d["history"].clone()).expect("history");
    let recompose = d["recompose_npo"].as_bool().unwrap_or(true);
    let plan: Plan = serde_json::from_value(d["plan"].clone()).expect("plan");
    run_history::<C>(&h, recompose, &mut |_, _, _| vec![plan.clone()], true)
}

fn main() {
    let mut args = parse_args();
    if let Some(p) = &args.replay {
        // replay files of a replay run must not overwrite the files of the original run
        args.seed = 4_000_000_000 + fnv(&p.to_string_lossy()) % 1_000_000;
    }
    let mut rep = Report::new(
        "C06",
        "fault_enumeration",
        &args,
        "case = (challenger configuration, recompose table on/off, history with >= 2 permutations ending in a \
         sample, deviation plan); plans: prover-chosen capacity limbs (all / one; zero / random / replay of an \
         earlier state) or rate limbs of one permutation output, prover-chosen non-constant coefficients of \
         base-permutation outputs under the quintic circuit field, alternative extension-coefficient \
         decomposition hints, bits-of-x+p hints; family row-input (histories with >= 1 permutation, first \
         duplexing a partial absorb / pure squeeze / full absorb, with and without clear): prover-chosen INPUT \
         lanes of one permutation row that carry no absorbed value (padded rate / initial capacity / capacity \
         after a clear / chained capacity / carried rate; all lanes or one; random / zero / replay of an earlier \
         output), the row's permutation recomputed from the forged input, outputs propagated, recorded row \
         inputs of the Poseidon trace edited accordingly. The deviating trace is proven with the honest prover data and \
         verified; verdict = accepted => all sampled targets equal the native challenges. non-trivial = the \
         runner produced a trace in which at least one sampled value differs from the native transcript and \
         the prover produced a proof (verifier then rejected, or accepted = violation); the honest baseline \
         of the same circuit must be accepted, otherwise the case is inconclusive. distinct = (configuration, \
         recompose mode, buffer-phase path, limb class, value kind, deviating call index)",
    );
    rep.assume("p3_challenger::DuplexChallenger with the repository's default permutations is the reference transcript");
    rep.assume("the relying party pins the preprocessed commitment of the honest key generation (checked: deviating proofs carry the same commitment)");
    rep.assume("only configurations with registered non-primitive table provers are covered (trace degree 2, 4, 5); base-field circuits (degree 1) cannot be proven at all");
    if let Some(p) = &args.replay {
        let v: Value = serde_json::from_str(&std::fs::read_to_string(p).expect("replay file")).expect("json");
        let d = v["detail"].clone();
        let name = d["config"].as_str().expect("config").to_string();
        let rs = with_cfg!(name.as_str(), replay_one, &d);
        rep.add_all(rs);
        rep.finish(0);
    }
    let n: usize = args.extra.get("n").and_then(|s| s.parse().ok()).unwrap_or(args.tier.pick(240, 8_000));
    // cases of the row-input family: their own index space and random streams (scheduled before
    // the other cases: the exhaustive minimal-history cases are the longest of the run)
    let m: usize = args
        .extra
        .get("rows")
        .and_then(|s| s.parse().ok())
        .unwrap_or(args.tier.pick(PROVABLE.len() * (ROW_CANONICAL_ROUNDS + 4), 1_200));
    let only = args.extra.get("config").cloned();
    let (seed, tier) = (args.seed, args.tier);
    if let Some(i) = args.extra.get("only").and_then(|s| s.parse::<usize>().ok()) {
        // debugging aid: exactly the case with this index of the full run
        // `--only i`: case i of the existing families; `--only i --family row`: row-input case i
        let rs = if args.extra.get("family").map(String::as_str) == Some("row") {
            with_cfg!(PROVABLE[i % PROVABLE.len()], row_case, seed, i, tier)
        } else {
            with_cfg!(PROVABLE[i % PROVABLE.len()], case, seed, i, tier)
        };
        for r in &rs {
            println!("{} -> {:?}", r.key, r.verdict);
        }
        rep.add_all(rs);
        rep.finish(0);
    }
    let results = run_cases(m + n, args.threads, |i| {
        let j = if i < m { i } else { i - m };
        let name = match &only {
            Some(c) => c.as_str(),
            None => PROVABLE[j % PROVABLE.len()],
        };
        if i < m { with_cfg!(name, row_case, seed, j, tier) } else { with_cfg!(name, case, seed, j, tier) }
    });
    for r in &results {
        let parts: Vec<&str> = r.key.split('|').collect();
        if parts.len() >= 5 && !matches!(r.verdict, Verdict::Inconclusive(_)) {
            rep.observe("configs", format!("{}+{}", parts[0], parts[1]));
            if r.nontrivial {
                rep.observe("nontrivial_config_x_limb_class", format!("{}/{}", parts[0], parts[4]));
                rep.observe("buffer_state_paths", parts[2].to_string());
            }
        }
    }
    rep.add_all(results);
    rep.finish(args.tier.pick(300, 8_000));
}
