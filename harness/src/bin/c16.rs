//! C16 — proof metadata cannot weaken verification; serialisation preserves the verdict.
//!
//! Monitor (fault enumeration): real `BatchStarkProof`s of honest traces, of forged (invalid)
//! traces and of a same-shape sibling circuit are produced in several configurations (base field,
//! binomial D=4, KoalaBear quintic D=5; with and without non-primitive tables). Every
//! self-declared metadata field is then altered (through `serde_json::Value`) to 4–8 other
//! well-formed values — exhaustively one field at a time, pairs of fields sampled (all pairs on two
//! shapes in the thorough tier) — and the real `verify_all_tables::<EF>` /
//! `VerifierManifest::matches` are run on the result.
//!
//! Oracles
//!  (1) metadata contradicting the verifier's field parameters (right EF: declared
//!      ext_degree / W / quintic flag differ; any wrong EF) or the expected table set (manifest)
//!      ⇒ `Err`; never `Ok`, never a panic;
//!  (2) a proof of an invalid trace stays rejected under every alteration by the relying party
//!      `V(π) = verify_all_tables(π).is_ok() ∧ π.stark_common == honest key generation` and —
//!      reported under separate signatures — by bare `verify_all_tables`;
//!  (3) `verify(deser(ser(π))) == verify(π)` for postcard and serde_json.

use std::collections::BTreeSet;

use p3_baby_bear::BabyBear;
use p3_batch_stark::{CommonData, ProverData};
use p3_circuit::ops::poseidon2_perm::Poseidon2PermCallBase;
use p3_circuit::ops::{
    KoalaBearD1Width16, Poseidon2Config, Poseidon2PermCall, generate_poseidon2_trace,
    generate_recompose_trace,
};
use p3_circuit::tables::Traces;
use p3_circuit::{AluOpKind, Circuit, CircuitBuilder, ExprId};
use p3_circuit_prover::air::AluExtMulKind;
use p3_circuit_prover::batch_stark_prover::{
    AirVariant, BatchStarkProof, BatchStarkProver, BatchStarkProverError, CircuitProverData,
    Poseidon2Preprocessor, RecomposePreprocessor, poseidon2_air_builders,
    poseidon2_air_builders_d5, poseidon2_table_provers_d5, recompose_air_builders,
};
use p3_circuit_prover::common::{NpoPreprocessor, get_airs_and_degrees_with_prep};
use p3_circuit_prover::config::{self, BabyBearConfig, KoalaBearConfig};
use p3_circuit_prover::field_params::ExtractBinomialW;
use p3_circuit_prover::manifest::{ExpectedNpoEntry, VerifierManifest};
use p3_circuit_prover::{ConstraintProfile, TablePacking};
use p3_field::extension::{BinomialExtensionField, QuinticTrinomialExtensionField};
use p3_field::{BasedVectorSpace, PrimeCharacteristicRing};
use p3_koala_bear::{KoalaBear, default_koalabear_poseidon2_16};
use p3_poseidon2_circuit_air::KoalaBearD4Width16;
use p3_symmetric::Permutation;
use p3_test_utils::LiftPermToQuintic;
use p3r_verif::fields::*;
use p3r_verif::util::*;
use rand::RngExt;
use serde_json::{Value, json};

// ---------------------------------------------------------------------------------------------
// Per-STARK-config operations that need concrete types.
// ---------------------------------------------------------------------------------------------

/// Field parameters a verifier derives from an element field: (name, degree, W as JSON, quintic).
#[derive(Clone, Debug)]
struct EfParams {
    name: &'static str,
    degree: u64,
    w: Value,
    quintic: bool,
}

trait ScOps: p3_uni_stark::StarkGenericConfig + Sized + 'static {
    fn efs() -> Vec<EfParams>;
    fn verify_as(
        p: &BatchStarkProver<Self>,
        proof: &BatchStarkProof<Self>,
        ef: &str,
    ) -> Result<(), BatchStarkProverError>;
    fn from_json(v: Value) -> Result<BatchStarkProof<Self>, String>;
    fn to_json(p: &BatchStarkProof<Self>) -> Value;
    fn postcard_roundtrip(p: &BatchStarkProof<Self>) -> Result<BatchStarkProof<Self>, String>;
    fn json_roundtrip(p: &BatchStarkProof<Self>) -> Result<BatchStarkProof<Self>, String>;
    fn commitment(c: &CommonData<Self>) -> String;
    /// `VerifierManifest::matches` for a manifest described by (ef, alu_variant, npo entries).
    fn manifest_matches(
        proof: &BatchStarkProof<Self>,
        ef: &str,
        alu_variant: AirVariant,
        npo: &[ExpectedNpoEntry],
    ) -> Result<(), String>;
}

macro_rules! impl_sc {
    ($sc:ty, $f:ty, [$(($name:expr, $ef:ty)),*]) => {
        impl ScOps for $sc {
            fn efs() -> Vec<EfParams> {
                vec![$({
                    let d = <$ef as BasedVectorSpace<$f>>::DIMENSION;
                    let w = if d > 1 { <$ef as ExtractBinomialW<$f>>::extract_w() } else { None };
                    EfParams {
                        name: $name,
                        degree: d as u64,
                        w: serde_json::to_value(w).unwrap(),
                        quintic: d == 5 && <$ef as ExtractBinomialW<$f>>::alu_is_quintic_trinomial(),
                    }
                }),*]
            }
            fn verify_as(
                p: &BatchStarkProver<Self>,
                proof: &BatchStarkProof<Self>,
                ef: &str,
            ) -> Result<(), BatchStarkProverError> {
                match ef {
                    $($name => p.verify_all_tables::<$ef>(proof),)*
                    other => panic!("harness: unknown ef {other}"),
                }
            }
            fn from_json(v: Value) -> Result<BatchStarkProof<Self>, String> {
                serde_json::from_value(v).map_err(|e| e.to_string())
            }
            fn to_json(p: &BatchStarkProof<Self>) -> Value {
                serde_json::to_value(p).expect("proof to json")
            }
            fn postcard_roundtrip(p: &BatchStarkProof<Self>) -> Result<BatchStarkProof<Self>, String> {
                let bytes = postcard::to_allocvec(p).map_err(|e| format!("ser: {e}"))?;
                postcard::from_bytes(&bytes).map_err(|e| format!("deser: {e}"))
            }
            fn json_roundtrip(p: &BatchStarkProof<Self>) -> Result<BatchStarkProof<Self>, String> {
                let s = serde_json::to_string(p).map_err(|e| format!("ser: {e}"))?;
                serde_json::from_str(&s).map_err(|e| format!("deser: {e}"))
            }
            fn commitment(c: &CommonData<Self>) -> String {
                commitment_json(c)
            }
            fn manifest_matches(
                proof: &BatchStarkProof<Self>,
                ef: &str,
                alu_variant: AirVariant,
                npo: &[ExpectedNpoEntry],
            ) -> Result<(), String> {
                match ef {
                    $($name => {
                        let d = <$ef as BasedVectorSpace<$f>>::DIMENSION;
                        let w = if d > 1 { <$ef as ExtractBinomialW<$f>>::extract_w() } else { None };
                        let quintic = d == 5 && <$ef as ExtractBinomialW<$f>>::alu_is_quintic_trinomial();
                        let reduction: AluExtMulKind<$f> = match (w, quintic) {
                            (Some(w), _) => AluExtMulKind::Binomial { w },
                            (None, true) => AluExtMulKind::QuinticTrinomial,
                            (None, false) => AluExtMulKind::Base,
                        };
                        let m = VerifierManifest::<$f> {
                            ext_degree: d,
                            reduction,
                            alu_variant,
                            expected_npo: npo.to_vec(),
                        };
                        m.matches(proof).map_err(|e| format!("{e:?}"))
                    })*
                    other => panic!("harness: unknown ef {other}"),
                }
            }
        }
    };
}

impl_sc!(
    BabyBearConfig,
    BabyBear,
    [
        ("d1", BabyBear),
        ("d4", BinomialExtensionField<BabyBear, 4>),
        ("d5b", BinomialExtensionField<BabyBear, 5>),
        ("d8", BinomialExtensionField<BabyBear, 8>)
    ]
);
impl_sc!(
    KoalaBearConfig,
    KoalaBear,
    [
        ("d1", KoalaBear),
        ("d4", BinomialExtensionField<KoalaBear, 4>),
        ("d8", BinomialExtensionField<KoalaBear, 8>),
        ("d5q", QuinticTrinomialExtensionField<KoalaBear>)
    ]
);

// ---------------------------------------------------------------------------------------------
// Fixtures
// ---------------------------------------------------------------------------------------------

struct Base {
    kind: &'static str,
    /// true when the proof does not attest the pinned circuit (forged trace / sibling circuit).
    invalid: bool,
    json: Value,
}

struct Fixture<SC: ScOps> {
    name: &'static str,
    ef: &'static str,
    prover: BatchStarkProver<SC>,
    bases: Vec<Base>,
    /// commitment + instance metadata of the honest key generation for the pinned circuit
    pinned: String,
    sibling_common: Value,
    alu_variant: AirVariant,
    npo: Vec<ExpectedNpoEntry>,
    /// op types the fixture's prover has a table prover for
    registered: Vec<String>,
    /// oracle (3) on the in-memory proofs (before any JSON handling): (base kind, codec, finding)
    native_roundtrips: Vec<(&'static str, &'static str, Option<String>)>,
}

const FIXTURES: [&str; 6] = [
    "bb-d1-alu",
    "bb-d4-alu",
    "kb-d5q-alu",
    "kb-d4-poseidon2-recompose",
    "kb-d5q-poseidon2",
    "bb-d4-recompose",
];

fn run_circuit<S: Setup>(c: &Circuit<S::E>, pubs: &[S::E]) -> Result<Traces<S::E>, String> {
    let mut r = c.runner();
    r.set_public_inputs(pubs).map_err(|e| format!("{e:?}"))?;
    r.run().map_err(|e| format!("{e:?}"))
}

/// Overwrite cells of an honest trace so that it no longer satisfies the circuit.
fn forge<S: Setup>(t: &mut Traces<S::E>, kind: &str) -> bool {
    let one = <S::E as PrimeCharacteristicRing>::ONE;
    match kind {
        // out cell of one ALU row: breaks the row relation and the witness bus
        "forged-alu-out" => {
            let Some(k) = t
                .alu_trace
                .op_kind
                .iter()
                .position(|k| matches!(k, AluOpKind::Add | AluOpKind::Mul))
            else {
                return false;
            };
            t.alu_trace.values[k][3] += one;
            true
        }
        // a and out of an addition moved together: the row relation still holds, only the
        // witness bus (lookup argument) can notice
        "forged-alu-consistent" => {
            let Some(k) = t.alu_trace.op_kind.iter().position(|k| matches!(k, AluOpKind::Add)) else {
                return false;
            };
            t.alu_trace.values[k][0] += one;
            t.alu_trace.values[k][3] += one;
            true
        }
        _ => false,
    }
}

struct Keyed<S: Setup> {
    circuit: Circuit<S::E>,
    pubs: Vec<S::E>,
    cpd: CircuitProverData<S::SC>,
}

fn assemble<S: Setup>(
    name: &'static str,
    ef: &'static str,
    prover: BatchStarkProver<S::SC>,
    a: Keyed<S>,
    b: Keyed<S>,
) -> Result<Fixture<S::SC>, String>
where
    S::SC: ScOps,
{
    let honest = S::prove(&prover, &run_circuit::<S>(&a.circuit, &a.pubs)?, &a.cpd)?;
    S::verify(&prover, &honest).map_err(|e| format!("honest proof rejected: {e}"))?;
    let pinned = <S::SC as ScOps>::commitment(a.cpd.common_data());
    if <S::SC as ScOps>::commitment(&honest.stark_common) != pinned {
        return Err("honest proof's stark_common differs from key generation (lane reduction?)".into());
    }
    let mut native_roundtrips = vec![];
    let mut native_rt = |kind: &'static str, p: &BatchStarkProof<S::SC>| {
        let v0 = S::verify(&prover, p).is_ok();
        let c0 = <S::SC as ScOps>::commitment(&p.stark_common);
        for (codec, rt) in [
            ("postcard", <S::SC as ScOps>::postcard_roundtrip(p)),
            ("serde_json", <S::SC as ScOps>::json_roundtrip(p)),
            ("serde_json::Value", <S::SC as ScOps>::from_json(<S::SC as ScOps>::to_json(p))),
        ] {
            let finding = match rt {
                Err(e) => Some(format!("roundtrip-failed: {e}")),
                Ok(p2) => {
                    let v1 = S::verify(&prover, &p2).is_ok();
                    if v1 != v0 {
                        Some(format!("roundtrip-verdict-changed: {v0} -> {v1}"))
                    } else if <S::SC as ScOps>::commitment(&p2.stark_common) != c0 {
                        Some("roundtrip-binding-changed".to_string())
                    } else {
                        None
                    }
                }
            };
            native_roundtrips.push((kind, codec, finding));
        }
    };
    native_rt("honest", &honest);
    let mut bases = vec![Base {
        kind: "honest",
        invalid: false,
        json: <S::SC as ScOps>::to_json(&honest),
    }];
    for kind in ["forged-alu-out", "forged-alu-consistent"] {
        let mut t = run_circuit::<S>(&a.circuit, &a.pubs)?;
        if !forge::<S>(&mut t, kind) {
            continue;
        }
        let p = S::prove(&prover, &t, &a.cpd)?;
        if S::verify(&prover, &p).is_ok() {
            return Err(format!("{kind}: the honest verifier accepts the forged trace (forgery is not invalid)"));
        }
        native_rt(kind, &p);
        bases.push(Base {
            kind,
            invalid: true,
            json: <S::SC as ScOps>::to_json(&p),
        });
    }
    // Sibling circuit: same shape, different wiring; its statement is false for the pinned circuit.
    if run_circuit::<S>(&a.circuit, &b.pubs).is_ok() {
        return Err("sibling statement also holds for the pinned circuit".into());
    }
    let sib = S::prove(&prover, &run_circuit::<S>(&b.circuit, &b.pubs)?, &b.cpd)?;
    let sib_commit = <S::SC as ScOps>::commitment(&sib.stark_common);
    if sib_commit == pinned {
        return Err("sibling circuit has the same preprocessed commitment".into());
    }
    native_rt("sibling-circuit", &sib);
    // Fields of the proof object that serialisation does not carry (`stark_common.lookups` is
    // re-derived from the AIRs after deserialisation): a verifier must not let the in-memory value
    // decide. Each base proof gets its lookup contexts altered in memory; the verdict must equal
    // the verdict after a round trip, and a proof of an invalid trace must stay rejected.
    {
        let derived = a.cpd.common_data().lookups.clone();
        let n_tab = derived.len();
        let mut variants: Vec<(&'static str, Vec<p3_lookup::Lookups<p3_uni_stark::Val<S::SC>>>)> = vec![];
        variants.push(("lookups-all-emptied", vec![Default::default(); n_tab]));
        if n_tab >= 1 {
            let mut v = derived.clone();
            *v.last_mut().unwrap() = Default::default();
            variants.push(("lookups-last-table-emptied", v));
            let mut v = derived.clone();
            v[0] = Default::default();
            variants.push(("lookups-first-table-emptied", v));
        }
        if n_tab >= 2 {
            let mut v = derived.clone();
            v.swap(0, n_tab - 1);
            variants.push(("lookups-first-last-swapped", v));
        }
        let mut mem_check = |kind: &'static str, p: &BatchStarkProof<S::SC>, invalid: bool| {
            for (alt, lk) in &variants {
                let codec: &'static str = match *alt {
                    "lookups-all-emptied" => "in-memory:stark_common.lookups/all-emptied",
                    "lookups-last-table-emptied" => "in-memory:stark_common.lookups/last-table-emptied",
                    "lookups-first-table-emptied" => "in-memory:stark_common.lookups/first-table-emptied",
                    _ => "in-memory:stark_common.lookups/first-last-swapped",
                };
                let finding = match <S::SC as ScOps>::postcard_roundtrip(p) {
                    Err(e) => Some(format!("roundtrip-failed: {e}")),
                    Ok(mut q) => {
                        q.stark_common.lookups = lk.clone();
                        let v_mem = guarded(|| S::verify(&prover, &q).is_ok()).unwrap_or(false);
                        let v_rt = match <S::SC as ScOps>::postcard_roundtrip(&q) {
                            Ok(q2) => guarded(|| S::verify(&prover, &q2).is_ok()).unwrap_or(false),
                            Err(_) => false,
                        };
                        // relying party: verdict AND the proof is bound to the pinned key generation
                        let bound = <S::SC as ScOps>::commitment(&q.stark_common) == pinned;
                        if invalid && v_mem && bound {
                            Some("invalid-proof-accepted: in-memory lookup contexts decide the verdict".to_string())
                        } else if v_mem != v_rt {
                            Some(format!("roundtrip-verdict-changed: {v_mem} -> {v_rt}"))
                        } else {
                            None
                        }
                    }
                };
                native_roundtrips.push((kind, codec, finding));
            }
        };
        mem_check("honest", &honest, false);
        mem_check("sibling-circuit", &sib, true);
        // Fields serialisation DOES carry, altered on the in-memory object (not through a
        // deserialiser, which the JSON alterations below go through): the loader must hand back
        // what was stored, so the verdict after a round trip equals the in-memory verdict.
        let mut mem_fields = |kind: &'static str, p: &BatchStarkProof<S::SC>, invalid: bool| {
            let edits: [(&'static str, fn(&mut Vec<usize>)); 5] = [
                ("in-memory:stark_common.matrix_to_instance/swap(0,1)", |a| {
                    if a.len() >= 2 {
                        a.swap(0, 1)
                    }
                }),
                ("in-memory:stark_common.matrix_to_instance/drop-last", |a| {
                    a.pop();
                }),
                ("in-memory:stark_common.matrix_to_instance/repeat-first", |a| {
                    if let Some(x) = a.first().copied() {
                        for y in a.iter_mut() {
                            *y = x
                        }
                    }
                }),
                ("in-memory:stark_common.matrix_to_instance/reverse", |a| a.reverse()),
                ("in-memory:stark_common.matrix_to_instance/push(0)", |a| a.push(0)),
            ];
            for (codec, edit) in edits {
                let finding = match <S::SC as ScOps>::postcard_roundtrip(p) {
                    Err(e) => Some(format!("roundtrip-failed: {e}")),
                    Ok(mut q) => {
                        let Some(g) = q.stark_common.preprocessed.as_mut() else { continue };
                        let before = g.matrix_to_instance.clone();
                        edit(&mut g.matrix_to_instance);
                        if g.matrix_to_instance == before {
                            continue;
                        }
                        let v_mem = guarded(|| S::verify(&prover, &q).is_ok()).unwrap_or(false);
                        let v_rt = match <S::SC as ScOps>::postcard_roundtrip(&q) {
                            Ok(q2) => guarded(|| S::verify(&prover, &q2).is_ok()).unwrap_or(false),
                            Err(_) => false,
                        };
                        let bound = <S::SC as ScOps>::commitment(&q.stark_common) == pinned;
                        if invalid && v_mem && bound {
                            Some("invalid-proof-accepted: altered in-memory preprocessed map".to_string())
                        } else if v_mem != v_rt {
                            Some(format!("roundtrip-verdict-changed: {v_mem} -> {v_rt}"))
                        } else {
                            None
                        }
                    }
                };
                native_roundtrips.push((kind, codec, finding));
            }
        };
        mem_fields("honest", &honest, false);
        mem_fields("sibling-circuit", &sib, true);
        // a proof of a forged trace made by a prover that stripped the lookup contexts from its
        // prover data (the cross-table bus is then not part of what was proven)
        let mut stripped = a.cpd;
        for l in stripped.prover_data.common.lookups.iter_mut() {
            *l = Default::default();
        }
        let mut t = run_circuit::<S>(&a.circuit, &a.pubs)?;
        if forge::<S>(&mut t, "forged-alu-consistent") || forge::<S>(&mut t, "forged-alu-out") {
            match guarded(|| S::prove(&prover, &t, &stripped)) {
                Ok(Ok(p)) => {
                    let v_mem = guarded(|| S::verify(&prover, &p).is_ok()).unwrap_or(false);
                    let v_rt = match <S::SC as ScOps>::postcard_roundtrip(&p) {
                        Ok(q2) => guarded(|| S::verify(&prover, &q2).is_ok()).unwrap_or(false),
                        Err(_) => false,
                    };
                    let finding = if v_mem {
                        Some("invalid-proof-accepted: proof made without the cross-table bus".to_string())
                    } else if v_mem != v_rt {
                        Some(format!("roundtrip-verdict-changed: {v_mem} -> {v_rt}"))
                    } else {
                        None
                    };
                    native_roundtrips.push(("honest", "in-memory:prover-stripped-lookups/forged-trace", finding));
                }
                // a prover that cannot produce such a proof at all is a rejection
                _ => native_roundtrips.push(("honest", "in-memory:prover-stripped-lookups/forged-trace", None)),
            }
        }
    }
    let sib_json = <S::SC as ScOps>::to_json(&sib);
    let sibling_common = sib_json["stark_common"].clone();
    bases.push(Base {
        kind: "sibling-circuit",
        invalid: true,
        json: sib_json,
    });
    let npo = honest
        .non_primitives
        .iter()
        .map(|e| ExpectedNpoEntry {
            op_type: e.op_type.clone(),
            air_variant: e.air_variant,
            public_values_len: e.public_values.len(),
        })
        .collect();
    let registered = registered_ops(name);
    Ok(Fixture {
        name,
        ef,
        prover,
        bases,
        pinned,
        sibling_common,
        alu_variant: honest.alu_variant,
        npo,
        registered,
        native_roundtrips,
    })
}

fn registered_ops(name: &str) -> Vec<String> {
    match name {
        "kb-d4-poseidon2-recompose" => vec!["poseidon2_perm/koala_bear_d4_w16".into(), "recompose".into()],
        "kb-d5q-poseidon2" => vec!["poseidon2_perm/koala_bear_d1_w16".into()],
        "bb-d4-recompose" => vec!["recompose".into()],
        _ => vec![],
    }
}

/// ALU-only circuit: ((x + y) * z + 3) == e ; the sibling computes (x + x) instead.
fn alu_keyed<S: Setup>(sibling: bool) -> Result<Keyed<S>, String> {
    let mut b = CircuitBuilder::<S::E>::new();
    let x = b.public_input();
    let y = b.public_input();
    let z = b.public_input();
    let e = b.public_input();
    let c3 = b.define_const(S::el(&[3, 1, 0, 2, 5, 0, 0, 7]));
    let s = if sibling { b.add(x, x) } else { b.add(x, y) };
    let m = b.mul(s, z);
    let t = b.add(m, c3);
    let d = b.sub(t, e);
    b.assert_zero(d);
    let circuit = b.build().map_err(|e| format!("{e:?}"))?;
    let xv = S::el(&[3, 1, 4, 1, 5, 9, 2, 6]);
    let yv = S::el(&[2, 7, 1, 8, 2, 8, 1, 8]);
    let zv = S::el(&[1, 6, 1, 8, 0, 3, 3, 9]);
    let cv = S::el(&[3, 1, 0, 2, 5, 0, 0, 7]);
    let ev = if sibling { (xv + xv) * zv + cv } else { (xv + yv) * zv + cv };
    let cpd = S::prep(&circuit, &TablePacking::default(), ConstraintProfile::Standard)?;
    Ok(Keyed {
        circuit,
        pubs: vec![xv, yv, zv, ev],
        cpd,
    })
}

macro_rules! prep {
    ($sc:ty, $d:expr, $cfg:expr, $circuit:expr, $packing:expr, $npo:expr, $builders:expr) => {{
        let (ad, prim, nonprim) = get_airs_and_degrees_with_prep::<$sc, _, $d>(
            $circuit,
            $packing,
            $npo,
            $builders,
            ConstraintProfile::Standard,
        )
        .map_err(|e| format!("{e:?}"))?;
        let (airs, degs): (Vec<_>, Vec<usize>) = ad.into_iter().unzip();
        let pd = ProverData::from_airs_and_degrees(&$cfg, &airs, &degs);
        CircuitProverData::new(pd, prim, nonprim)
    }};
}

type Kb4 = BinomialExtensionField<KoalaBear, 4>;
type Kb5 = QuinticTrinomialExtensionField<KoalaBear>;
type Bb4 = BinomialExtensionField<BabyBear, 4>;

/// KoalaBear D=4: a chain of two Poseidon2 permutations, one recompose row, ALU ops on top.
fn kb4_p2_keyed(sibling: bool) -> Result<Keyed<KbD4>, String> {
    let perm = default_koalabear_poseidon2_16();
    let limbs: [Kb4; 4] = core::array::from_fn(|l| {
        let c: [KoalaBear; 4] = core::array::from_fn(|j| KoalaBear::from_u64((l * 4 + j + 1) as u64));
        Kb4::from_basis_coefficients_slice(&c).unwrap()
    });
    let mut st = [KoalaBear::ZERO; 16];
    for (i, l) in limbs.iter().enumerate() {
        st[i * 4..(i + 1) * 4].copy_from_slice(l.as_basis_coefficients_slice());
    }
    let st = perm.permute(perm.permute(st));
    let out: Vec<Kb4> = (0..4)
        .map(|i| Kb4::from_basis_coefficients_slice(&st[i * 4..(i + 1) * 4]).unwrap())
        .collect();

    let mut b = CircuitBuilder::<Kb4>::new();
    b.enable_poseidon2_perm::<KoalaBearD4Width16, _>(generate_poseidon2_trace::<Kb4, KoalaBearD4Width16>, perm);
    b.enable_recompose::<KoalaBear>(generate_recompose_trace::<KoalaBear, Kb4>);
    let ins: Vec<ExprId> = (0..4).map(|_| b.public_input()).collect();
    let coeffs: Vec<ExprId> = (0..4).map(|_| b.public_input()).collect();
    let e = b.public_input();
    let mut last = vec![];
    for row in 0..2 {
        let inputs: Vec<Option<ExprId>> = if row == 0 {
            ins.iter().map(|x| Some(*x)).collect()
        } else {
            vec![None; 4]
        };
        let (_id, outs) = b
            .add_poseidon2_perm(&Poseidon2PermCall {
                config: Poseidon2Config::KOALA_BEAR_D4_W16,
                new_start: row == 0,
                merkle_path: false,
                mmcs_bit: None,
                mmcs_bit2: None,
                inputs,
                out_ctl: vec![row == 1, row == 1],
                return_all_outputs: false,
                mmcs_index_sum: None,
            })
            .map_err(|e| format!("{e:?}"))?;
        last = outs;
    }
    let o0 = last[0].ok_or("no out0")?;
    let o1 = last[1].ok_or("no out1")?;
    let r = b
        .recompose_base_coeffs_to_ext::<KoalaBear>(&coeffs)
        .map_err(|e| format!("{e:?}"))?;
    let s = if sibling { b.add(o0, o0) } else { b.add(o0, o1) };
    let m = b.mul(s, r);
    let d = b.sub(m, e);
    b.assert_zero(d);
    let circuit = b.build().map_err(|e| format!("{e:?}"))?;
    let cvals: Vec<Kb4> = [5u64, 6, 7, 8].iter().map(|c| Kb4::from(KoalaBear::from_u64(*c))).collect();
    let rv = Kb4::from_basis_coefficients_slice(&[5u64, 6, 7, 8].map(KoalaBear::from_u64)).unwrap();
    let ev = if sibling { (out[0] + out[0]) * rv } else { (out[0] + out[1]) * rv };
    let mut pubs = limbs.to_vec();
    pubs.extend(cvals);
    pubs.push(ev);
    let npo: Vec<Box<dyn NpoPreprocessor<KoalaBear>>> =
        vec![Box::new(Poseidon2Preprocessor), Box::new(RecomposePreprocessor::default())];
    let mut builders = poseidon2_air_builders::<KoalaBearConfig, 4>();
    builders.extend(recompose_air_builders::<KoalaBearConfig, 4>(1, false));
    let cpd = prep!(KoalaBearConfig, 4, config::koala_bear(), &circuit, &TablePacking::default(), &npo, &builders);
    Ok(Keyed { circuit, pubs, cpd })
}

fn kb5_lift(b: KoalaBear) -> Kb5 {
    Kb5::from_basis_coefficients_slice(&[b, KoalaBear::ZERO, KoalaBear::ZERO, KoalaBear::ZERO, KoalaBear::ZERO]).unwrap()
}

/// KoalaBear quintic with a base-field (D=1) Poseidon2 permutation.
fn kb5_p2_keyed(sibling: bool) -> Result<Keyed<KbD5>, String> {
    let inner = default_koalabear_poseidon2_16();
    let mut sp = [KoalaBear::ZERO; 16];
    sp[0] = KoalaBear::from_u64(11);
    sp[1] = KoalaBear::from_u64(13);
    let out = inner.permute(sp);
    let lift = LiftPermToQuintic::new(inner);
    let mut b = CircuitBuilder::<Kb5>::new();
    b.enable_poseidon2_perm_base::<KoalaBearD1Width16, _>(generate_poseidon2_trace::<Kb5, KoalaBearD1Width16>, lift);
    let ia = b.public_input();
    let ib = b.public_input();
    let mut inputs: [Option<ExprId>; 16] = [None; 16];
    inputs[0] = Some(ia);
    inputs[1] = Some(ib);
    let (_id, h) = b
        .add_poseidon2_perm_base(&Poseidon2PermCallBase {
            config: Poseidon2Config::KOALA_BEAR_D1_W16,
            new_start: true,
            inputs,
            out_ctl: [true; 8],
            return_all_outputs: false,
            absorb_len: 0,
        })
        .map_err(|e| format!("{e:?}"))?;
    let e0 = b.public_input();
    let e1 = b.public_input();
    let (h0, h1) = (h[0].ok_or("h0")?, h[1].ok_or("h1")?);
    // pinned: h0 + h1 == e0 ; sibling: h0 + h0 == e0 ; both: h1 == e1
    let s = if sibling { b.add(h0, h0) } else { b.add(h0, h1) };
    let d0 = b.sub(s, e0);
    let d1 = b.sub(h1, e1);
    b.assert_zero(d0);
    b.assert_zero(d1);
    let circuit = b.build().map_err(|e| format!("{e:?}"))?;
    let e0v = if sibling { out[0] + out[0] } else { out[0] + out[1] };
    let pubs = vec![
        kb5_lift(KoalaBear::from_u64(11)),
        kb5_lift(KoalaBear::from_u64(13)),
        kb5_lift(e0v),
        kb5_lift(out[1]),
    ];
    let npo: Vec<Box<dyn NpoPreprocessor<KoalaBear>>> = vec![Box::new(Poseidon2Preprocessor)];
    let builders = poseidon2_air_builders_d5::<KoalaBearConfig>();
    let cpd = prep!(KoalaBearConfig, 5, config::koala_bear(), &circuit, &TablePacking::default(), &npo, &builders);
    Ok(Keyed { circuit, pubs, cpd })
}

/// BabyBear D=4 with a recompose table only.
fn bb4_recompose_keyed(sibling: bool) -> Result<Keyed<BbD4>, String> {
    let mut b = CircuitBuilder::<Bb4>::new();
    b.enable_recompose::<BabyBear>(generate_recompose_trace::<BabyBear, Bb4>);
    let coeffs: Vec<ExprId> = (0..4).map(|_| b.public_input()).collect();
    let x = b.public_input();
    let e = b.public_input();
    let r = b
        .recompose_base_coeffs_to_ext::<BabyBear>(&coeffs)
        .map_err(|e| format!("{e:?}"))?;
    let s = if sibling { b.add(r, r) } else { b.add(r, x) };
    let m = b.mul(s, x);
    let d = b.sub(m, e);
    b.assert_zero(d);
    let circuit = b.build().map_err(|e| format!("{e:?}"))?;
    let cv = [9u64, 8, 7, 6].map(BabyBear::from_u64);
    let rv = Bb4::from_basis_coefficients_slice(&cv).unwrap();
    let xv = BbD4::el(&[2, 3, 5, 7]);
    let ev = if sibling { (rv + rv) * xv } else { (rv + xv) * xv };
    let mut pubs: Vec<Bb4> = cv.iter().map(|c| Bb4::from(*c)).collect();
    pubs.push(xv);
    pubs.push(ev);
    let npo: Vec<Box<dyn NpoPreprocessor<BabyBear>>> = vec![Box::new(RecomposePreprocessor::default())];
    let builders = recompose_air_builders::<BabyBearConfig, 4>(1, false);
    let cpd = prep!(BabyBearConfig, 4, config::baby_bear(), &circuit, &TablePacking::default(), &npo, &builders);
    Ok(Keyed { circuit, pubs, cpd })
}

// ---------------------------------------------------------------------------------------------
// Alterations
// ---------------------------------------------------------------------------------------------

struct Alt {
    field: String,
    desc: String,
    f: Box<dyn Fn(&mut Value) + Send + Sync>,
}

fn alt(field: impl Into<String>, desc: impl Into<String>, f: impl Fn(&mut Value) + Send + Sync + 'static) -> Alt {
    Alt {
        field: field.into(),
        desc: desc.into(),
        f: Box::new(f),
    }
}

fn uniq(cur: u64, cands: &[u64]) -> Vec<u64> {
    let mut s = BTreeSet::new();
    cands.iter().copied().filter(|c| *c != cur && s.insert(*c)).collect()
}

fn num_leaves(v: &Value, path: &mut Vec<usize>, out: &mut Vec<Vec<usize>>) {
    match v {
        Value::Number(_) => out.push(path.clone()),
        Value::Array(a) => {
            for (i, x) in a.iter().enumerate() {
                path.push(i);
                num_leaves(x, path, out);
                path.pop();
            }
        }
        Value::Object(o) => {
            for (i, (_, x)) in o.iter().enumerate() {
                path.push(i);
                num_leaves(x, path, out);
                path.pop();
            }
        }
        _ => {}
    }
}

fn leaf_mut<'a>(v: &'a mut Value, path: &[usize]) -> Option<&'a mut Value> {
    let mut cur = v;
    for &i in path {
        cur = match cur {
            Value::Array(a) => a.get_mut(i)?,
            Value::Object(o) => o.iter_mut().nth(i)?.1,
            _ => return None,
        };
    }
    Some(cur)
}

#[derive(Clone, Copy)]
enum P {
    K(&'static str),
    I(usize),
}
use P::{I, K};

/// Safe path access: `None` when a segment is missing (another alteration removed it).
fn at<'a>(v: &'a mut Value, path: &[P]) -> Option<&'a mut Value> {
    let mut cur = v;
    for p in path {
        cur = match p {
            K(k) => cur.as_object_mut()?.get_mut(*k)?,
            I(i) => cur.as_array_mut()?.get_mut(*i)?,
        };
    }
    Some(cur)
}

fn set(v: &mut Value, path: &[P], val: Value) {
    if let Some(x) = at(v, path) {
        *x = val;
    }
}

/// Panic location with machine-specific prefixes removed (stable across checkouts).
fn norm_site(msg: &str) -> String {
    let s = panic_site(msg);
    // drop the line number: several lines of one AIR `eval` fail for the same missing check
    let s = s.rsplit_once(':').map(|(f, _)| f.to_string()).unwrap_or(s);
    if let Some(i) = s.find("/registry/src/") {
        let rest = &s[i + "/registry/src/".len()..];
        return rest.splitn(2, '/').nth(1).unwrap_or(rest).to_string();
    }
    if let Some(i) = s.find("/repo/") {
        return s[i + "/repo/".len()..].to_string();
    }
    s
}

struct AltCtx {
    efs: Vec<EfParams>,
    right_ef: &'static str,
    registered: Vec<String>,
    sibling_common: Value,
    pinned_common: Value,
}

/// All single-field alterations of the metadata of `v` (a full proof as JSON).
fn gen_alts(v: &Value, ctx: &AltCtx) -> Vec<Alt> {
    let mut out: Vec<Alt> = vec![];
    // --- table_packing.* ---
    let tp = &v["table_packing"];
    let packing_fields: [(&'static str, Vec<u64>); 4] = [
        ("public_lanes", vec![0, 1, 2, 3, 4, 8, 64]),
        ("alu_lanes", vec![0, 1, 2, 3, 4, 8, 64]),
        ("min_trace_height", vec![0, 1, 2, 3, 4, 8, 16, 64, 1 << 20]),
        ("horner_packed_steps", vec![0, 1, 2, 3, 4, 8, 33]),
    ];
    for (k, cands) in packing_fields {
        let cur = tp[k].as_u64().unwrap_or(u64::MAX);
        for c in uniq(cur, &cands) {
            out.push(alt(format!("table_packing.{k}"), c.to_string(), move |v| {
                set(v, &[K("table_packing"), K(k)], json!(c))
            }));
        }
    }
    let op0 = ctx.registered.first().cloned().unwrap_or_else(|| "recompose".into());
    let op1 = ctx.registered.get(1).cloned().unwrap_or_else(|| "recompose/coeff".into());
    let npo_lane_lists: Vec<(String, Value)> = vec![
        ("[]".into(), json!([])),
        ("[(op0,1)]".into(), json!([[op0, 1]])),
        ("[(op0,2)]".into(), json!([[op0, 2]])),
        ("[(op0,4),(op1,3)]".into(), json!([[op0, 4], [op1, 3]])),
        ("[(op0,0)]".into(), json!([[op0, 0]])),
        ("[(unknown,4)]".into(), json!([["unknown/op", 4]])),
        ("[(op0,2),(op0,3)]".into(), json!([[op0, 2], [op0, 3]])),
    ];
    for (d, val) in npo_lane_lists {
        if tp["npo_lanes"] != val {
            out.push(alt("table_packing.npo_lanes", d, move |v| {
                set(v, &[K("table_packing"), K("npo_lanes")], val.clone())
            }));
        }
    }
    // --- rows ---
    for i in 0..3usize {
        let r = v["rows"][i].as_u64().unwrap_or(1);
        let np = r.next_power_of_two();
        for c in uniq(r, &[0, 1, r.saturating_sub(1), r + 1, 2 * r, np, np + 1, r / 2, 1 << 20]) {
            out.push(alt(format!("rows[{}]", ["const", "public", "alu"][i]), c.to_string(), move |v| {
                set(v, &[K("rows"), I(i)], json!(c))
            }));
        }
    }
    // --- alu_variant ---
    for name in ["Baseline", "Optimized"] {
        if v["alu_variant"] != json!(name) {
            out.push(alt("alu_variant", name, move |v| v["alu_variant"] = json!(name)));
        }
    }
    // --- ext_degree / w_binomial / alu_quintic_trinomial ---
    let cur_d = v["ext_degree"].as_u64().unwrap_or(0);
    for c in uniq(cur_d, &[0, 1, 2, 3, 4, 5, 6, 8, 16]) {
        out.push(alt("ext_degree", c.to_string(), move |v| v["ext_degree"] = json!(c)));
    }
    let mut w_cands: Vec<Value> = vec![Value::Null, json!(0), json!(1), json!(2), json!(3)];
    for e in &ctx.efs {
        w_cands.push(e.w.clone());
    }
    if let Some(n) = v["w_binomial"].as_u64() {
        w_cands.push(json!(n ^ 1));
    }
    let mut seen = BTreeSet::new();
    for w in w_cands {
        if w != v["w_binomial"] && seen.insert(w.to_string()) {
            out.push(alt("w_binomial", w.to_string(), move |v| v["w_binomial"] = w.clone()));
        }
    }
    let q = v["alu_quintic_trinomial"].as_bool().unwrap_or(false);
    out.push(alt("alu_quintic_trinomial", (!q).to_string(), move |v| {
        v["alu_quintic_trinomial"] = json!(!q)
    }));
    // consistent relabelling to another element field (three fields at once)
    for e in ctx.efs.iter().filter(|e| e.name != ctx.right_ef) {
        let e = e.clone();
        out.push(alt("field-params-relabel", e.name, move |v| {
            v["ext_degree"] = json!(e.degree);
            v["w_binomial"] = e.w.clone();
            v["alu_quintic_trinomial"] = json!(e.quintic);
        }));
    }
    // --- non_primitives ---
    let nps = v["non_primitives"].as_array().cloned().unwrap_or_default();
    let n = nps.len();
    for (i, entry) in nps.iter().enumerate() {
        let mut types: Vec<String> = ctx.registered.clone();
        types.extend(["recompose/coeff".to_string(), "unknown/op".to_string(), "".to_string()]);
        let cur = entry["op_type"].as_str().unwrap_or("").to_string();
        let mut seen = BTreeSet::new();
        for t in types.into_iter().filter(|t| *t != cur) {
            if seen.insert(t.clone()) {
                out.push(alt("non_primitives[*].op_type", format!("[{i}]={t}"), move |v| {
                    if let Some(e) = v["non_primitives"].get_mut(i) {
                        e["op_type"] = json!(t);
                    }
                }));
            }
        }
        let r = entry["rows"].as_u64().unwrap_or(1);
        let np = r.next_power_of_two();
        for c in uniq(r, &[0, 1, r.saturating_sub(1), r + 1, 2 * r, np + 1, 1 << 20]) {
            out.push(alt("non_primitives[*].rows", format!("[{i}]={c}"), move |v| {
                if let Some(e) = v["non_primitives"].get_mut(i) {
                    e["rows"] = json!(c);
                }
            }));
        }
        let l = entry["lanes"].as_u64().unwrap_or(1);
        for c in uniq(l, &[0, 1, 2, 3, 4, 8, 64]) {
            out.push(alt("non_primitives[*].lanes", format!("[{i}]={c}"), move |v| {
                if let Some(e) = v["non_primitives"].get_mut(i) {
                    e["lanes"] = json!(c);
                }
            }));
        }
        for (d, pv) in [
            ("[]", json!([])),
            ("[0]", json!([0])),
            ("[1,2]", json!([1, 2])),
            ("[7;8]", json!([7, 7, 7, 7, 7, 7, 7, 7])),
            ("[0;64]", json!(vec![0; 64])),
        ] {
            if entry["public_values"] != pv {
                out.push(alt("non_primitives[*].public_values", format!("[{i}]={d}"), move |v| {
                    if let Some(e) = v["non_primitives"].get_mut(i) {
                        e["public_values"] = pv.clone();
                    }
                }));
            }
        }
        for name in ["Baseline", "Optimized"] {
            if entry["air_variant"] != json!(name) {
                out.push(alt("non_primitives[*].air_variant", format!("[{i}]={name}"), move |v| {
                    if let Some(e) = v["non_primitives"].get_mut(i) {
                        e["air_variant"] = json!(name);
                    }
                }));
            }
        }
        out.push(alt("non_primitives.remove", format!("[{i}]"), move |v| {
            if let Some(a) = v["non_primitives"].as_array_mut() {
                if i < a.len() {
                    a.remove(i);
                }
            }
        }));
        out.push(alt("non_primitives.duplicate", format!("[{i}]"), move |v| {
            if let Some(a) = v["non_primitives"].as_array_mut() {
                if i < a.len() {
                    let e = a[i].clone();
                    a.insert(i, e);
                }
            }
        }));
    }
    if n >= 2 {
        out.push(alt("non_primitives.order", "swap(0,1)", |v| {
            if let Some(a) = v["non_primitives"].as_array_mut() {
                if a.len() >= 2 {
                    a.swap(0, 1);
                }
            }
        }));
        out.push(alt("non_primitives.order", "reverse", |v| {
            if let Some(a) = v["non_primitives"].as_array_mut() {
                a.reverse();
            }
        }));
    }
    if n >= 1 {
        out.push(alt("non_primitives.remove", "all", |v| v["non_primitives"] = json!([])));
    }
    // append an entry for a registered / unknown table that the proof does not contain
    for t in ctx.registered.iter().cloned().chain(["unknown/op".to_string()]) {
        out.push(alt("non_primitives.append", t.clone(), move |v| {
            if let Some(a) = v["non_primitives"].as_array_mut() {
                a.push(json!({"op_type": t, "rows": 1, "lanes": 1, "public_values": [], "air_variant": "Baseline"}));
            }
        }));
    }
    // --- stark_common.* ---
    out.push(alt("stark_common", "null", |v| v["stark_common"] = Value::Null));
    for (d, other) in [("sibling-circuit", ctx.sibling_common.clone()), ("pinned-circuit", ctx.pinned_common.clone())] {
        if v["stark_common"] != other {
            let o2 = other.clone();
            out.push(alt("stark_common", d, move |v| v["stark_common"] = o2.clone()));
            let o3 = other.clone();
            out.push(alt("stark_common.commitment", format!("of-{d}"), move |v| {
                set(v, &[K("stark_common"), K("commitment")], o3["commitment"].clone());
            }));
        }
    }
    let sc = &v["stark_common"];
    if sc.is_object() {
        let mut leaves = vec![];
        num_leaves(&sc["commitment"], &mut vec![], &mut leaves);
        if !leaves.is_empty() {
            let picks: BTreeSet<usize> = [0, leaves.len() / 2, leaves.len() - 1].into_iter().collect();
            for p in picks {
                let path = leaves[p].clone();
                out.push(alt("stark_common.commitment", format!("word[{p}]^1"), move |v| {
                    let Some(c) = at(v, &[K("stark_common"), K("commitment")]) else { return };
                    if let Some(l) = leaf_mut(c, &path) {
                        if let Some(n) = l.as_u64() {
                            *l = json!(n ^ 1);
                        }
                    }
                }));
            }
            if leaves.len() >= 2 {
                let (pa, pb) = (leaves[0].clone(), leaves[leaves.len() - 1].clone());
                out.push(alt("stark_common.commitment", "swap(first,last)", move |v| {
                    let Some(c) = at(v, &[K("stark_common"), K("commitment")]) else { return };
                    let a = leaf_mut(c, &pa).map(|x| x.clone());
                    let b = leaf_mut(c, &pb).map(|x| x.clone());
                    if let (Some(a), Some(b)) = (a, b) {
                        *leaf_mut(c, &pa).unwrap() = b;
                        *leaf_mut(c, &pb).unwrap() = a;
                    }
                }));
            }
            out.push(alt("stark_common.commitment", "all-zero", move |v| {
                let Some(c) = at(v, &[K("stark_common"), K("commitment")]) else { return };
                let mut ls = vec![];
                num_leaves(c, &mut vec![], &mut ls);
                for p in ls {
                    if let Some(l) = leaf_mut(c, &p) {
                        *l = json!(0);
                    }
                }
            }));
        }
        let insts = sc["instances"].as_array().cloned().unwrap_or_default();
        let ni = insts.len() as u64;
        for (i, inst) in insts.iter().enumerate() {
            if inst.is_null() {
                out.push(alt("stark_common.instances[*]", format!("[{i}]=some(0,1,1)"), move |v| {
                    set(v, &[K("stark_common"), K("instances"), I(i)], json!({"matrix_index": 0, "width": 1, "degree_bits": 1}))
                }));
                continue;
            }
            out.push(alt("stark_common.instances[*]", format!("[{i}]=null"), move |v| {
                set(v, &[K("stark_common"), K("instances"), I(i)], Value::Null)
            }));
            let mi = inst["matrix_index"].as_u64().unwrap_or(0);
            for c in uniq(mi, &[(mi + 1) % ni.max(1), ni, 1 << 20]) {
                out.push(alt("stark_common.instances[*].matrix_index", format!("[{i}]={c}"), move |v| {
                    set(v, &[K("stark_common"), K("instances"), I(i), K("matrix_index")], json!(c))
                }));
            }
            let w = inst["width"].as_u64().unwrap_or(1);
            for c in uniq(w, &[0, w.saturating_sub(1), w + 1, 2 * w]) {
                out.push(alt("stark_common.instances[*].width", format!("[{i}]={c}"), move |v| {
                    set(v, &[K("stark_common"), K("instances"), I(i), K("width")], json!(c))
                }));
            }
            let db = inst["degree_bits"].as_u64().unwrap_or(1);
            for c in uniq(db, &[0, db.saturating_sub(1), db + 1, db + 5, 40]) {
                out.push(alt("stark_common.instances[*].degree_bits", format!("[{i}]={c}"), move |v| {
                    set(v, &[K("stark_common"), K("instances"), I(i), K("degree_bits")], json!(c))
                }));
            }
        }
        let list_ops: [(&'static str, fn(&mut Vec<Value>)); 5] = [
            ("remove-last", |a| {
                a.pop();
            }),
            ("duplicate-last", |a| {
                if let Some(l) = a.last().cloned() {
                    a.push(l)
                }
            }),
            ("swap(0,1)", |a| {
                if a.len() >= 2 {
                    a.swap(0, 1)
                }
            }),
            ("reverse", |a| a.reverse()),
            ("clear", |a| a.clear()),
        ];
        for (d, op) in list_ops {
            out.push(alt("stark_common.instances", d, move |v| {
                if let Some(a) = at(v, &[K("stark_common"), K("instances")]).and_then(|x| x.as_array_mut()) {
                    op(a)
                }
            }));
            out.push(alt("stark_common.matrix_to_instance", d, move |v| {
                if let Some(a) = at(v, &[K("stark_common"), K("matrix_to_instance")]).and_then(|x| x.as_array_mut()) {
                    op(a)
                }
            }));
        }
        out.push(alt("stark_common.matrix_to_instance", "all-zero", |v| {
            if let Some(a) = at(v, &[K("stark_common"), K("matrix_to_instance")]).and_then(|x| x.as_array_mut()) {
                for x in a.iter_mut() {
                    *x = json!(0)
                }
            }
        }));
        out.push(alt("stark_common.matrix_to_instance", "push(1<<20)", |v| {
            if let Some(a) = at(v, &[K("stark_common"), K("matrix_to_instance")]).and_then(|x| x.as_array_mut()) {
                a.push(json!(1 << 20))
            }
        }));
    }
    out
}

// ---------------------------------------------------------------------------------------------
// Evaluation of one altered proof
// ---------------------------------------------------------------------------------------------

fn err_class(e: &BatchStarkProverError) -> String {
    match e {
        BatchStarkProverError::InvalidMetadata(m) => {
            let s = format!("{m:?}");
            format!("InvalidMetadata/{}", s.split(|c: char| !c.is_alphanumeric()).next().unwrap_or(""))
        }
        BatchStarkProverError::Verify(s) => {
            format!("Verify/{}", s.split(|c: char| !c.is_alphanumeric()).next().unwrap_or(""))
        }
        other => {
            let s = format!("{other:?}");
            s.split(|c: char| !c.is_alphanumeric()).next().unwrap_or("Err").to_string()
        }
    }
}

fn npo_view(v: &Value) -> Vec<(String, String, usize)> {
    v["non_primitives"]
        .as_array()
        .map(|a| {
            a.iter()
                .map(|e| {
                    (
                        e["op_type"].as_str().unwrap_or("").to_string(),
                        e["air_variant"].as_str().unwrap_or("").to_string(),
                        e["public_values"].as_array().map(|p| p.len()).unwrap_or(0),
                    )
                })
                .collect()
        })
        .unwrap_or_default()
}

struct Eval<'a, SC: ScOps> {
    fx: &'a Fixture<SC>,
    base: &'a Base,
    honest: &'a Value,
}

impl<SC: ScOps> Eval<'_, SC> {
    fn detail(&self, alts: &[&Alt], extra: Value) -> Value {
        json!({
            "fixture": self.fx.name,
            "base": self.base.kind,
            "alts": alts.iter().map(|a| json!([a.field, a.desc])).collect::<Vec<_>>(),
            "observed": extra,
        })
    }

    fn run(&self, alts: &[&Alt], roundtrip: bool) -> Vec<CaseResult> {
        let fields: Vec<String> = {
            let mut f: Vec<String> = alts.iter().map(|a| a.field.clone()).collect();
            f.sort();
            f
        };
        let field_sig = if fields.is_empty() { "unaltered".to_string() } else { fields.join("+") };
        let key = format!(
            "{}:{}:{}",
            self.fx.name,
            self.base.kind,
            alts.iter().map(|a| format!("{}={}", a.field, a.desc)).collect::<Vec<_>>().join("&")
        );
        let mut w = self.base.json.clone();
        for a in alts {
            (a.f)(&mut w);
        }
        if !alts.is_empty() && without_proof_eq(&w, &self.base.json) {
            return vec![CaseResult::held(key, false).count("alteration-is-noop", 1)];
        }
        let mut meta = w.clone();
        meta.as_object_mut().map(|o| o.remove("proof"));
        let proof = match guarded(|| SC::from_json(w)) {
            Ok(Ok(p)) => p,
            Ok(Err(_)) => return vec![CaseResult::held(key, false).count(format!("deser-rejected/{field_sig}"), 1)],
            Err(p) => {
                return vec![CaseResult::violated(
                    key,
                    format!("panic/deserialize/{}", norm_site(&p)),
                    self.detail(alts, json!({"panic": p})),
                )];
            }
        };
        let mut out = vec![];
        let mut counters: Vec<(String, u64)> = vec![("verifications".into(), 1)];
        // ---- right element field ----
        let r = guarded(|| SC::verify_as(&self.fx.prover, &proof, self.fx.ef));
        let ok = match &r {
            Err(p) => {
                // The property asks that altered metadata is *rejected*; a verifier panic is a
                // rejection (an unclean one). It is recorded as an observation, not a violation.
                counters.push((format!("rejected-by-panic/{}", norm_site(p)), 1));
                false
            }
            Ok(Ok(())) => {
                counters.push((format!("accepted/{}/{}", self.base.kind, field_sig), 1));
                true
            }
            Ok(Err(e)) => {
                counters.push((format!("rejected/{}", err_class(e)), 1));
                false
            }
        };
        // (1) declared field parameters contradict the verifier's
        let params_differ: Vec<&str> = ["ext_degree", "w_binomial", "alu_quintic_trinomial"]
            .into_iter()
            .filter(|k| meta[*k] != self.honest[*k])
            .collect();
        if ok && !params_differ.is_empty() {
            out.push(CaseResult::violated(
                key.clone(),
                format!("metadata-mismatch-accepted/{}", params_differ.join("+")),
                self.detail(alts, json!({"ef": self.fx.ef, "declared": {"ext_degree": meta["ext_degree"], "w_binomial": meta["w_binomial"], "alu_quintic_trinomial": meta["alu_quintic_trinomial"]}})),
            ));
        }
        // (1b) metadata violating the documented structural invariants (`ProofMetadataError`)
        let malformed = malformed_fields(&meta);
        if ok && !malformed.is_empty() {
            out.push(CaseResult::violated(
                key.clone(),
                format!("malformed-metadata-accepted/{}", malformed.join("+")),
                self.detail(alts, json!({"ef": self.fx.ef, "malformed": malformed})),
            ));
        }
        // wrong element fields: no proof for them was ever produced
        for e in SC::efs().iter().filter(|e| e.name != self.fx.ef) {
            counters.push(("wrong-ef-verifications".into(), 1));
            match guarded(|| SC::verify_as(&self.fx.prover, &proof, e.name)) {
                Err(p) => counters.push((format!("rejected-by-panic/{}", norm_site(&p)), 1)),
                Ok(Ok(())) => out.push(CaseResult::violated(
                    key.clone(),
                    format!("wrong-field-accepted/{}-as-{}", self.fx.ef, e.name),
                    self.detail(alts, json!({"ef": e.name})),
                )),
                Ok(Err(_)) => {}
            }
        }
        // manifest: expected table set / variants
        let manifest_differs = !params_differ.is_empty()
            || meta["alu_variant"] != self.honest["alu_variant"]
            || npo_view(&meta) != npo_view(self.honest);
        match guarded(|| SC::manifest_matches(&proof, self.fx.ef, self.fx.alu_variant, &self.fx.npo)) {
            Err(p) => out.push(CaseResult::violated(
                key.clone(),
                format!("panic/manifest/{}", norm_site(&p)),
                self.detail(alts, json!({"panic": p})),
            )),
            Ok(Ok(())) if manifest_differs => out.push(CaseResult::violated(
                key.clone(),
                format!("manifest-mismatch-accepted/{field_sig}"),
                self.detail(alts, json!({"manifest": "matches() returned Ok"})),
            )),
            Ok(Ok(())) => counters.push(("manifest-ok".into(), 1)),
            Ok(Err(_)) if manifest_differs => counters.push(("manifest-rejected".into(), 1)),
            Ok(Err(e)) => counters.push((format!("manifest-rejected-without-difference/{}", e.split(|c: char| !c.is_alphanumeric()).next().unwrap_or("")), 1)),
        }
        // (2) invalid proofs stay rejected
        let pinned_ok = SC::commitment(&proof.stark_common) == self.fx.pinned;
        if self.base.invalid && ok {
            if pinned_ok {
                out.push(CaseResult::violated(
                    key.clone(),
                    format!("metadata-accepts-invalid/{field_sig}"),
                    self.detail(alts, json!({"relying_party_V": true})),
                ));
            } else if self.base.kind == "sibling-circuit" {
                out.push(CaseResult::violated(
                    key.clone(),
                    "bare-verify-trusts-declared-preprocessed-commitment",
                    self.detail(alts, json!({"bare_verify_all_tables": "Ok", "stark_common_equals_pinned_key": false,
                        "what": "honest proof of a same-shape sibling circuit (statement false for the pinned circuit) is accepted; the verifier takes the preprocessed commitment from proof.stark_common"})),
                ));
            } else {
                out.push(CaseResult::violated(
                    key.clone(),
                    format!("bare-verify-accepts-invalid/{field_sig}"),
                    self.detail(alts, json!({"bare_verify_all_tables": "Ok", "stark_common_equals_pinned_key": false})),
                ));
            }
        }
        // (3) serialisation round trips
        if roundtrip {
            for (codec, rt) in [
                ("postcard", guarded(|| SC::postcard_roundtrip(&proof))),
                ("serde_json", guarded(|| SC::json_roundtrip(&proof))),
            ] {
                counters.push((format!("roundtrips/{codec}"), 1));
                match rt {
                    Err(p) => out.push(CaseResult::violated(
                        key.clone(),
                        format!("panic/roundtrip-{codec}/{}", norm_site(&p)),
                        self.detail(alts, json!({"panic": p})),
                    )),
                    Ok(Err(e)) => out.push(CaseResult::violated(
                        key.clone(),
                        format!("roundtrip-failed/{codec}"),
                        self.detail(alts, json!({"error": e})),
                    )),
                    Ok(Ok(p2)) => {
                        let r2 = guarded(|| SC::verify_as(&self.fx.prover, &p2, self.fx.ef));
                        let ok2 = matches!(r2, Ok(Ok(())));
                        let same_class = match (&r, &r2) {
                            (Ok(Err(a)), Ok(Err(b))) => err_class(a) == err_class(b),
                            _ => true,
                        };
                        if ok2 != ok || r2.is_err() != r.is_err() {
                            out.push(CaseResult::violated(
                                key.clone(),
                                format!("roundtrip-verdict-changed/{codec}"),
                                self.detail(alts, json!({"before": ok, "after": ok2})),
                            ));
                        } else if SC::commitment(&p2.stark_common) != SC::commitment(&proof.stark_common) {
                            out.push(CaseResult::violated(
                                key.clone(),
                                format!("roundtrip-binding-changed/{codec}"),
                                self.detail(alts, json!({})),
                            ));
                        } else if !same_class {
                            counters.push((format!("roundtrip-error-class-changed/{codec}"), 1));
                        }
                    }
                }
            }
        }
        if out.is_empty() {
            let mut c = CaseResult::held(key, true);
            c.counters = counters;
            out.push(c);
        } else if let Some(f) = out.first_mut() {
            f.counters = counters;
        }
        out
    }
}

/// Independent statement of the invariants the constructors of the metadata types enforce.
fn malformed_fields(meta: &Value) -> Vec<&'static str> {
    let mut bad = vec![];
    let u = |v: &Value| v.as_u64().unwrap_or(0);
    if meta["rows"].as_array().is_some_and(|a| a.iter().any(|r| u(r) == 0)) {
        bad.push("rows");
    }
    let tp = &meta["table_packing"];
    if u(&tp["public_lanes"]) == 0 {
        bad.push("table_packing.public_lanes");
    }
    if u(&tp["alu_lanes"]) == 0 {
        bad.push("table_packing.alu_lanes");
    }
    if tp["npo_lanes"].as_array().is_some_and(|a| a.iter().any(|e| u(&e[1]) == 0)) {
        bad.push("table_packing.npo_lanes");
    }
    let h = u(&tp["min_trace_height"]);
    if h == 0 || !h.is_power_of_two() {
        bad.push("table_packing.min_trace_height");
    }
    if u(&tp["horner_packed_steps"]) < 2 {
        bad.push("table_packing.horner_packed_steps");
    }
    if ![1, 2, 4, 5, 6, 8].contains(&u(&meta["ext_degree"])) {
        bad.push("ext_degree");
    }
    if meta["non_primitives"].as_array().is_some_and(|a| a.iter().any(|e| u(&e["lanes"]) == 0)) {
        bad.push("non_primitives[*].lanes");
    }
    bad
}

fn without_proof_eq(a: &Value, b: &Value) -> bool {
    let (Some(a), Some(b)) = (a.as_object(), b.as_object()) else { return false };
    a.iter().filter(|(k, _)| *k != "proof").all(|(k, v)| b.get(k) == Some(v)) && a.len() == b.len()
}

// ---------------------------------------------------------------------------------------------
// Cases
// ---------------------------------------------------------------------------------------------

#[derive(Clone, Debug)]
enum Mode {
    /// every single-field alteration with index ≡ chunk (mod chunks)
    Singles { chunk: usize, chunks: usize },
    /// sampled pairs of alterations on different fields
    PairsSampled { n: usize, stream: u64 },
    /// all pairs (i<j) whose linear index ≡ chunk (mod chunks)
    PairsAll { chunk: usize, chunks: usize },
    /// one explicit list of alterations (replay)
    Explicit(Vec<(String, String)>),
}

#[derive(Clone, Debug)]
struct Case {
    fixture: &'static str,
    base: String,
    mode: Mode,
    roundtrip_every: usize,
}

fn run_fixture<SC: ScOps>(fx: Fixture<SC>, case: &Case, seed: u64, sample: bool) -> Vec<CaseResult> {
    let Some(base) = fx.bases.iter().find(|b| b.kind == case.base) else {
        return vec![CaseResult::held(format!("{}:{}", fx.name, case.base), false).count("base-not-available", 1)];
    };
    let honest = {
        let mut h = fx.bases[0].json.clone();
        h.as_object_mut().map(|o| o.remove("proof"));
        h
    };
    let ctx = AltCtx {
        efs: SC::efs(),
        right_ef: fx.ef,
        registered: fx.registered.clone(),
        sibling_common: fx.sibling_common.clone(),
        pinned_common: honest["stark_common"].clone(),
    };
    let alts = gen_alts(&base.json, &ctx);
    let ev = Eval {
        fx: &fx,
        base,
        honest: &honest,
    };
    let mut out = vec![];
    let every = case.roundtrip_every.max(1);
    match &case.mode {
        Mode::Singles { chunk, chunks } => {
            if *chunk == 0 {
                for (kind, codec, finding) in fx.native_roundtrips.iter().filter(|(k, _, _)| *k == base.kind) {
                    let key = format!("{}:{}:native-roundtrip:{codec}", fx.name, kind);
                    out.push(match finding {
                        None => CaseResult::held(key, true).count(format!("native-roundtrips/{codec}"), 1),
                        Some(f) => CaseResult::violated(
                            key,
                            format!("{}/{}", f.split(':').next().unwrap_or("roundtrip"), codec),
                            json!({"fixture": fx.name, "base": kind, "alts": [], "observed": {"native_roundtrip": f, "codec": codec}}),
                        ),
                    });
                }
                let mut r = ev.run(&[], true);
                if sample {
                    if let Some(f) = r.first_mut() {
                        let mut meta = base.json.clone();
                        meta.as_object_mut().map(|o| o.remove("proof"));
                        f.sample = Some(json!({"fixture": fx.name, "base": base.kind, "metadata": meta,
                            "alterations": alts.len(),
                            "fields": alts.iter().map(|a| a.field.clone()).collect::<BTreeSet<_>>()}));
                    }
                }
                out.extend(r);
            }
            for (i, a) in alts.iter().enumerate() {
                if i % chunks == *chunk {
                    out.extend(ev.run(&[a], i % every == 0));
                }
            }
        }
        Mode::PairsSampled { n, stream } => {
            let mut rng = case_rng(seed, &format!("c16-pairs-{}-{}", fx.name, base.kind), *stream);
            let mut tries = 0;
            let mut done = 0;
            while done < *n && tries < n * 20 {
                tries += 1;
                let i = rng.random_range(0..alts.len());
                let j = rng.random_range(0..alts.len());
                if alts[i].field == alts[j].field {
                    continue;
                }
                out.extend(ev.run(&[&alts[i], &alts[j]], done % every == 0));
                done += 1;
            }
        }
        Mode::PairsAll { chunk, chunks } => {
            let mut lin = 0usize;
            for i in 0..alts.len() {
                for j in (i + 1)..alts.len() {
                    if alts[i].field == alts[j].field {
                        continue;
                    }
                    if lin % chunks == *chunk {
                        out.extend(ev.run(&[&alts[i], &alts[j]], lin % every == 0));
                    }
                    lin += 1;
                }
            }
        }
        Mode::Explicit(list) => {
            let mut chosen = vec![];
            for (f, d) in list {
                match alts.iter().find(|a| a.field == *f && a.desc == *d) {
                    Some(a) => chosen.push(a),
                    None => return vec![CaseResult::inconclusive("replay", format!("alteration {f}={d} not found"))],
                }
            }
            out.extend(ev.run(&chosen, true));
        }
    }
    out
}

fn one_case(case: &Case, seed: u64, sample: bool) -> Vec<CaseResult> {
    macro_rules! go {
        ($fx:expr) => {
            match $fx {
                Ok(fx) => run_fixture(fx, case, seed, sample),
                Err(e) => vec![CaseResult::inconclusive(
                    format!("{}:{}", case.fixture, case.base),
                    format!("fixture {}: {e}", case.fixture),
                )],
            }
        };
    }
    match case.fixture {
        "bb-d1-alu" => go!((|| {
            assemble::<BbD1>("bb-d1-alu", "d1", BbD1::prover(TablePacking::default()), alu_keyed::<BbD1>(false)?, alu_keyed::<BbD1>(true)?)
        })()),
        "bb-d4-alu" => go!((|| {
            assemble::<BbD4>("bb-d4-alu", "d4", BbD4::prover(TablePacking::default()), alu_keyed::<BbD4>(false)?, alu_keyed::<BbD4>(true)?)
        })()),
        "kb-d5q-alu" => go!((|| {
            assemble::<KbD5>("kb-d5q-alu", "d5q", KbD5::prover(TablePacking::default()), alu_keyed::<KbD5>(false)?, alu_keyed::<KbD5>(true)?)
        })()),
        "kb-d4-poseidon2-recompose" => go!((|| {
            let mut p = KbD4::prover(TablePacking::default());
            p.register_poseidon2_table::<4>(Poseidon2Config::KOALA_BEAR_D4_W16);
            p.register_recompose_table::<4>(false);
            assemble::<KbD4>("kb-d4-poseidon2-recompose", "d4", p, kb4_p2_keyed(false)?, kb4_p2_keyed(true)?)
        })()),
        "kb-d5q-poseidon2" => go!((|| {
            let mut p = KbD5::prover(TablePacking::default());
            for tp in poseidon2_table_provers_d5(Poseidon2Config::KOALA_BEAR_D1_W16) {
                p.register_table_prover(tp);
            }
            assemble::<KbD5>("kb-d5q-poseidon2", "d5q", p, kb5_p2_keyed(false)?, kb5_p2_keyed(true)?)
        })()),
        "bb-d4-recompose" => go!((|| {
            let mut p = BbD4::prover(TablePacking::default());
            p.register_recompose_table::<4>(false);
            assemble::<BbD4>("bb-d4-recompose", "d4", p, bb4_recompose_keyed(false)?, bb4_recompose_keyed(true)?)
        })()),
        other => vec![CaseResult::inconclusive(other.to_string(), "unknown fixture")],
    }
}

const BASES: [&str; 4] = ["honest", "forged-alu-out", "forged-alu-consistent", "sibling-circuit"];

fn plan(tier: Tier) -> Vec<Case> {
    let mut cases = vec![];
    let heavy = |f: &str| f.contains("poseidon2");
    for f in FIXTURES {
        for b in BASES {
            let chunks = if heavy(f) { 4 } else { 2 };
            for chunk in 0..chunks {
                cases.push(Case {
                    fixture: f,
                    base: b.into(),
                    mode: Mode::Singles { chunk, chunks },
                    roundtrip_every: tier.pick(3, 1),
                });
            }
        }
    }
    for f in FIXTURES {
        for b in &BASES[1..] {
            match tier {
                Tier::Quick => cases.push(Case {
                    fixture: f,
                    base: (*b).into(),
                    mode: Mode::PairsSampled { n: if heavy(f) { 60 } else { 150 }, stream: 0 },
                    roundtrip_every: 10,
                }),
                Tier::Thorough => {
                    if f == "bb-d1-alu" || f == "kb-d4-poseidon2-recompose" {
                        let chunks = if heavy(f) { 48 } else { 16 };
                        for chunk in 0..chunks {
                            cases.push(Case {
                                fixture: f,
                                base: (*b).into(),
                                mode: Mode::PairsAll { chunk, chunks },
                                roundtrip_every: 50,
                            });
                        }
                    } else {
                        for stream in 0..8u64 {
                            cases.push(Case {
                                fixture: f,
                                base: (*b).into(),
                                mode: Mode::PairsSampled { n: if heavy(f) { 250 } else { 500 }, stream },
                                roundtrip_every: 25,
                            });
                        }
                    }
                }
            }
        }
        // pairs on the honest base: no-panic, mismatch and round-trip oracles only
        cases.push(Case {
            fixture: f,
            base: "honest".into(),
            mode: Mode::PairsSampled { n: tier.pick(if heavy(f) { 40 } else { 100 }, 1000), stream: 7 },
            roundtrip_every: 5,
        });
    }
    cases
}

/// `--probe-const 1`: not part of the property; shows whether constant values are bound at all.
fn probe_const() {
    fn go<S: Setup>() -> Result<String, String>
    where
        S::SC: ScOps,
    {
        let a = alu_keyed::<S>(false)?;
        let prover = S::prover(TablePacking::default());
        let mut t = run_circuit::<S>(&a.circuit, &a.pubs)?;
        // change the constant 3 to 4 and propagate: t = m + c, d = t - e stays 0 if e is moved too
        let one = <S::E as PrimeCharacteristicRing>::ONE;
        let before = format!("{:?}", t.const_trace.values);
        let Some(ci) = t.const_trace.values.iter().position(|v| *v == S::el(&[3, 1, 0, 2, 5, 0, 0, 7])) else {
            return Err("const not found".into());
        };
        let c_idx = t.const_trace.index[ci];
        let e_idx = *t.public_trace.index.last().ok_or("no public")?;
        let Some(k) = (0..t.alu_trace.values.len()).find(|k| t.alu_trace.indices[*k][..3].contains(&c_idx)) else {
            return Err("const user not found".into());
        };
        let t_idx = t.alu_trace.indices[k][3];
        let bumped = [c_idx, t_idx, e_idx];
        t.const_trace.values[ci] += one;
        for k in 0..t.alu_trace.values.len() {
            for j in 0..4 {
                // operand c is only meaningful for mul-add like rows; bump it consistently anyway
                if bumped.contains(&t.alu_trace.indices[k][j])
                    && (j != 2 || matches!(t.alu_trace.op_kind[k], AluOpKind::MulAdd | AluOpKind::HornerAcc))
                {
                    t.alu_trace.values[k][j] += one;
                }
            }
        }
        for (i, idx) in t.public_trace.index.clone().iter().enumerate() {
            if bumped.contains(idx) {
                t.public_trace.values[i] += one;
            }
        }
        let p = S::prove(&prover, &t, &a.cpd)?;
        Ok(format!(
            "const table {before}, ops {:?} idx {:?}: constant 3->4 propagated (statement '(x+y)*z+3 == e' is false for the claimed e) => verify = {:?}; stark_common == key generation: {}",
            t.alu_trace.op_kind,
            t.alu_trace.indices,
            S::verify(&prover, &p),
            <S::SC as ScOps>::commitment(&p.stark_common) == <S::SC as ScOps>::commitment(a.cpd.common_data())
        ))
    }
    println!("{:?}", go::<BbD1>());
}

fn main() {
    let args = parse_args();
    let mut rep = Report::new(
        "C16",
        "fault_enumeration",
        &args,
        "case = (configuration, base proof [honest | forged ALU cell(s) | same-shape sibling circuit], set of 0-2 altered \
         metadata fields with their replacement values); non-trivial = the altered proof deserialises and differs from the \
         base in metadata, so the real verifier / manifest ran and the oracle had a verdict to compare; distinct by \
         (configuration, base, field paths, replacement values)",
    );
    rep.assume("soundness of p3-batch-stark itself: a proof produced for one AIR set / element field is never expected to verify for another");
    rep.assume("relying party V pins commitment + instance metadata + matrix_to_instance of the honest key generation (harness::fields::commitment_json)");
    rep.assume("forged traces are only used when the unaltered honest verifier rejects their proof");
    if args.extra.contains_key("probe-const") {
        probe_const();
        std::process::exit(0);
    }
    if let Some(p) = &args.replay {
        let v: Value = serde_json::from_str(&std::fs::read_to_string(p).expect("replay file")).expect("json");
        let d = &v["detail"];
        let fixture = FIXTURES.iter().copied().find(|f| Some(*f) == d["fixture"].as_str()).expect("fixture");
        let list: Vec<(String, String)> = d["alts"]
            .as_array()
            .map(|a| {
                a.iter()
                    .map(|x| (x[0].as_str().unwrap_or("").to_string(), x[1].as_str().unwrap_or("").to_string()))
                    .collect()
            })
            .unwrap_or_default();
        let case = Case {
            fixture,
            base: d["base"].as_str().unwrap_or("honest").to_string(),
            mode: Mode::Explicit(list),
            roundtrip_every: 1,
        };
        let rs = one_case(&case, args.seed, false);
        for r in &rs {
            if let Verdict::Violated { signature, .. } = &r.verdict {
                println!("replay: {signature}");
            }
        }
        rep.add_all(rs);
        rep.finish(0);
    }
    let cases = plan(args.tier);
    if args.extra.contains_key("dump") {
        let c = Case {
            fixture: FIXTURES[args.extra["dump"].parse::<usize>().unwrap_or(0) % FIXTURES.len()],
            base: "honest".into(),
            mode: Mode::Singles { chunk: 0, chunks: 1_000_000 },
            roundtrip_every: 1,
        };
        for r in one_case(&c, 0, true) {
            println!("{}", serde_json::to_string_pretty(&r.sample).unwrap());
        }
        std::process::exit(0);
    }
    let seed = args.seed;
    let results = run_cases(cases.len(), args.threads, |i| one_case(&cases[i], seed, i % 8 == 0 && matches!(cases[i].mode, Mode::Singles { chunk: 0, .. })));
    let mut fields = BTreeSet::new();
    for r in &results {
        for (k, _) in &r.counters {
            if let Some(c) = k.strip_prefix("rejected/") {
                fields.insert(c.to_string());
            }
        }
    }
    for c in fields {
        rep.observe("rejection-classes", c);
    }
    for c in &cases {
        rep.observe("configurations", c.fixture);
        rep.observe("bases", c.base.clone());
    }
    // single-field alterations are enumerated completely, pairs are sampled: not exhaustive overall
    rep.set_exhaustive(false);
    rep.set_extra("enumeration", json!("single-field alterations: exhaustive over the generated value lists for every configuration and base; pairs: sampled (quick) / all pairs on bb-d1-alu and kb-d4-poseidon2-recompose + sampled elsewhere (thorough)"));
    rep.add_all(results);
    rep.finish(args.tier.pick(2_000, 40_000));
}
