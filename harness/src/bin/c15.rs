//! C15 — malformed proofs are rejected with an error, never a panic or a weaker circuit.
//!
//! Structural M1 mutants of (proof, common data, FRI parameters, public-value lists, preprocessed
//! commitment presence): every array node {drop last, drop first, duplicate last, empty, swap two},
//! every Option {Some<->None where constructible}, every non-field integer {+1, -1, 0, large} are fed
//! to the circuit-building entry points, the packers and `BatchStarkProof::validate`.
//!
//! Oracle: no panic in repository code; whenever a circuit is obtained (built from the mutant,
//! or the fixed circuit of the honest shape fed with the mutant), circuit-accept => native-accept;
//! and a mutant that the native verifier rejects for a *structural* reason (shape / length /
//! presence error, see `classify_native`) must make the circuit builders return an error: a builder
//! that returns Ok for it is reported as `malformed-accepted/<entry point>/<path class>` whatever
//! running the resulting circuit then says (the property's first sentence).
//!
//! Mutants are evaluated in child processes (memory-limited, with a wall-clock limit) so that
//! aborts (allocation failure, stack overflow) are observed as outcomes instead of killing the run.

#[path = "c01/kit.rs"]
mod kit;

use std::io::Write as _;
use std::process::{Command, Stdio};

use kit::json::{self as js, Path, SMut, Seg};
use kit::{CircV, NativeV, Shape};
use p3r_verif::util::*;
use serde_json::{Value, json};

#[derive(Clone, Debug, serde::Serialize, serde::Deserialize)]
struct Mutant {
    path: String,
    m: SMut,
}

#[derive(Clone, Debug, serde::Serialize, serde::Deserialize)]
struct Rec {
    key: String,
    nontrivial: bool,
    /// "held" | "violated" | "inconclusive"
    verdict: String,
    signature: String,
    detail: Value,
    counters: Vec<(String, u64)>,
}

impl Rec {
    fn held(key: String, nontrivial: bool) -> Self {
        Rec { key, nontrivial, verdict: "held".into(), signature: String::new(), detail: Value::Null, counters: vec![] }
    }
    fn violated(key: String, signature: String, detail: Value) -> Self {
        Rec { key, nontrivial: true, verdict: "violated".into(), signature, detail, counters: vec![] }
    }
    fn inconclusive(key: String, why: String) -> Self {
        Rec { key, nontrivial: false, verdict: "inconclusive".into(), signature: why, detail: Value::Null, counters: vec![] }
    }
    fn count(mut self, k: impl Into<String>, n: u64) -> Self {
        self.counters.push((k.into(), n));
        self
    }
    fn into_case(self) -> CaseResult {
        let mut r = match self.verdict.as_str() {
            "violated" => CaseResult::violated(self.key, self.signature, self.detail),
            "inconclusive" => CaseResult::inconclusive(self.key, self.signature),
            _ => CaseResult::held(self.key, self.nontrivial),
        };
        for (k, n) in self.counters {
            r = r.count(k, n);
        }
        r
    }
}

fn last_key(p: &Path) -> Option<&str> {
    p.iter().rev().find_map(|s| match s {
        Seg::K(k) => Some(k.as_str()),
        _ => None,
    })
}

fn sibling(p: &Path, key: &str) -> Path {
    let mut q = p.clone();
    while let Some(Seg::I(_)) = q.last() {
        q.pop();
    }
    q.pop();
    q.push(Seg::K(key.to_string()));
    q
}

/// First path (document order) whose string form ends with `suffix` and is not null.
fn find_suffix(h: &Value, suffix: &str) -> Option<Path> {
    js::all_nodes(h)
        .into_iter()
        .find(|p| js::path_str(p).ends_with(suffix) && js::get(h, p).is_some_and(|v| !v.is_null()))
}

/// None -> Some candidates for the `null` at `p`.
fn some_candidates(h: &Value, p: &Path) -> Vec<SMut> {
    let mut out = vec![];
    let donor = |q: Path, out: &mut Vec<SMut>| {
        if js::get(h, &q).is_some_and(|v| !v.is_null()) {
            out.push(SMut::FromDonor(js::path_str(&q)));
        }
    };
    let ps = js::path_str(p);
    match last_key(p) {
        Some("random") if ps.contains("commitments") => {
            donor(sibling(p, "trace"), &mut out);
            donor(sibling(p, "main"), &mut out);
        }
        Some("random") => {
            if let Some(q) = find_suffix(h, "quotient_chunks[0]") {
                if js::path_str(&q).contains("opened_values") {
                    donor(q, &mut out);
                }
            }
            out.push(SMut::SetValue(json!([])));
        }
        Some("permutation") => donor(sibling(p, "main"), &mut out),
        Some("preprocessed_local") | Some("preprocessed_next") | Some("trace_next") => {
            // Some(v) with v.len() == the instance's main width, and Some([]) (present but empty)
            donor(sibling(p, "trace_local"), &mut out);
            out.push(SMut::SetValue(json!([])));
        }
        Some("prep") => {
            if let Some(q) = find_suffix(h, "commitments.trace") {
                donor(q, &mut out);
            }
        }
        Some("common") => {
            if let Some(q) = find_suffix(h, "commitments.main") {
                let n = js::get(h, &js::parse_path("pis")).and_then(|v| v.as_array()).map(|a| a.len()).unwrap_or(1);
                let com = js::get(h, &q).cloned().unwrap_or(Value::Null);
                out.push(SMut::SetValue(json!({"commitment": com, "instances": vec![Value::Null; n], "matrix_to_instance": []})));
                let mut inst = vec![Value::Null; n];
                inst[0] = json!({"matrix_index": 0, "width": 1, "degree_bits": 3});
                out.push(SMut::SetValue(json!({"commitment": com, "instances": inst, "matrix_to_instance": [0]})));
            }
        }
        Some("lookup_terminals") => {
            if let Some(q) = find_suffix(h, "trace_local[0]") {
                donor(q, &mut out);
            }
        }
        Some("instances") => {
            // Option<PreprocessedInstanceMeta>
            let arr = {
                let mut q = p.clone();
                q.pop();
                q
            };
            if let Some(Value::Array(a)) = js::get(h, &arr) {
                if let Some(i) = a.iter().position(|v| v.is_object()) {
                    donor(js::pi(&arr, i), &mut out);
                }
            }
        }
        Some("w_binomial") => out.push(SMut::SetValue(json!(3))),
        _ => {}
    }
    out
}

/// Counters on the "optional part ADDED" family: every `null` node of the honest bundle, by path
/// class, with the number of None -> Some candidates constructible for it (a class listed under
/// `null-without-candidate` has no donor of the right shape in that bundle).
fn null_stats(h: &Value) -> Vec<(String, u64)> {
    let mut out = std::collections::BTreeMap::<String, u64>::new();
    for p in js::all_nodes(h) {
        if js::get(h, &p).and_then(|v| v.as_array()).is_some_and(|a| a.is_empty()) {
            let class = js::path_class(&p);
            *out.entry(format!("empty-list-nodes/{class}")).or_default() += 1;
            let n = empty_list_candidates(h, &p).len() as u64;
            if n > 0 {
                *out.entry(format!("empty-list-lengthened-enumerated/{class}")).or_default() += n;
            }
        }
        if !js::get(h, &p).is_some_and(|v| v.is_null()) {
            continue;
        }
        if last_key(&p).is_some_and(|k| k.starts_with('_')) {
            // `_phantom` / `_marker`: serialized PhantomData, not an optional part
            continue;
        }
        let class = js::path_class(&p);
        let c: Vec<SMut> =
            some_candidates(h, &p).into_iter().filter(|m| js::apply_smut(h, &p, m).is_some_and(|d| d != *h)).collect();
        *out.entry(format!("null-nodes/{class}")).or_default() += 1;
        if c.is_empty() {
            *out.entry(format!("null-without-candidate/{class}")).or_default() += 1;
        } else {
            *out.entry(format!("to-some-enumerated/{class}")).or_default() += c.len() as u64;
        }
        if last_key(&p) == Some("trace_next") {
            // honest `trace_next == None` <=> the instance's AIR does not open the next row
            *out.entry("to-some-enumerated/trace_next-of-row-local-instance".to_string()).or_default() += c.len() as u64;
        }
    }
    out.into_iter().collect()
}

/// Why the native verifier rejected, from the `Debug` rendering of its error.
#[derive(Clone, Debug, PartialEq)]
enum NClass {
    /// shape / length / count / presence error: the proof (or its companion data) is malformed
    Structural(String),
    /// structural for the native verifier, but about something that is not an input of the circuit
    /// builders at all:
    /// * FRI `num_queries` (`FriVerifierParams` has no such field): from the builder's side the mutant
    ///   is a well-formed proof of another parameter set; the accepting case is reported by the
    ///   weaker-circuit oracle;
    /// * the length of a Merkle authentication path: sibling digests are run-time private data of
    ///   the MMCS ops (`set_fri_mmcs_private_data`, which returns the typed error), no target is
    ///   allocated for them and no builder argument carries them.
    NotABuilderParameter(String),
    /// algebraic / cryptographic check failed on a well-shaped proof
    Crypto(String),
    /// rejected, error not recognised (treated as non-structural; shows up in the counters)
    Unclassified(String),
    Accept,
    Panic,
}

impl NClass {
    fn label(&self) -> String {
        match self {
            NClass::Structural(v) => format!("structural/{v}"),
            NClass::NotABuilderParameter(v) => format!("not-a-builder-parameter/{v}"),
            NClass::Crypto(v) => format!("cryptographic/{v}"),
            NClass::Unclassified(v) => format!("unclassified/{v}"),
            NClass::Accept => "accept".into(),
            NClass::Panic => "panic".into(),
        }
    }
}

/// Error variants of p3_uni_stark::{VerificationError, InvalidProofShapeError}, p3_batch_stark's
/// BatchVerificationError, p3_lookup::LookupError, p3_fri::FriError, p3_merkle_tree's
/// MerkleTreeError / PrunedProofError and the repository's BatchStarkProverError /
/// ProofMetadataError, split by what they say about the input.
const STRUCTURAL: &[&str] = &[
    // p3_uni_stark::VerificationError
    "RandomizationError",
    // InvalidProofShapeError
    "InstanceCountMismatch",
    "TraceLocalWidthMismatch",
    "TraceNextMismatch",
    "UnexpectedTraceNext",
    "QuotientChunksCountMismatch",
    "QuotientChunkDimensionMismatch",
    "QuotientDomainsCountMismatch",
    "PreprocessedTraceWidthMismatch",
    "PreprocessedVerifierKeyInconsistency",
    "PreprocessedDegreeMismatch",
    "PreprocessedWidthMismatch",
    "UnexpectedPreprocessedValues",
    "DegreeBitsTooSmall",
    "DegreeBitsTooLarge",
    "QuotientDomainTooLarge",
    "MissingPreprocessedValues",
    "PreprocessedMetadataMismatch",
    "PublicValuesLengthMismatch",
    "OpenedValuesDimensionMismatch",
    // LookupError (presence / width)
    "CommitmentMismatch",
    "TerminalPresenceMismatch",
    "PermutationLengthMismatch",
    "PermutationWidthMismatch",
    // FriError (counts, lengths, heights, schedules)
    "QueryCommitPhaseOpeningsCountMismatch",
    "QueryLogAritiesMismatch",
    "CommitPowWitnessCountMismatch",
    "FinalPolyLengthMismatch",
    "ZeroQueries",
    "MissingInitialReducedOpening",
    "InitialReducedOpeningHeightMismatch",
    "GlobalMaxHeightMismatch",
    "GlobalMaxHeightTooLarge",
    "SiblingValuesLengthMismatch",
    "InvalidLogArity",
    "FinalFoldHeightMismatch",
    "UnconsumedReducedOpenings",
    "InputProofBatchCountMismatch",
    "BatchOpenedValuesCountMismatch",
    "MatrixWithoutOpeningPoints",
    "PointEvaluationCountMismatch",
    "HidingRandomOpeningRoundCountMismatch",
    "HidingRandomOpeningMatrixCountMismatch",
    "HidingRandomOpeningPointCountMismatch",
    // MerkleTreeError / PrunedProofError (dimensions)
    "WrongBatchSize",
    "WrongWidth",
    "IncompatibleHeights",
    "IndexOutOfBounds",
    "EmptyBatch",
    // repository: BatchStarkProverError / ProofMetadataError
    "UnsupportedDegree",
    "MissingWForExtension",
    "MissingTableProver",
    "ZeroRowCount",
    "ZeroLanes",
    "ZeroNpoLanes",
    "BadMinTraceHeight",
    "BadHornerPackedSteps",
    "UnsupportedExtDegree",
    "ExtDegreeMismatch",
    "BinomialWMismatch",
    "QuinticReductionMismatch",
];
const NOT_A_BUILDER_PARAMETER: &[&str] = &[
    // FriError: number of queries (not a field of FriVerifierParams)
    "QueryProofCountMismatch",
    // MerkleTreeError / PrunedProofError: authentication path length / layout (run-time private data)
    "WrongHeight",
    "TooManyUniquePaths",
    "SiblingCountMismatch",
    "OriginalOrderOutOfRange",
];
const CRYPTO: &[&str] = &[
    "OodEvaluationMismatch",
    "OodPointInDomain",
    "FinalPolyMismatch",
    "InvalidPowWitness",
    "OpeningPointMatchesQueryPoint",
    "CapMismatch",
    "RootMismatch",
    "InconsistentDuplicateOpenings",
    "TerminalSumNonZero",
    "MultiplicityHeightBoundExceeded",
];

fn classify_native(n: &NativeV, dbg: Option<&str>) -> NClass {
    match n {
        NativeV::Accept => return NClass::Accept,
        NativeV::Panic(_) => return NClass::Panic,
        NativeV::Reject(_) => {}
    }
    let d = dbg.unwrap_or("");
    // the error is one chain `Outer(Inner(Leaf { .. }))`: the innermost recognised identifier decides
    let mut hit: Option<NClass> = None;
    for tok in d.split(|c: char| !c.is_alphanumeric() && c != '_').filter(|t| !t.is_empty()) {
        if CRYPTO.contains(&tok) {
            hit = Some(NClass::Crypto(tok.to_string()));
        } else if NOT_A_BUILDER_PARAMETER.contains(&tok) {
            hit = Some(NClass::NotABuilderParameter(tok.to_string()));
        } else if STRUCTURAL.contains(&tok) {
            hit = Some(NClass::Structural(tok.to_string()));
        }
    }
    hit.unwrap_or_else(|| {
        let head: Vec<&str> =
            d.split(|c: char| !c.is_alphanumeric() && c != '_').filter(|t| !t.is_empty()).take(3).collect();
        NClass::Unclassified(head.join("."))
    })
}

/// "List lengthened" candidates for an *empty* list (dup-last needs an element): the per-instance
/// lookup openings of an instance without lookups, and the public values of an AIR without any.
fn empty_list_candidates(h: &Value, p: &Path) -> Vec<SMut> {
    let ps = js::path_str(p);
    match last_key(p) {
        Some("permutation_local") | Some("permutation_next") => {
            // one extension element, taken from the same instance's main opening
            let mut q = p.clone();
            q.pop();
            q.push(Seg::K("base_opened_values".into()));
            q.push(Seg::K("trace_local".into()));
            q.push(Seg::I(0));
            js::get(h, &q).map(|e| vec![SMut::SetValue(json!([e]))]).unwrap_or_default()
        }
        Some("pis") if ps == "pis" || ps.starts_with("pis[") => vec![SMut::SetValue(json!([1]))],
        _ => vec![],
    }
}

fn enumerate(h: &Value, thorough: bool) -> Vec<Mutant> {
    let mut out = vec![];
    for p in js::all_nodes(h) {
        if p.is_empty() {
            continue;
        }
        let Some(node) = js::get(h, &p) else { continue };
        let ps = js::path_str(&p);
        let mut ms: Vec<SMut> = vec![];
        match node {
            Value::Array(a) => {
                let n = a.len();
                if n > 0 {
                    ms.push(SMut::DropLast);
                    ms.push(SMut::DupLast);
                }
                if n > 1 {
                    ms.push(SMut::DropFirst);
                    ms.push(SMut::Empty);
                    ms.push(SMut::Swap(0, n - 1));
                }
                if n > 2 {
                    ms.push(SMut::Swap(0, 1));
                }
                if n == 0 {
                    ms.extend(empty_list_candidates(h, &p));
                }
                ms.push(SMut::ToNull);
            }
            Value::Object(_) => ms.push(SMut::ToNull),
            Value::Null => ms.extend(some_candidates(h, &p)),
            Value::Number(x) => {
                if js::is_int_leaf(&p) {
                    if let Some(v) = x.as_u64() {
                        let mut vals = vec![v + 1, 0, 64, 1 << 20];
                        if v > 0 {
                            vals.push(v - 1);
                        }
                        if thorough {
                            vals.extend([1u64 << 40, u64::MAX, 255, 31]);
                        }
                        vals.sort();
                        vals.dedup();
                        for nv in vals {
                            if nv != v {
                                ms.push(SMut::SetInt(nv));
                            }
                        }
                    }
                }
            }
            _ => {}
        }
        for m in ms {
            if js::apply_smut(h, &p, &m).is_some_and(|d| d != *h) {
                out.push(Mutant { path: ps.clone(), m });
            }
        }
    }
    out
}

/// The fixed circuit of the honest shape only sees the packed proof data: shape-bearing integers,
/// FRI parameters and batch metadata are not inputs of a deployed circuit.
fn fixed_applicable(p: &Path) -> bool {
    if js::is_int_leaf(p) {
        return false;
    }
    let s = js::path_str(p);
    !(s.starts_with("fri")
        || s.starts_with("common.instances")
        || s.starts_with("proof.stark_common.instances")
        || s.contains("w_binomial")
        || s.contains("alu_"))
}

fn verify_entry(kind: &str) -> &'static str {
    match kind {
        "uni" => "verify_p3_uni_proof_circuit",
        "batch" => "verify_batch_circuit",
        _ => "verify_p3_batch_proof_circuit",
    }
}

fn progress(child: bool, what: &str) {
    if child {
        println!("P {what}");
    }
}

/// Rejected before execution, with a typed error, by the stage that packs / sets the circuit inputs.
fn input_stage_error(run: &CircV) -> bool {
    const STAGES: &[&str] = &[
        "set_public_inputs:",
        "set_private_inputs:",
        "mmcs-private-data:",
        "set_private_data:",
        "pack_public_inputs:",
        "pack_private_inputs:",
    ];
    matches!(run, CircV::Reject(s) if STAGES.iter().any(|p| s.starts_with(p)))
}

fn nl_fingerprint(list: &[(String, CircV)]) -> Option<&str> {
    list.iter().find(|(e, _)| e.ends_with("#fingerprint")).and_then(|(_, v)| match v {
        CircV::Precond(s) => Some(s.as_str()),
        _ => None,
    })
}

/// Fingerprints of the circuits the builders return for the honest bundle.
struct HonestFp<'a> {
    verify: u64,
    ctx: &'a dyn kit::Ctx,
    h: &'a Value,
    next_layer: std::cell::OnceCell<Option<String>>,
}

impl<'a> HonestFp<'a> {
    fn new(ctx: &'a dyn kit::Ctx, h: &'a Value, compiled: &dyn kit::Compiled) -> Self {
        HonestFp { verify: compiled.fingerprint(), ctx, h, next_layer: std::cell::OnceCell::new() }
    }
    /// `build_next_layer_circuit` on the honest bundle (computed on first use)
    fn next_layer(&self) -> Option<&str> {
        self.next_layer
            .get_or_init(|| self.ctx.extra_entry_points(self.h).ok().and_then(|l| nl_fingerprint(&l).map(str::to_string)))
            .as_deref()
    }
}

/// Evaluate one mutant against every entry point.
fn eval_mutant(
    shape: &dyn Shape,
    ctx: &dyn kit::Ctx,
    honest_compiled: &dyn kit::Compiled,
    hfp: &HonestFp<'_>,
    h: &Value,
    honest_pack: Option<&(Vec<Vec<u64>>, Vec<Vec<u64>>)>,
    mu: &Mutant,
    child: bool,
) -> Vec<Rec> {
    let name = shape.name();
    let kind = shape.kind();
    let p = js::parse_path(&mu.path);
    let class = js::path_class(&p);
    let mlabel = match &mu.m {
        SMut::Swap(i, j) => format!("swap{i}-{j}"),
        SMut::SetInt(v) => format!("int={v}"),
        SMut::FromDonor(d) => format!("some<-{}", js::path_class(&js::parse_path(d))),
        SMut::SetValue(v) => match v {
            Value::Array(a) if a.is_empty() => "some=[]".to_string(),
            other => format!("some={:x}", fnv(&other.to_string()) & 0xffff),
        },
        other => other.label(),
    };
    let key = format!("{name}:{}:{mlabel}", mu.path);
    let Some(m) = js::apply_smut(h, &p, &mu.m) else {
        return vec![Rec::inconclusive(key, "mutation not applicable".into())];
    };
    let det = |entry: &str, n: &NativeV, c: &CircV| {
        json!({"shape": name, "mutant": mu, "mutation": mlabel, "path_class": class, "entry_point": entry,
            "native": n.label(), "circuit": c.label()})
    };
    progress(child, "native");
    let (native, native_dbg) = match ctx.native_detail(&m) {
        Ok(n) => n,
        Err(_) => {
            return vec![Rec::held(key, false).count(format!("undeserializable/{}", mu.m.label()), 1)];
        }
    };
    let nclass = classify_native(&native, native_dbg.as_deref());
    let mut recs = vec![];
    let mut base = Rec::held(key.clone(), true)
        .count(format!("mutants/{}", mu.m.label()), 1)
        .count(format!("native/{}", if native.accepts() { "accept" } else { "reject" }), 1)
        .count(format!("native-class/{}", nclass.label()), 1);
    if mu.m.label() == "to-some" {
        base = base.count(format!("to-some-evaluated/{class}"), 1);
        if last_key(&p) == Some("trace_next") {
            base = base.count("to-some-evaluated/trace_next-of-row-local-instance", 1);
        }
    }
    // Oracle "malformed accepted by the builder": `entry` returned Ok for a mutant that the native
    // verifier rejects for a structural reason; `run` is what running the built circuit then said.
    // `same_circuit`: the builder returned exactly the circuit it returns for the honest bundle.
    let malformed = |entry: &str, run: &CircV, same_circuit: Option<bool>, recs: &mut Vec<Rec>, base: &mut Rec| match &nclass {
        NClass::Structural(variant) => {
            if run.accepts() {
                // reported by `judge` as weaker-circuit/<entry>/<class>: one report per (mutant, entry)
                base.counters.push((format!("malformed-accepted/{entry}/subsumed-by-weaker-circuit"), 1));
            } else if same_circuit == Some(true) && input_stage_error(run) {
                // The builder does not consume the malformed part: it built the well-formed circuit
                // (specialised by construction, e.g. sibling count from the declared log_arity) and the
                // stage that does consume that part refused the mutant with a typed error.
                base.counters.push((format!("builder-ok/{entry}/well-formed-circuit+typed-input-error/{variant}"), 1));
            } else {
                recs.push(Rec::violated(
                    format!("{key}:{entry}:malformed-accepted"),
                    format!("malformed-accepted/{entry}/{class}"),
                    json!({"shape": name, "mutant": mu, "mutation": mlabel, "path_class": class, "entry_point": entry,
                        "native": native.label(), "native_error": native_dbg.as_deref().map(|d| d.chars().take(300).collect::<String>()),
                        "native_class": format!("structural/{variant}"), "builder": "Ok",
                        "circuit_run": run.label(), "built_circuit_equals_honest_circuit": same_circuit,
                        "note": "the native verifier rejects this input for its shape; the circuit builder returned Ok instead of an error"}),
                ));
            }
        }
        NClass::NotABuilderParameter(v) => {
            base.counters.push((format!("builder-ok/{entry}/native-structural-but-not-a-builder-parameter/{v}"), 1))
        }
        NClass::Crypto(_) => base.counters.push((format!("builder-ok/{entry}/native-rejects-cryptographically"), 1)),
        NClass::Unclassified(_) => base.counters.push((format!("builder-ok/{entry}/native-rejects-unclassified"), 1)),
        NClass::Accept => base.counters.push((format!("builder-ok/{entry}/native-accepts"), 1)),
        NClass::Panic => base.counters.push((format!("builder-ok/{entry}/native-panics"), 1)),
    };
    if let NativeV::Panic(site) = &native {
        if site.starts_with("repo/") {
            // The native verifier of circuit proofs is not a circuit builder: a panic there is an
            // (unclean) rejection, observed here and judged by C16.
            base = base.count(format!("native-verify_all_tables-panic/{site}"), 1);
        } else {
            base = base.count(format!("native-plonky3-panic/{site}"), 1);
        }
    }
    let ve = verify_entry(kind);
    let judge = |entry: &str, c: &CircV, recs: &mut Vec<Rec>, base: &mut Rec| match c {
        CircV::Panic { entry: e2, msg } => {
            let site = kit::norm_site(msg);
            let ep = if e2 == "run" { format!("{entry}+run") } else { e2.clone() };
            recs.push(Rec::violated(
                format!("{key}:{entry}"),
                // keyed by entry point, panic site AND the altered part of the input: a change that
                // turns a refused alteration into a panic at an already listed site must not be absorbed
                format!("panic/{ep}/{site}@{class}"),
                json!({"shape": name, "mutant": mu, "mutation": mlabel, "path_class": class, "entry_point": ep,
                    "native": native.label(), "panic": msg}),
            ));
        }
        CircV::Accept if !native.accepts() => {
            recs.push(Rec::violated(
                format!("{key}:{entry}"),
                format!("weaker-circuit/{entry}/{class}"),
                det(entry, &native, c),
            ));
        }
        CircV::Accept => base.counters.push((format!("{entry}/accept(native accepts too)"), 1)),
        CircV::Reject(_) => base.counters.push((format!("{entry}/run-reject"), 1)),
        CircV::BuildErr(e) => base.counters.push((format!("{entry}/err/{e}"), 1)),
        CircV::Precond(_) => base.counters.push((format!("{entry}/precondition-not-met"), 1)),
    };
    // 1. build from the mutant, then pack + run
    progress(child, "compile");
    match ctx.compile(&m) {
        Err(_) => base.counters.push((format!("{ve}/undeserializable-for-entry"), 1)),
        Ok(Err(v)) => judge(ve, &v, &mut recs, &mut base),
        Ok(Ok(c)) => {
            progress(child, "run");
            match c.run(&m) {
                Ok(v) => {
                    judge(ve, &v, &mut recs, &mut base);
                    let same = matches!(nclass, NClass::Structural(_)).then(|| c.fingerprint() == hfp.verify);
                    malformed(ve, &v, same, &mut recs, &mut base);
                }
                Err(_) => base.counters.push((format!("{ve}/undeserializable-for-entry"), 1)),
            }
        }
    }
    // 2. the fixed circuit of the honest shape, inputs packed from the mutant
    progress(child, "fixed");
    if fixed_applicable(&p) {
        // (Merkle siblings live under `query_proofs`; they reach the circuit as private op data)
        let same_inputs = !mu.path.contains("query_proofs")
            && matches!((honest_compiled.pack(&m), honest_pack), (Ok(a), Some(b)) if a == *b);
        if same_inputs {
            // the flattened input vectors are those of the honest proof: nothing the circuit could see
            base.counters.push(("fixed-circuit/identical-packed-inputs".into(), 1));
        } else {
            match honest_compiled.run(&m) {
                Ok(v) => judge("fixed-circuit+pack_values", &v, &mut recs, &mut base),
                Err(_) => base.counters.push(("fixed-circuit/undeserializable-for-entry".into(), 1)),
            }
        }
    }
    // 3. other entry points
    progress(child, "extra");
    match ctx.extra_entry_points(&m) {
        Err(_) => base.counters.push(("extra-entry-points/undeserializable-for-entry".into(), 1)),
        Ok(list) => {
            for (ep, v) in list.iter() {
                // ("build_next_layer_circuit", Accept) = the builder returned Ok; its "+run" entry follows
                if ep == "build_next_layer_circuit" && v.accepts() {
                    if let Some((_, run)) = list.iter().find(|(e, _)| e == "build_next_layer_circuit+run") {
                        let same = match (&nclass, nl_fingerprint(&list)) {
                            (NClass::Structural(_), Some(fp)) => hfp.next_layer().map(|h| h == fp),
                            _ => None,
                        };
                        malformed(ep, run, same, &mut recs, &mut base);
                    }
                }
            }
            for (ep, v) in list {
                if ep.ends_with("#fingerprint") {
                    continue;
                }
                if ep.ends_with("+run") || matches!(v, CircV::Panic { .. }) {
                    let epn = ep.trim_end_matches("+run").to_string();
                    judge(&epn, &v, &mut recs, &mut base);
                } else {
                    base.counters.push((format!("{ep}/{}", if v.accepts() { "ok" } else { "err" }), 1));
                }
            }
        }
    }
    recs.push(base);
    recs
}

struct Prepared {
    ctx: Box<dyn kit::Ctx>,
}

/// Shapes of the C15 sweep only (the C01 / C14 shape lists are untouched): batches containing a
/// *row-local* AIR (`main_next_row_columns()` empty), whose honest proof carries `trace_next: None`
/// for that instance, so that the "optional part ADDED" mutants `trace_next: Some(..)` exist for a
/// plain `verify_batch_circuit` shape (the circuit-prover batch shapes have such instances too:
/// their Const / Public tables).
fn c15_extra_shapes(thorough: bool) -> Vec<Box<dyn Shape>> {
    use kit::airs::TAir;
    let mut v = vec![kit::cfgs::kb::batch(vec![TAir::AddRl { rows: 8 }, TAir::Sub { rows: 8 }])];
    if thorough {
        v.push(kit::cfgs::bb::batch(vec![TAir::AddRl { rows: 8 }]));
        v.push(kit::cfgs::gl::batch(vec![TAir::Fib { rows: 8 }, TAir::AddRl { rows: 16 }]));
        v.push(kit::cfgs::kbzk::batch(vec![TAir::AddRl { rows: 64 }]));
    }
    v
}

fn shape_by_name(name: &str) -> Option<Box<dyn Shape>> {
    kit::shape_by_name(name).or_else(|| c15_extra_shapes(true).into_iter().find(|s| s.name() == name))
}

fn child_main(args: &Args) -> ! {
    install_quiet_panic_hook();
    let name = args.extra.get("shape-name").cloned().unwrap_or_default();
    let file = args.extra.get("bundle").cloned().unwrap_or_default();
    let lo: usize = args.extra.get("lo").and_then(|s| s.parse().ok()).unwrap_or(0);
    let hi: usize = args.extra.get("hi").and_then(|s| s.parse().ok()).unwrap_or(0);
    let thorough = args.tier == Tier::Thorough;
    let fail = |why: String| -> ! {
        println!("F {why}");
        std::process::exit(3)
    };
    let Some(shape) = shape_by_name(&name) else { fail(format!("unknown shape {name}")) };
    let h: Value = match std::fs::read_to_string(&file).map_err(|e| e.to_string()).and_then(|s| serde_json::from_str(&s).map_err(|e| e.to_string())) {
        Ok(v) => v,
        Err(e) => fail(format!("bundle: {e}")),
    };
    let prep = match shape.ctx() {
        Ok(ctx) => Prepared { ctx },
        Err(e) => fail(format!("ctx: {e}")),
    };
    let compiled = match prep.ctx.compile(&h) {
        Ok(Ok(c)) => c,
        Ok(Err(v)) => fail(format!("honest compile: {}", v.label())),
        Err(e) => fail(e),
    };
    if args.extra.contains_key("fri-args") {
        println!("B 0");
        println!("P verify_fri_circuit");
        let recs: Vec<Rec> = match prep.ctx.fri_arg_mutants(&h) {
            Err(e) => vec![Rec::inconclusive(format!("{name}:fri-args"), e)],
            Ok(list) => {
                let honest_ok = list.iter().any(|(l, v)| l == "none" && v.accepts());
                list.into_iter()
                    .map(|(label, v)| {
                        let key = format!("{name}:verify_fri_circuit:{label}");
                        match &v {
                            CircV::Panic { msg, .. } => Rec::violated(
                                key,
                                format!("panic/verify_fri_circuit/{}", kit::norm_site(msg)),
                                json!({"shape": name, "fri_arg_mutation": label, "entry_point": "verify_fri_circuit", "panic": msg}),
                            ),
                            _ if !honest_ok => Rec::inconclusive(key, "verify_fri_circuit rejects the unmutated arguments".into()),
                            _ => Rec::held(key, label != "none").count(
                                format!("verify_fri_circuit/{}", if v.accepts() { "built" } else { "typed-error" }),
                                1,
                            ),
                        }
                    })
                    .collect()
            }
        };
        println!("R {}", serde_json::to_string(&recs).unwrap());
        println!("E 0");
        println!("D");
        std::process::exit(0)
    }
    let mutants = enumerate(&h, thorough);
    let honest_pack = compiled.pack(&h).ok();
    let hfp = HonestFp::new(prep.ctx.as_ref(), &h, compiled.as_ref());
    for (k, mu) in mutants.iter().enumerate().take(hi).skip(lo) {
        println!("B {k}");
        let recs =
            eval_mutant(shape.as_ref(), prep.ctx.as_ref(), compiled.as_ref(), &hfp, &h, honest_pack.as_ref(), mu, true);
        println!("R {}", serde_json::to_string(&recs).unwrap());
        println!("E {k}");
        let _ = std::io::stdout().flush();
    }
    println!("D");
    std::process::exit(0)
}

struct Job {
    shape: usize,
    lo: usize,
    hi: usize,
    /// the `verify_fri_circuit` argument-mutation job of this shape (no bundle mutants)
    fri_args: bool,
}

fn status_label(st: &std::process::ExitStatus) -> String {
    use std::os::unix::process::ExitStatusExt;
    if let Some(sig) = st.signal() {
        let n = match sig {
            6 => "SIGABRT",
            11 => "SIGSEGV",
            9 => "SIGKILL",
            7 => "SIGBUS",
            4 => "SIGILL",
            _ => "signal",
        };
        format!("{n}({sig})")
    } else {
        match st.code() {
            Some(124) => "timeout".into(),
            Some(134) => "SIGABRT(6)".into(),
            Some(139) => "SIGSEGV(11)".into(),
            Some(137) => "SIGKILL(9)".into(),
            Some(c) => format!("exit-{c}"),
            None => "unknown".into(),
        }
    }
}

/// Run one job in child processes; resumes after a mutant that kills the child.
fn run_job(
    shapes: &[Box<dyn Shape>],
    files: &[Option<String>],
    mutants: &[Vec<Mutant>],
    job: &Job,
    tier: Tier,
    mem_kb: u64,
    secs: u64,
) -> Vec<CaseResult> {
    let shape = &shapes[job.shape];
    let name = shape.name();
    let Some(file) = &files[job.shape] else { return vec![] };
    let exe = std::env::current_exe().expect("current exe");
    let mut out = vec![];
    let mut lo = job.lo;
    let mut respawns = 0;
    while lo < job.hi {
        let cmd = format!(
            "ulimit -c 0; ulimit -v {mem_kb}; exec timeout {secs} '{}' --child 1 --tier {} --shape-name '{}' --bundle '{}' --lo {} --hi {}{}",
            exe.display(),
            tier.name(),
            name,
            file,
            lo,
            job.hi,
            if job.fri_args { " --fri-args 1" } else { "" }
        );
        let res = Command::new("sh").arg("-c").arg(&cmd).stdin(Stdio::null()).stderr(Stdio::null()).output();
        let Ok(res) = res else {
            out.push(CaseResult::inconclusive(format!("{name}:{lo}"), "could not spawn child"));
            return out;
        };
        let text = String::from_utf8_lossy(&res.stdout);
        let mut cur: Option<usize> = None;
        let mut last_p = String::new();
        let mut done = false;
        let mut last_done: Option<usize> = None;
        for line in text.lines() {
            if let Some(k) = line.strip_prefix("B ") {
                cur = k.trim().parse().ok();
                last_p.clear();
            } else if let Some(p) = line.strip_prefix("P ") {
                last_p = p.trim().to_string();
            } else if let Some(r) = line.strip_prefix("R ") {
                match serde_json::from_str::<Vec<Rec>>(r) {
                    Ok(recs) => out.extend(recs.into_iter().map(Rec::into_case)),
                    Err(e) => out.push(CaseResult::inconclusive(format!("{name}:{cur:?}"), format!("child output: {e}"))),
                }
            } else if line.starts_with("E ") {
                last_done = cur;
                cur = None;
            } else if line.starts_with('D') {
                done = true;
            } else if let Some(why) = line.strip_prefix("F ") {
                out.push(CaseResult::inconclusive(format!("{name}:{lo}"), format!("child setup: {why}")));
                return out;
            }
        }
        if done && res.status.success() {
            break;
        }
        let label = status_label(&res.status);
        if job.fri_args {
            out.push(CaseResult::violated(
                format!("{name}:verify_fri_circuit:abort"),
                format!("abort/verify_fri_circuit/{label}@{}GiB", mem_kb / (1024 * 1024)),
                json!({"shape": name, "entry_point": "verify_fri_circuit", "status": label,
                    "note": "the child running the argument mutations of verify_fri_circuit died"}),
            ));
            return out;
        }
        match cur {
            Some(k) => {
                let mu = &mutants[job.shape][k];
                let p = js::parse_path(&mu.path);
                let key = format!("{name}:{}:{}:abort", mu.path, mu.m.label());
                let ep = match last_p.as_str() {
                    "native" if shape.kind() == "circuit-batch" => "verify_all_tables".to_string(),
                    "native" => "native-verifier".to_string(),
                    "compile" => verify_entry(shape.kind()).to_string(),
                    "run" => format!("{}+run", verify_entry(shape.kind())),
                    "fixed" => "fixed-circuit+pack_values".to_string(),
                    "extra" => "build_next_layer_circuit|validate".to_string(),
                    other => other.to_string(),
                };
                if label == "timeout" && last_p == "native" {
                    out.push(CaseResult::held(key, false).count(format!("native-timeout({secs}s)/{ep}"), 1));
                } else if label == "timeout" {
                    out.push(
                        CaseResult::inconclusive(key, format!("timeout in {ep}")).count(format!("timeout/{ep}"), 1),
                    );
                } else if last_p == "native" {
                    // native verifiers (Plonky3's, or the repo's verify_all_tables) are not circuit
                    // builders: an abort there is an unclean rejection, observed only (see C16)
                    out.push(CaseResult::held(key, false).count(format!("native-verifier-abort/{ep}/{label}"), 1));
                } else {
                    out.push(CaseResult::violated(
                        key,
                        format!("abort/{ep}/{label}@{}GiB", mem_kb / (1024 * 1024)),
                        json!({"shape": name, "mutant": mu, "mutation": mu.m.label(), "path_class": js::path_class(&p),
                            "entry_point": ep, "status": label, "address_space_limit_kb": mem_kb,
                            "note": "the child process evaluating this mutant died (allocation failure / stack overflow / abort)"}),
                    ));
                }
                lo = k + 1;
            }
            None => {
                respawns += 1;
                if respawns > 3 {
                    out.push(CaseResult::inconclusive(format!("{name}:{lo}"), format!("child died outside a mutant: {label}")));
                    return out;
                }
                lo = last_done.map(|k| k + 1).unwrap_or(lo);
            }
        }
    }
    out
}

fn replay(path: &std::path::Path) -> Vec<CaseResult> {
    let v: Value = serde_json::from_str(&std::fs::read_to_string(path).expect("replay file")).expect("json");
    let d = &v["detail"];
    let sig = v["signature"].as_str().unwrap_or("").to_string();
    let name = d["shape"].as_str().unwrap_or("").to_string();
    let Some(shape) = shape_by_name(&name) else {
        return vec![CaseResult::inconclusive("replay", format!("unknown shape {name}"))];
    };
    let h = match shape.honest() {
        Ok(h) => h,
        Err(e) => return vec![CaseResult::inconclusive("replay", e)],
    };
    let ctx = shape.ctx().expect("ctx");
    if let Some(label) = d["fri_arg_mutation"].as_str() {
        let list = ctx.fri_arg_mutants(&h).unwrap_or_default();
        return list
            .into_iter()
            .filter(|(l, _)| l == label)
            .map(|(l, v)| match &v {
                CircV::Panic { msg, .. } => CaseResult::violated(
                    "replay",
                    format!("panic/verify_fri_circuit/{}", kit::norm_site(msg)),
                    json!({"shape": name, "fri_arg_mutation": l, "panic": msg}),
                ),
                _ => CaseResult::held("replay", true),
            })
            .collect();
    }
    let Ok(mu) = serde_json::from_value::<Mutant>(d["mutant"].clone()) else {
        return vec![CaseResult::inconclusive("replay", "no mutant in replay file")];
    };
    let compiled = match ctx.compile(&h) {
        Ok(Ok(c)) => c,
        _ => return vec![CaseResult::inconclusive("replay", "honest compile")],
    };
    println!("replaying {} {} {:?} in-process (an abort finding terminates this process)", name, mu.path, mu.m.label());
    let honest_pack = compiled.pack(&h).ok();
    let hfp = HonestFp::new(ctx.as_ref(), &h, compiled.as_ref());
    let recs = eval_mutant(shape.as_ref(), ctx.as_ref(), compiled.as_ref(), &hfp, &h, honest_pack.as_ref(), &mu, false);
    let hits: Vec<CaseResult> =
        recs.iter().filter(|r| r.verdict == "violated" && r.signature == sig).take(1).cloned().map(Rec::into_case).collect();
    if !hits.is_empty() {
        return hits;
    }
    let any: Vec<CaseResult> = recs.into_iter().filter(|r| r.verdict == "violated").map(Rec::into_case).collect();
    if any.is_empty() { vec![CaseResult::held("replay", true)] } else { any }
}

fn main() {
    let args = parse_args();
    if args.extra.contains_key("child") {
        child_main(&args);
    }
    let mut rep = Report::new(
        "C15",
        "fault_enumeration",
        &args,
        "case = (proof shape, JSON node of the serialized proof / public values / common data / FRI parameters, \
         structural mutation); non-trivial = the mutant deserializes (it is a well-typed malformed input) and at least \
         one entry point was evaluated on it; distinct by (shape, node path, mutation)",
    );
    rep.assume("native Plonky3 verifiers are the reference for 'the well-formed shape would check this'");
    rep.assume("panics inside p3-* crates reached from the *native* verifier are counted, not attributed to the repository");
    rep.assume("documented `# Panics` preconditions of allocation helpers are respected by the harness (not called when violated)");
    rep.assume(
        "malformed-accepted oracle: a native rejection is 'structural' when its error variant is a shape / length / count / \
         presence error (list in classify_native); FRI num_queries and Merkle path lengths are not inputs of the circuit \
         builders and are excluded; a builder that returns exactly the honest-shape circuit while the input-setting stage \
         refuses the mutant with a typed error is not a violation",
    );
    if let Some(p) = &args.replay {
        let rs = replay(p);
        rep.add_all(rs);
        rep.finish(0);
    }
    let thorough = args.tier == Tier::Thorough;
    let mut shapes = kit::all_shapes(thorough);
    if !thorough && !args.extra.contains_key("all") {
        shapes.truncate(kit::N_CORE);
    }
    shapes.extend(c15_extra_shapes(thorough));
    if let Some(f) = args.extra.get("shape") {
        shapes.retain(|s| s.name().contains(f.as_str()));
    }
    let chunk: usize = args.extra.get("chunk").and_then(|s| s.parse().ok()).unwrap_or(200);
    let mem_kb: u64 = args.extra.get("mem-kb").and_then(|s| s.parse().ok()).unwrap_or(6 * 1024 * 1024);
    let secs: u64 = args.extra.get("child-secs").and_then(|s| s.parse().ok()).unwrap_or(args.tier.pick(20, 120));
    let dir = format!("/tmp/c15-{}", std::process::id());
    let _ = std::fs::create_dir_all(&dir);
    let mut files = vec![];
    let mut mutants = vec![];
    let mut jobs = vec![];
    let mut complete = true;
    for (si, s) in shapes.iter().enumerate() {
        rep.observe("shapes", s.name());
        match s.honest() {
            Err(e) => {
                rep.add(CaseResult::inconclusive(format!("{}:honest", s.name()), e));
                files.push(None);
                mutants.push(vec![]);
                complete = false;
            }
            Ok(h) => {
                let f = format!("{dir}/{si}.json");
                std::fs::write(&f, serde_json::to_string(&h).unwrap()).expect("write bundle");
                let ms = enumerate(&h, thorough);
                let mut en = CaseResult::held(format!("{}:enumerated", s.name()), false);
                for (k, n) in null_stats(&h) {
                    en = en.count(k, n);
                }
                rep.add(
                    en.count("mutants-enumerated", ms.len() as u64)
                        .with_sample(json!({"shape": s.name(), "mutants": ms.len(),
                            "example": ms.iter().step_by((ms.len() / 4).max(1)).take(4).collect::<Vec<_>>()})),
                );
                let mut lo = 0;
                while lo < ms.len() {
                    jobs.push(Job { shape: si, lo, hi: (lo + chunk).min(ms.len()), fri_args: false });
                    lo += chunk;
                }
                if s.kind() == "uni" {
                    jobs.push(Job { shape: si, lo: 0, hi: 1, fri_args: true });
                }
                files.push(Some(f));
                mutants.push(ms);
            }
        }
    }
    if args.extra.contains_key("enum-only") {
        // diagnostic: enumeration counters only
        let _ = std::fs::remove_dir_all(&dir);
        rep.finish(0);
    }
    // largest shapes first is not needed: jobs are uniform chunks
    let tier = args.tier;
    let results = run_cases(jobs.len(), args.threads, |i| run_job(&shapes, &files, &mutants, &jobs[i], tier, mem_kb, secs));
    if results.iter().any(|r| matches!(r.verdict, Verdict::Inconclusive(_))) {
        complete = false;
    }
    let evaluated = results
        .iter()
        .filter(|r| !r.key.ends_with(":native") && !r.key.contains(":verify_") && !r.key.contains(":fixed-") && !r.key.contains(":build_next"))
        .count();
    rep.set_extra("mutant_records", json!(evaluated));
    // `run_cases` keeps the detail of only the first 25 violations of a signature *in completion
    // order*: put the records that still carry their detail first, so that the replay file written
    // for a signature is always a usable one.
    let mut results = results;
    results.sort_by_key(|r| matches!(&r.verdict, Verdict::Violated { detail, .. } if detail.is_null()));
    if let Some(f) = args.extra.get("dump") {
        let mut seen = std::collections::BTreeMap::<String, (u64, Value)>::new();
        for r in &results {
            if let Verdict::Violated { signature, detail } = &r.verdict {
                let e = seen.entry(signature.clone()).or_insert((0, detail.clone()));
                e.0 += 1;
            }
            if let Verdict::Inconclusive(why) = &r.verdict {
                let e = seen.entry(format!("INCONCLUSIVE {why}")).or_insert((0, json!(r.key)));
                e.0 += 1;
            }
        }
        let lines: Vec<String> =
            seen.iter().map(|(k, (n, d))| json!({"signature": k, "count": n, "first": d}).to_string()).collect();
        let _ = std::fs::write(f, lines.join("\n"));
    }
    rep.add_all(results);
    let _ = std::fs::remove_dir_all(&dir);
    rep.set_exhaustive(complete && !args.extra.contains_key("shape"));
    rep.finish(args.tier.pick(300, 3_000));
}
