//! C08 — in-circuit MMCS opening verification accepts exactly what the native MMCS accepts.
//!
//! Fault-enumeration monitor. For random dimension vectors (1–5 matrices, power-of-two heights
//! 1..64, widths 1..19, cap height 0..3, arity 2/4, hiding / plain, base / extension leaves) on
//! every field/hash configuration the repo wires in-circuit, the matrices are committed with the
//! real `p3_merkle_tree` MMCS, opened at every index, and the opening is pushed through
//! `verify_batch_circuit{,_arity4,_from_extension_opened{,_arity4}}` + `CircuitRunner::run`.
//! Then every kind of single alteration (leaf word, sibling word, index bit, cap word, salt
//! word, swap of two equal-height rows) is applied to BOTH sides and the verdicts compared:
//! native reject ∧ circuit accept = soundness violation, native accept ∧ circuit reject =
//! completeness violation.
//!
//! The circuit for one dimension vector is built once (it depends on the dimensions, the cap size
//! and the index-bit count only) and re-run with different public/private inputs.

use std::collections::{BTreeMap, BTreeSet};
use std::sync::Mutex;

use p3_circuit::ops::{
    PermConfig, Poseidon1Config, Poseidon2Config, generate_poseidon1_trace,
    generate_poseidon2_trace, generate_recompose_trace,
};
use p3_circuit::{Circuit, CircuitBuilder, CircuitRunner, ExprId, NonPrimitiveOpId};
use p3_commit::{BatchOpening, BatchOpeningRef, ExtensionMmcs, Mmcs};
use p3_field::extension::{BinomialExtensionField, QuinticTrinomialExtensionField};
use p3_field::{BasedVectorSpace, ExtensionField, Field, PrimeField64, TwoAdicField};
use p3_fri::{CommitPhaseProofStep, FriProof, QueryProof};
use p3_matrix::Dimensions;
use p3_matrix::dense::RowMajorMatrix;
use p3_merkle_tree::{MerkleCap, MerkleTreeHidingMmcs, MerkleTreeMmcs};
use p3_recursion::pcs::{
    set_fri_mmcs_private_data, set_fri_mmcs_private_data_arity4, set_salted_fri_mmcs_private_data,
    verify_batch_circuit, verify_batch_circuit_arity4, verify_batch_circuit_from_extension_opened,
    verify_batch_circuit_from_extension_opened_arity4,
};
use p3_symmetric::{PaddingFreeSponge, TruncatedPermutation};
use p3_test_utils::LiftPermToQuintic;
use p3r_verif::util::*;
use rand::rngs::SmallRng;
use rand::{RngExt, SeedableRng};
use serde::{Deserialize, Serialize};
use serde_json::{Value, json};

/// Salt elements per leaf of the hiding MMCS (same as `recursion/tests/zk_hiding_mmcs.rs`).
const SALT: usize = 4;

// ------------------------------------------------------------------------------------------
// Case description
// ------------------------------------------------------------------------------------------

#[derive(Clone, Debug, Serialize, Deserialize)]
struct Shape {
    config: String,
    /// (height, width) per matrix; width counted in leaf elements (base or extension).
    dims: Vec<(usize, usize)>,
    cap_height: usize,
    hiding: bool,
    ext_leaves: bool,
    /// Seed of matrix contents and of the hiding MMCS salt generator.
    mat_seed: u64,
}

#[derive(Clone, Debug, Serialize, Deserialize, PartialEq)]
enum Alt {
    Honest,
    /// Add `delta` to base word `word` of the opened row of matrix `mat`.
    Leaf { mat: usize, word: usize, delta: u64 },
    /// Add `delta` to word `word` of sibling digest `sib`.
    Sibling { sib: usize, word: usize, delta: u64 },
    /// Flip index bit `bit`.
    IndexBit { bit: usize },
    /// Add `delta` to word `word` of cap entry `entry`.
    Cap { entry: usize, word: usize, delta: u64 },
    /// Add `delta` to salt word `word` of matrix `mat`.
    Salt { mat: usize, word: usize, delta: u64 },
    /// Exchange the opened rows of the equal-height matrices `a` and `b` (when their widths differ
    /// the concatenated stream `row_b ++ row_a` is re-split at the original widths).
    Swap { a: usize, b: usize },
}

impl Alt {
    fn kind(&self) -> &'static str {
        match self {
            Alt::Honest => "honest",
            Alt::Leaf { .. } => "leaf-value",
            Alt::Sibling { .. } => "sibling-word",
            Alt::IndexBit { .. } => "index-bit",
            Alt::Cap { .. } => "cap-word",
            Alt::Salt { .. } => "salt-word",
            Alt::Swap { .. } => "swap-rows",
        }
    }
}

/// An opening in a representation shared by all MMCS flavours: everything as base-field words.
#[derive(Clone, Debug)]
struct Opening<F> {
    /// Per matrix: the opened row, flattened to base words (`width * leaf_dim` words).
    rows: Vec<Vec<F>>,
    /// Per matrix salt (empty vec when the MMCS is not hiding).
    salts: Vec<Vec<F>>,
    /// Sibling digests, native proof order.
    siblings: Vec<Vec<F>>,
}

enum Mode {
    Explore,
    Replay { index: usize, alt: Alt },
}

struct Env<'a, EF: Field> {
    shape: &'a Shape,
    perm_cfg: PermConfig,
    arity4: bool,
    enable: &'a dyn Fn(&mut CircuitBuilder<EF>),
    mode: &'a Mode,
    tier: Tier,
    seed: u64,
    vec_idx: usize,
}

static OBS: Mutex<BTreeSet<(String, String)>> = Mutex::new(BTreeSet::new());

fn observe(set: &str, item: impl Into<String>) {
    OBS.lock().unwrap().insert((set.to_string(), item.into()));
}

// ------------------------------------------------------------------------------------------
// Native side
// ------------------------------------------------------------------------------------------

/// Split / join of the two native proof layouts (plain siblings, or `(salts, siblings)`).
trait ProofParts<F, const DG: usize>: Sized {
    fn split(self) -> (Vec<Vec<F>>, Vec<[F; DG]>);
    fn join(salts: Vec<Vec<F>>, sibs: Vec<[F; DG]>) -> Self;
}

impl<F, const DG: usize> ProofParts<F, DG> for Vec<[F; DG]> {
    fn split(self) -> (Vec<Vec<F>>, Vec<[F; DG]>) {
        (vec![], self)
    }
    fn join(_salts: Vec<Vec<F>>, sibs: Vec<[F; DG]>) -> Self {
        sibs
    }
}

impl<F, const DG: usize> ProofParts<F, DG> for (Vec<Vec<F>>, Vec<[F; DG]>) {
    fn split(self) -> (Vec<Vec<F>>, Vec<[F; DG]>) {
        self
    }
    fn join(salts: Vec<Vec<F>>, sibs: Vec<[F; DG]>) -> Self {
        (salts, sibs)
    }
}

type SetPriv<F, EF, const DG: usize> =
    for<'a, 'b> fn(&'a mut CircuitRunner<'b, EF>, &'a [NonPrimitiveOpId], Vec<[F; DG]>) -> Result<(), &'static str>;

struct Side<F, EF, L, M, const DG: usize>
where
    L: Clone + Send + Sync,
    M: Mmcs<L>,
{
    mmcs: M,
    commit: M::Commitment,
    pd: M::ProverData<RowMajorMatrix<L>>,
    dims: Vec<Dimensions>,
    set_priv: SetPriv<F, EF, DG>,
}

fn to_arr<F: Copy + Default, const DG: usize>(v: &[F]) -> [F; DG] {
    let mut a = [F::default(); DG];
    a.copy_from_slice(v);
    a
}

fn words_of<F: Field, L: ExtensionField<F>>(row: &[L]) -> Vec<F> {
    row.iter()
        .flat_map(|l| <L as BasedVectorSpace<F>>::as_basis_coefficients_slice(l).to_vec())
        .collect()
}

fn leaves_of<F: Field, L: ExtensionField<F>>(words: &[F]) -> Vec<L> {
    let d = <L as BasedVectorSpace<F>>::DIMENSION;
    words
        .chunks(d)
        .map(|c| <L as BasedVectorSpace<F>>::from_basis_coefficients_slice(c).expect("leaf chunk"))
        .collect()
}

impl<F, EF, L, M, const DG: usize> Side<F, EF, L, M, DG>
where
    F: Field,
    L: ExtensionField<F>,
    M: Mmcs<L, Commitment = MerkleCap<F, [F; DG]>>,
    M::Proof: ProofParts<F, DG>,
{
    fn new(mmcs: M, shape: &Shape, set_priv: SetPriv<F, EF, DG>) -> Self {
        let mut rng = SmallRng::seed_from_u64(shape.mat_seed);
        let mats: Vec<RowMajorMatrix<L>> = shape
            .dims
            .iter()
            .map(|&(h, w)| {
                let vals: Vec<L> = (0..h * w)
                    .map(|_| {
                        <L as BasedVectorSpace<F>>::from_basis_coefficients_fn(|_| F::from_u64(rng.random::<u64>()))
                    })
                    .collect();
                RowMajorMatrix::new(vals, w)
            })
            .collect();
        let dims = shape.dims.iter().map(|&(h, w)| Dimensions { height: h, width: w }).collect();
        let (commit, pd) = mmcs.commit(mats);
        Self { mmcs, commit, pd, dims, set_priv }
    }

    fn roots(&self) -> Vec<Vec<F>> {
        self.commit.roots().iter().map(|r| r.to_vec()).collect()
    }

    fn open(&self, index: usize) -> Opening<F> {
        let (rows, proof) = self.mmcs.open_batch(index, &self.pd).unpack();
        let (salts, sibs) = proof.split();
        Opening {
            rows: rows.iter().map(|r| words_of::<F, L>(r)).collect(),
            salts,
            siblings: sibs.iter().map(|s| s.to_vec()).collect(),
        }
    }

    /// Native verdict: `Ok(())` = accepted, `Err(text)` = rejected.
    fn verify(&self, roots: &[Vec<F>], index: usize, op: &Opening<F>) -> Result<(), String> {
        let commit: MerkleCap<F, [F; DG]> = MerkleCap::new(roots.iter().map(|r| to_arr::<F, DG>(r)).collect());
        let rows: Vec<Vec<L>> = op.rows.iter().map(|r| leaves_of::<F, L>(r)).collect();
        let proof = <M::Proof as ProofParts<F, DG>>::join(
            op.salts.clone(),
            op.siblings.iter().map(|s| to_arr::<F, DG>(s)).collect(),
        );
        self.mmcs
            .verify_batch(&commit, &self.dims, index, BatchOpeningRef::new(&rows, &proof))
            .map_err(|e| format!("{e:?}"))
    }

    fn set_private(
        &self,
        runner: &mut CircuitRunner<'_, EF>,
        op_ids: &[NonPrimitiveOpId],
        op: &Opening<F>,
    ) -> Result<(), String> {
        (self.set_priv)(runner, op_ids, op.siblings.iter().map(|s| to_arr::<F, DG>(s)).collect())
            .map_err(|e| e.to_string())
    }
}

// ------------------------------------------------------------------------------------------
// Circuit side
// ------------------------------------------------------------------------------------------

struct Built<EF> {
    circuit: Circuit<EF>,
    op_ids: Vec<NonPrimitiveOpId>,
    nbits: usize,
}

fn max_height(shape: &Shape) -> usize {
    shape.dims.iter().map(|d| d.0).max().unwrap()
}

/// Are cap entries / digests packed `D` words per target (true) or one lifted word per target?
fn packs_digests<F: Field, EF: ExtensionField<F>>(cfg: PermConfig) -> bool {
    !(cfg.d() == 1 && <EF as BasedVectorSpace<F>>::DIMENSION > 1)
}

fn cap_chunk(cfg: PermConfig) -> usize {
    if cfg.is_arity4_shape() { cfg.capacity_ext() } else { cfg.rate_ext() }
}

fn build_circuit<F, EF>(env: &Env<'_, EF>, n_roots: usize) -> Result<Built<EF>, String>
where
    F: PrimeField64 + TwoAdicField,
    EF: ExtensionField<F>,
{
    let shape = env.shape;
    let mut b = CircuitBuilder::<EF>::new();
    (env.enable)(&mut b);
    b.enable_recompose::<F>(generate_recompose_trace::<F, EF>);
    let dims: Vec<Dimensions> = shape.dims.iter().map(|&(h, w)| Dimensions { height: h, width: w }).collect();
    let opened: Vec<Vec<ExprId>> = shape.dims.iter().map(|&(_, w)| b.alloc_public_inputs(w, "opened row")).collect();
    let nbits = p3_util::log2_ceil_usize(max_height(shape));
    let bits = b.alloc_public_inputs(nbits, "index bits");
    let chunk = cap_chunk(env.perm_cfg);
    let cap: Vec<Vec<ExprId>> = (0..n_roots).map(|_| b.alloc_public_inputs(chunk, "cap entry")).collect();
    let salts: Option<Vec<Vec<ExprId>>> = shape
        .hiding
        .then(|| dims.iter().map(|_| b.alloc_private_inputs(SALT, "hiding MMCS leaf salt")).collect());
    let cfg = env.perm_cfg;
    let r = guarded(|| match (env.arity4, shape.ext_leaves) {
        (false, false) => verify_batch_circuit::<F, EF>(&mut b, cfg, &cap, &dims, &bits, &opened, salts.as_deref()),
        (false, true) => {
            verify_batch_circuit_from_extension_opened::<F, EF>(&mut b, cfg, &cap, &dims, &bits, &opened, salts.as_deref())
        }
        (true, false) => verify_batch_circuit_arity4::<F, EF>(&mut b, cfg, &cap, &dims, &bits, &opened),
        (true, true) => verify_batch_circuit_from_extension_opened_arity4::<F, EF>(&mut b, cfg, &cap, &dims, &bits, &opened),
    });
    let op_ids = match r {
        Ok(Ok(ids)) => ids,
        Ok(Err(e)) => return Err(format!("verify-fn-error: {e:?}")),
        Err(p) => return Err(format!("verify-fn-panic: {p}")),
    };
    let circuit = match guarded(|| b.build()) {
        Ok(Ok(c)) => c,
        Ok(Err(e)) => return Err(format!("build-error: {e:?}")),
        Err(p) => return Err(format!("build-panic: {p}")),
    };
    Ok(Built { circuit, op_ids, nbits })
}

#[derive(Clone, Debug, PartialEq)]
enum CircuitVerdict {
    Accept,
    /// `run()` returned `Err`; the string is the error variant name.
    Reject(String),
    /// Repo code panicked while running.
    Panic(String),
    /// The sibling private data could not be attached (shape mismatch reported by the setter).
    PrivateDataRefused(String),
}

fn err_variant(s: &str) -> String {
    s.split(|c: char| !c.is_alphanumeric()).next().unwrap_or("Err").to_string()
}

fn run_circuit<F, EF, L, M, const DG: usize>(
    env: &Env<'_, EF>,
    built: &Built<EF>,
    side: &Side<F, EF, L, M, DG>,
    roots: &[Vec<F>],
    index: usize,
    op: &Opening<F>,
) -> Result<CircuitVerdict, String>
where
    F: PrimeField64 + TwoAdicField,
    EF: ExtensionField<F>,
    L: ExtensionField<F>,
    M: Mmcs<L, Commitment = MerkleCap<F, [F; DG]>>,
    M::Proof: ProofParts<F, DG>,
{
    let d = <EF as BasedVectorSpace<F>>::DIMENSION;
    let pack = |w: &[F]| <EF as BasedVectorSpace<F>>::from_basis_coefficients_slice(w).expect("pack");
    let mut publics: Vec<EF> = Vec::new();
    for row in &op.rows {
        if env.shape.ext_leaves {
            publics.extend(row.chunks(d).map(pack));
        } else {
            publics.extend(row.iter().map(|&w| EF::from(w)));
        }
    }
    publics.extend((0..built.nbits).map(|k| EF::from_bool((index >> k) & 1 == 1)));
    let packed = packs_digests::<F, EF>(env.perm_cfg);
    for r in roots {
        if packed {
            publics.extend(r.chunks(d).map(pack));
        } else {
            publics.extend(r.iter().map(|&w| EF::from(w)));
        }
    }
    let privates: Vec<EF> = op.salts.iter().flatten().map(|&w| EF::from(w)).collect();

    let mut runner = built.circuit.runner();
    runner.set_public_inputs(&publics).map_err(|e| format!("set_public_inputs: {e:?}"))?;
    if built.circuit.private_flat_len > 0 || !privates.is_empty() {
        runner.set_private_inputs(&privates).map_err(|e| format!("set_private_inputs: {e:?}"))?;
    }
    match guarded(|| side.set_private(&mut runner, &built.op_ids, op)) {
        Ok(Ok(())) => {}
        Ok(Err(e)) => return Ok(CircuitVerdict::PrivateDataRefused(e)),
        Err(p) => return Ok(CircuitVerdict::Panic(format!("set-private: {p}"))),
    }
    Ok(match guarded(move || runner.run()) {
        Ok(Ok(_)) => CircuitVerdict::Accept,
        Ok(Err(e)) => CircuitVerdict::Reject(err_variant(&format!("{e:?}"))),
        Err(p) => CircuitVerdict::Panic(p),
    })
}

// ------------------------------------------------------------------------------------------
// Alterations
// ------------------------------------------------------------------------------------------

fn apply_alt<F: Field>(
    alt: &Alt,
    shape: &Shape,
    index: usize,
    roots: &[Vec<F>],
    op: &Opening<F>,
) -> Option<(usize, Vec<Vec<F>>, Opening<F>)> {
    let mut idx = index;
    let mut roots = roots.to_vec();
    let mut op = op.clone();
    match *alt {
        Alt::Honest => {}
        Alt::Leaf { mat, word, delta } => *op.rows.get_mut(mat)?.get_mut(word)? += F::from_u64(delta),
        Alt::Sibling { sib, word, delta } => *op.siblings.get_mut(sib)?.get_mut(word)? += F::from_u64(delta),
        Alt::IndexBit { bit } => idx ^= 1 << bit,
        Alt::Cap { entry, word, delta } => *roots.get_mut(entry)?.get_mut(word)? += F::from_u64(delta),
        Alt::Salt { mat, word, delta } => *op.salts.get_mut(mat)?.get_mut(word)? += F::from_u64(delta),
        Alt::Swap { a, b } => {
            if a >= b || b >= op.rows.len() || shape.dims[a].0 != shape.dims[b].0 {
                return None;
            }
            if op.rows[a].len() == op.rows[b].len() {
                op.rows.swap(a, b);
            } else {
                // rows of different width: exchange the two streams and re-split at the
                // original widths (the circuit shape is fixed by the dimensions).
                let (la, lb) = (op.rows[a].len(), op.rows[b].len());
                let stream: Vec<F> = op.rows[b].iter().chain(op.rows[a].iter()).copied().collect();
                op.rows[a] = stream[..la].to_vec();
                op.rows[b] = stream[la..la + lb].to_vec();
            }
        }
    }
    Some((idx, roots, op))
}

fn pick_delta(rng: &mut SmallRng) -> u64 {
    if rng.random_range(0..2u32) == 0 { 1 } else { rng.random_range(1..2_000_000_000u64) }
}

/// Choose `k` of `n` positions, rotating with `rot` so that successive indices of one
/// dimension vector cover all positions (all positions when `k >= n`).
fn rotating(n: usize, k: usize, rot: usize) -> Vec<usize> {
    if n == 0 {
        return vec![];
    }
    if k >= n {
        return (0..n).collect();
    }
    (0..k).map(|j| (rot * k + j) % n).collect()
}

struct Quota {
    leaf: usize,
    sib: usize,
    cap: usize,
    salt: usize,
    swap: usize,
}

#[allow(clippy::too_many_arguments)]
fn enumerate_alts<F: Field>(
    rng: &mut SmallRng,
    shape: &Shape,
    op: &Opening<F>,
    n_roots: usize,
    dg: usize,
    nbits: usize,
    selected_cap: Option<usize>,
    q: &Quota,
    rot: usize,
) -> Vec<Alt> {
    let mut out = vec![];
    for bit in 0..nbits {
        out.push(Alt::IndexBit { bit });
    }
    let leaf_pos: Vec<(usize, usize)> =
        op.rows.iter().enumerate().flat_map(|(m, r)| (0..r.len()).map(move |w| (m, w))).collect();
    for p in rotating(leaf_pos.len(), q.leaf, rot) {
        let (mat, word) = leaf_pos[p];
        out.push(Alt::Leaf { mat, word, delta: pick_delta(rng) });
    }
    let sib_pos: Vec<(usize, usize)> =
        (0..op.siblings.len()).flat_map(|s| (0..dg).map(move |w| (s, w))).collect();
    for p in rotating(sib_pos.len(), q.sib, rot) {
        let (sib, word) = sib_pos[p];
        out.push(Alt::Sibling { sib, word, delta: pick_delta(rng) });
    }
    // cap words: the selected entry first, then the others
    if let Some(sel) = selected_cap {
        for w in rotating(dg, q.cap.div_ceil(2), rot) {
            out.push(Alt::Cap { entry: sel, word: w, delta: pick_delta(rng) });
        }
        let others: Vec<(usize, usize)> =
            (0..n_roots).filter(|e| *e != sel).flat_map(|e| (0..dg).map(move |w| (e, w))).collect();
        for p in rotating(others.len(), q.cap / 2, rot) {
            let (entry, word) = others[p];
            out.push(Alt::Cap { entry, word, delta: pick_delta(rng) });
        }
    } else {
        let all: Vec<(usize, usize)> = (0..n_roots).flat_map(|e| (0..dg).map(move |w| (e, w))).collect();
        for p in rotating(all.len(), q.cap, rot) {
            let (entry, word) = all[p];
            out.push(Alt::Cap { entry, word, delta: pick_delta(rng) });
        }
    }
    let salt_pos: Vec<(usize, usize)> =
        op.salts.iter().enumerate().flat_map(|(m, r)| (0..r.len()).map(move |w| (m, w))).collect();
    for p in rotating(salt_pos.len(), q.salt, rot) {
        let (mat, word) = salt_pos[p];
        out.push(Alt::Salt { mat, word, delta: pick_delta(rng) });
    }
    let mut pairs = vec![];
    for a in 0..shape.dims.len() {
        for b in a + 1..shape.dims.len() {
            if shape.dims[a].0 == shape.dims[b].0 && (shape.dims[a].1 == shape.dims[b].1 || !shape.hiding) {
                pairs.push((a, b));
            }
        }
    }
    for p in rotating(pairs.len(), q.swap, rot) {
        out.push(Alt::Swap { a: pairs[p].0, b: pairs[p].1 });
    }
    out
}

// ------------------------------------------------------------------------------------------
// Shape classes
// ------------------------------------------------------------------------------------------

fn heights_class(shape: &Shape) -> &'static str {
    let hs: BTreeSet<usize> = shape.dims.iter().map(|d| d.0).collect();
    if hs.iter().any(|h| !h.is_power_of_two()) {
        if hs.len() == 1 { "npo2-equal-heights" } else { "npo2-mixed-heights" }
    } else if shape.dims.len() == 1 {
        "single-matrix"
    } else if hs.len() == 1 {
        "equal-heights"
    } else if hs.len() == shape.dims.len() {
        "mixed-heights"
    } else {
        "mixed+equal-heights"
    }
}

/// Total leaf words (incl. salt) per height group.
fn group_words(shape: &Shape, leaf_dim: usize) -> BTreeMap<usize, usize> {
    let mut g = BTreeMap::new();
    for &(h, w) in &shape.dims {
        *g.entry(h).or_insert(0) += w * leaf_dim + if shape.hiding { SALT } else { 0 };
    }
    g
}

fn align_class(shape: &Shape, leaf_dim: usize, rate: usize) -> &'static str {
    if group_words(shape, leaf_dim).values().all(|t| t % rate == 0) {
        "width-rate-aligned"
    } else {
        "width-not-rate-aligned"
    }
}

/// `path_slots` = number of sibling slots of the in-circuit path (None when the circuit could not be built).
fn cap_class(n_roots: usize, path_slots: Option<usize>) -> &'static str {
    if n_roots == 1 {
        "cap0"
    } else if path_slots == Some(0) {
        "full-cap"
    } else {
        "cap>0"
    }
}

fn index_class(index: usize, max_h: usize) -> String {
    if index == 0 {
        "first".into()
    } else if index == max_h - 1 {
        "last".into()
    } else {
        format!("mid{}", index & 3)
    }
}

// ------------------------------------------------------------------------------------------
// Driver for one dimension vector
// ------------------------------------------------------------------------------------------

fn drive<F, EF, L, M, const DG: usize>(mmcs: M, set_priv: SetPriv<F, EF, DG>, env: &Env<'_, EF>) -> Vec<CaseResult>
where
    F: PrimeField64 + TwoAdicField,
    EF: ExtensionField<F>,
    L: ExtensionField<F>,
    M: Mmcs<L, Commitment = MerkleCap<F, [F; DG]>>,
    M::Proof: ProofParts<F, DG>,
{
    let shape = env.shape;
    let leaf_dim = <L as BasedVectorSpace<F>>::DIMENSION;
    let arity = if env.arity4 { 4 } else { 2 };
    let hid = if shape.hiding { "hiding" } else { "plain" };
    let leaf = if shape.ext_leaves { "ext-leaves" } else { "base-leaves" };
    let vkey = format!(
        "{}|{:?}|cap{}|{}|{}",
        shape.config, shape.dims, shape.cap_height, hid, leaf
    );

    let side = match guarded(|| Side::<F, EF, L, M, DG>::new(mmcs, shape, set_priv)) {
        Ok(s) => s,
        Err(p) => {
            // e.g. non-power-of-two heights with a cap layer whose width is not a power of two:
            // upstream MerkleCap::new refuses it, so there is no native commitment to compare with.
            let msg: String = p.split(" @ ").next().unwrap_or("").chars().take(70).collect();
            return vec![CaseResult::inconclusive(vkey, format!("native commit panicked: {msg}"))];
        }
    };
    let roots = side.roots();
    let n_roots = roots.len();
    let max_h = max_height(shape);
    let built = build_circuit::<F, EF>(env, n_roots);
    let shape_class = format!(
        "{}+{}+{}",
        heights_class(shape),
        align_class(shape, leaf_dim, env.perm_cfg.rate()),
        cap_class(n_roots, built.as_ref().ok().map(|b| b.op_ids.len()))
    );
    let sig_tail = format!("arity{arity}/{hid}/{leaf}/{shape_class}");
    let detail = |index: usize, alt: &Alt, extra: Value| -> Value {
        json!({"shape": shape, "index": index, "alt": alt, "arity": arity, "n_roots": n_roots,
               "shape_class": shape_class, "extra": extra})
    };
    let built = match built {
        Ok(b) => b,
        Err(e) => {
            // The native MMCS committed to this shape, so the circuit refusing it is a completeness gap.
            return vec![CaseResult::violated(
                format!("{vkey}|build"),
                format!("completeness/circuit-build-refused/{}/{sig_tail}", err_variant(&e)),
                detail(0, &Alt::Honest, json!({"build_error": e})),
            )];
        }
    };

    // observations about the shape
    observe("configs", shape.config.clone());
    observe("variants", format!("{}/arity{arity}/{hid}/{leaf}", shape.config));
    observe("shape-classes", format!("arity{arity}/{hid}/{leaf}/{shape_class}"));
    observe("num-matrices", shape.dims.len().to_string());
    observe("cap-sizes", format!("arity{arity}/roots{n_roots}/maxh{max_h}"));
    let gw = group_words(shape, leaf_dim);
    let rate = env.perm_cfg.rate();
    if gw.values().any(|t| *t > rate) {
        observe("leaf-hash-shapes", "multi-chunk");
    }
    if gw.values().any(|t| *t <= rate) {
        observe("leaf-hash-shapes", "single-chunk");
    }
    if gw.values().any(|t| t % env.perm_cfg.d().max(1) != 0) {
        observe("leaf-hash-shapes", "partial-ext-limb");
    }
    if env.arity4 {
        // step structure as seen from the op-id list (3 repeats = step 4, 1 = step-2 bridge)
        let mut runs = vec![];
        let mut i = 0;
        while i < built.op_ids.len() {
            let mut j = i;
            while j < built.op_ids.len() && built.op_ids[j] == built.op_ids[i] {
                j += 1;
            }
            runs.push(j - i + 1);
            i = j;
        }
        observe("arity4-schedules", format!("{runs:?}"));
    } else {
        observe("arity2-path-depths", built.op_ids.len().to_string());
    }

    let (indices, replay_alt): (Vec<usize>, Option<Alt>) = match env.mode {
        Mode::Explore => ((0..max_h).collect(), None),
        Mode::Replay { index, alt } => (vec![*index], Some(alt.clone())),
    };
    let quota = match env.tier {
        Tier::Quick => Quota { leaf: 3, sib: 3, cap: 2, salt: 2, swap: 2 },
        Tier::Thorough => Quota { leaf: 8, sib: 8, cap: 4, salt: 4, swap: 4 },
    };

    // aggregated held results: key -> (count per counter)
    let mut held: BTreeMap<String, BTreeMap<String, u64>> = BTreeMap::new();
    let mut out: Vec<CaseResult> = vec![];
    let mut viol_per_sig: BTreeMap<String, usize> = BTreeMap::new();
    let mut push_violation = |out: &mut Vec<CaseResult>, key: String, sig: String, d: Value| {
        let n = viol_per_sig.entry(sig.clone()).or_default();
        *n += 1;
        if *n <= 3 {
            out.push(CaseResult::violated(key, sig, d));
        }
    };
    let mut n_indices = 0u64;

    for &index in &indices {
        let iclass = index_class(index, max_h);
        let op = match guarded(|| side.open(index)) {
            Ok(o) => o,
            Err(p) => {
                out.push(CaseResult::inconclusive(format!("{vkey}|{index}"), format!("native open panicked: {}", panic_site(&p))));
                continue;
            }
        };
        // ---- honest opening: both must accept
        let nat = guarded(|| side.verify(&roots, index, &op));
        match nat {
            Ok(Ok(())) => {}
            other => {
                out.push(CaseResult::inconclusive(
                    format!("{vkey}|{index}|honest"),
                    format!("native verifier did not accept its own opening: {other:?}").chars().take(160).collect::<String>(),
                ));
                continue;
            }
        }
        let cv = match run_circuit(env, &built, &side, &roots, index, &op) {
            Ok(v) => v,
            Err(e) => {
                out.push(CaseResult::inconclusive(format!("{vkey}|{index}|honest"), format!("harness: {}", err_variant(&e))));
                continue;
            }
        };
        n_indices += 1;
        if cv != CircuitVerdict::Accept {
            let sig = match &cv {
                CircuitVerdict::Reject(v) => format!("completeness/honest/run-err-{v}/{sig_tail}"),
                CircuitVerdict::Panic(p) => format!("completeness/honest/panic-{}/{sig_tail}", panic_site(p)),
                // The circuit's Merkle path has a different number of sibling slots than the native
                // proof: a function of (heights, cap, arity) only, so the signature leaves out the
                // leaf field / width classes.
                CircuitVerdict::PrivateDataRefused(_) => {
                    // Known trigger class: arity-4 tree whose cap layer is the logical-width-2 layer
                    // (padded to 4 entries) reached by a step-2 bridge from a width-4 layer, i.e. a
                    // height-2 matrix under a taller one with cap_height 1.
                    let cap_layer_w2 = env.arity4
                        && n_roots == 4
                        && shape.cap_height == 1
                        && max_h >= 3
                        && shape.dims.iter().any(|d| d.0 == 2);
                    format!(
                        "completeness/honest/path-shape-mismatch/arity{arity}/{}{}",
                        if op.siblings.len() > built.op_ids.len() { "native-path-longer" } else { "circuit-path-longer" },
                        if cap_layer_w2 { "/cap-layer-logical-width-2" } else { "" }
                    )
                }
                CircuitVerdict::Accept => unreachable!(),
            };
            push_violation(
                &mut out,
                format!("{vkey}|{iclass}|honest"),
                sig,
                detail(
                    index,
                    &Alt::Honest,
                    json!({"native": "accept", "circuit": format!("{cv:?}"),
                           "native_siblings": op.siblings.len(), "circuit_sibling_slots": built.op_ids.len()}),
                ),
            );
            continue;
        }
        *held.entry(format!("{vkey}|{iclass}|honest")).or_default().entry("alt/honest".into()).or_default() += 1;

        // ---- which cap entry does the native verifier look at?
        let selected_cap = if n_roots > 1 {
            (0..n_roots).find(|&e| {
                let mut r2 = roots.clone();
                r2[e][0] += F::ONE;
                matches!(guarded(|| side.verify(&r2, index, &op)), Ok(Err(_)))
            })
        } else {
            Some(0)
        };

        let alts: Vec<Alt> = match &replay_alt {
            Some(a) => vec![a.clone()],
            None => {
                let mut rng = case_rng(env.seed, "c08-alt", (env.vec_idx as u64) << 8 | index as u64);
                enumerate_alts(&mut rng, shape, &op, n_roots, DG, built.nbits, selected_cap, &quota, index)
            }
        };
        for alt in alts {
            if alt == Alt::Honest {
                continue;
            }
            let Some((idx2, roots2, op2)) = apply_alt(&alt, shape, index, &roots, &op) else {
                out.push(CaseResult::inconclusive(format!("{vkey}|{index}|{}", alt.kind()), "alteration not applicable"));
                continue;
            };
            let nat = match guarded(|| side.verify(&roots2, idx2, &op2)) {
                Ok(r) => r,
                Err(p) => {
                    out.push(CaseResult::inconclusive(
                        format!("{vkey}|{index}|{}", alt.kind()),
                        format!("native verifier panicked: {}", panic_site(&p)),
                    ));
                    continue;
                }
            };
            let cv = match run_circuit(env, &built, &side, &roots2, idx2, &op2) {
                Ok(v) => v,
                Err(e) => {
                    out.push(CaseResult::inconclusive(format!("{vkey}|{index}|{}", alt.kind()), format!("harness: {}", err_variant(&e))));
                    continue;
                }
            };
            let key = format!("{vkey}|{iclass}|{}", alt.kind());
            let native_accepts = nat.is_ok();
            let d = || {
                detail(
                    index,
                    &alt,
                    json!({"native": match &nat { Ok(()) => "accept".to_string(), Err(e) => format!("reject: {e}") },
                           "circuit": format!("{cv:?}"), "selected_cap_entry": selected_cap}),
                )
            };
            let mut counters: Vec<String> = vec![format!("alt/{}", alt.kind())];
            match (&cv, native_accepts) {
                (CircuitVerdict::Accept, true) => {
                    counters.push(format!("agree-accept/{}", alt.kind()));
                    // Why did BOTH accept an altered opening? Expected reasons only: the word lies in a
                    // cap entry that is not the selected one, or in a matrix shorter than the cap layer
                    // (never hashed by either verifier). Anything else is tagged "(!)".
                    let above_cap = |m: usize| shape.dims[m].0.next_power_of_two() < n_roots;
                    let why = match &alt {
                        Alt::Cap { entry, .. } if Some(*entry) != selected_cap => "cap-word:unselected-entry".to_string(),
                        Alt::Leaf { mat, .. } if above_cap(*mat) => "leaf-value:matrix-shorter-than-cap-layer".to_string(),
                        Alt::Salt { mat, .. } if above_cap(*mat) => "salt-word:matrix-shorter-than-cap-layer".to_string(),
                        Alt::Swap { a, b } if above_cap(*a) && above_cap(*b) => {
                            "swap-rows:matrices-shorter-than-cap-layer".to_string()
                        }
                        other => format!("{}:unexplained(!)", other.kind()),
                    };
                    observe("both-accept-explanations", why);
                }
                (CircuitVerdict::Reject(v), false) => {
                    counters.push(format!("agree-reject/{}", alt.kind()));
                    observe("circuit-reject-errors", v.clone());
                    if let Err(e) = &nat {
                        observe("native-reject-errors", err_variant(e));
                    }
                }
                (CircuitVerdict::Panic(p), false) => {
                    counters.push("circuit-panic-counted-as-reject".into());
                    observe("circuit-panics-on-rejected-openings", panic_site(p));
                }
                (CircuitVerdict::Accept, false) => {
                    push_violation(&mut out, key.clone(), format!("soundness/{}/{sig_tail}", alt.kind()), d());
                    continue;
                }
                (CircuitVerdict::Reject(v), true) => {
                    push_violation(&mut out, key.clone(), format!("completeness/{}/run-err-{v}/{sig_tail}", alt.kind()), d());
                    continue;
                }
                (CircuitVerdict::Panic(p), true) => {
                    push_violation(
                        &mut out,
                        key.clone(),
                        format!("completeness/{}/panic-{}/{sig_tail}", alt.kind(), panic_site(p)),
                        d(),
                    );
                    continue;
                }
                (CircuitVerdict::PrivateDataRefused(_), _) => {
                    out.push(CaseResult::inconclusive(key, "private data refused for an altered opening of unchanged shape"));
                    continue;
                }
            }
            let e = held.entry(key).or_default();
            for c in counters {
                *e.entry(c).or_default() += 1;
            }
        }
    }

    let mut first = true;
    for (key, counters) in held {
        let mut r = CaseResult::held(key, true);
        for (c, n) in counters {
            r = r.count(c, n);
        }
        if first {
            r = r.count("dimension-vectors", 1).count("indices-opened", n_indices);
            r = r.count(format!("vectors/{}", shape.config), 1);
            if env.vec_idx < 6 {
                r = r.with_sample(json!({"shape": shape, "arity": arity, "n_roots": n_roots,
                    "index_bits": built.nbits, "mmcs_op_ids": built.op_ids.len(), "shape_class": shape_class,
                    "indices": n_indices}));
            }
            first = false;
        }
        out.push(r);
    }
    out
}

// ------------------------------------------------------------------------------------------
// Configurations
// ------------------------------------------------------------------------------------------

fn dummy_fri_proof_input<F, EF, FM, IM>(proof: IM::Proof) -> FriProof<EF, FM, F, Vec<BatchOpening<F, IM>>>
where
    F: Field,
    EF: ExtensionField<F>,
    FM: Mmcs<EF>,
    IM: Mmcs<F>,
{
    FriProof {
        commit_phase_commits: vec![],
        commit_pow_witnesses: vec![],
        query_proofs: vec![QueryProof {
            input_proof: vec![BatchOpening::new(vec![], proof)],
            commit_phase_openings: vec![],
        }],
        final_poly: vec![],
        query_pow_witness: F::ZERO,
    }
}

fn dummy_fri_proof_commit<F, EF, FM, IM>(proof: FM::Proof) -> FriProof<EF, FM, F, Vec<BatchOpening<F, IM>>>
where
    F: Field,
    EF: ExtensionField<F>,
    FM: Mmcs<EF>,
    IM: Mmcs<F>,
{
    FriProof {
        commit_phase_commits: vec![],
        commit_pow_witnesses: vec![],
        query_proofs: vec![QueryProof {
            input_proof: vec![],
            commit_phase_openings: vec![CommitPhaseProofStep { log_arity: 1, sibling_values: vec![], opening_proof: proof }],
        }],
        final_poly: vec![],
        query_pow_witness: F::ZERO,
    }
}

type RunFn = fn(&Shape, &Mode, Tier, u64, usize) -> Vec<CaseResult>;

macro_rules! cfg_arity2 {
    ($m:ident, $F:ty, $EF:ty, $Perm:ty, $perm:expr, $W:expr, $RATE:expr, $DG:expr, $pcfg:expr, $enable:expr) => {
        mod $m {
            use super::*;
            pub type F = $F;
            pub type EF = $EF;
            type Perm = $Perm;
            const DG: usize = $DG;
            type H = PaddingFreeSponge<Perm, $W, $RATE, $DG>;
            type C = TruncatedPermutation<Perm, 2, $DG, $W>;
            type P = <F as Field>::Packing;
            type Val = MerkleTreeMmcs<P, P, H, C, 2, $DG>;
            type Ext = ExtensionMmcs<F, EF, Val>;
            type HVal = MerkleTreeHidingMmcs<P, P, H, C, SmallRng, 2, $DG, SALT>;
            type HExt = ExtensionMmcs<F, EF, HVal>;

            fn pcfg() -> PermConfig {
                ($pcfg).into()
            }
            fn sp_base(r: &mut CircuitRunner<'_, EF>, ids: &[NonPrimitiveOpId], s: Vec<[F; DG]>) -> Result<(), &'static str> {
                let p = dummy_fri_proof_input::<F, EF, Ext, Val>(s);
                set_fri_mmcs_private_data::<F, EF, Ext, Val, H, C, DG>(r, ids, &p, pcfg())
            }
            fn sp_ext(r: &mut CircuitRunner<'_, EF>, ids: &[NonPrimitiveOpId], s: Vec<[F; DG]>) -> Result<(), &'static str> {
                let p = dummy_fri_proof_commit::<F, EF, Ext, Val>(s);
                set_fri_mmcs_private_data::<F, EF, Ext, Val, H, C, DG>(r, ids, &p, pcfg())
            }
            fn sp_hbase(r: &mut CircuitRunner<'_, EF>, ids: &[NonPrimitiveOpId], s: Vec<[F; DG]>) -> Result<(), &'static str> {
                let p = dummy_fri_proof_input::<F, EF, HExt, HVal>((vec![], s));
                set_salted_fri_mmcs_private_data::<F, EF, HExt, HVal, DG>(r, ids, &p, pcfg())
            }
            fn sp_hext(r: &mut CircuitRunner<'_, EF>, ids: &[NonPrimitiveOpId], s: Vec<[F; DG]>) -> Result<(), &'static str> {
                let p = dummy_fri_proof_commit::<F, EF, HExt, HVal>((vec![], s));
                set_salted_fri_mmcs_private_data::<F, EF, HExt, HVal, DG>(r, ids, &p, pcfg())
            }

            pub fn run(shape: &Shape, mode: &Mode, tier: Tier, seed: u64, vec_idx: usize) -> Vec<CaseResult> {
                let perm: Perm = $perm;
                let (h, c) = (H::new(perm.clone()), C::new(perm.clone()));
                let en: fn(&mut CircuitBuilder<EF>, Perm) = $enable;
                let enable = |b: &mut CircuitBuilder<EF>| en(b, perm.clone());
                let env = Env { shape, perm_cfg: pcfg(), arity4: false, enable: &enable, mode, tier, seed, vec_idx };
                let salt_rng = SmallRng::seed_from_u64(shape.mat_seed ^ 0x5a17);
                let cap = shape.cap_height;
                match (shape.hiding, shape.ext_leaves) {
                    (false, false) => drive::<F, EF, F, Val, DG>(Val::new(h, c, cap), sp_base, &env),
                    (false, true) => drive::<F, EF, EF, Ext, DG>(Ext::new(Val::new(h, c, cap)), sp_ext, &env),
                    (true, false) => drive::<F, EF, F, HVal, DG>(HVal::new(h, c, cap, salt_rng), sp_hbase, &env),
                    (true, true) => drive::<F, EF, EF, HExt, DG>(HExt::new(HVal::new(h, c, cap, salt_rng)), sp_hext, &env),
                }
            }
        }
    };
}

macro_rules! cfg_arity4 {
    ($m:ident, $F:ty, $EF:ty, $Perm:ty, $perm:expr, $W:expr, $RATE:expr, $DG:expr, $pcfg:expr, $enable:expr) => {
        mod $m {
            use super::*;
            pub type F = $F;
            pub type EF = $EF;
            type Perm = $Perm;
            const DG: usize = $DG;
            type H = PaddingFreeSponge<Perm, $W, $RATE, $DG>;
            type C = TruncatedPermutation<Perm, 4, $DG, $W>;
            type P = <F as Field>::Packing;
            type Val = MerkleTreeMmcs<P, P, H, C, 4, $DG>;
            type Ext = ExtensionMmcs<F, EF, Val>;

            fn pcfg() -> PermConfig {
                ($pcfg).into()
            }
            fn sp_base(r: &mut CircuitRunner<'_, EF>, ids: &[NonPrimitiveOpId], s: Vec<[F; DG]>) -> Result<(), &'static str> {
                let p = dummy_fri_proof_input::<F, EF, Ext, Val>(s);
                set_fri_mmcs_private_data_arity4::<F, EF, Ext, Val, DG>(r, ids, &p, pcfg())
            }
            fn sp_ext(r: &mut CircuitRunner<'_, EF>, ids: &[NonPrimitiveOpId], s: Vec<[F; DG]>) -> Result<(), &'static str> {
                let p = dummy_fri_proof_commit::<F, EF, Ext, Val>(s);
                set_fri_mmcs_private_data_arity4::<F, EF, Ext, Val, DG>(r, ids, &p, pcfg())
            }

            pub fn run(shape: &Shape, mode: &Mode, tier: Tier, seed: u64, vec_idx: usize) -> Vec<CaseResult> {
                let perm: Perm = $perm;
                let (h, c) = (H::new(perm.clone()), C::new(perm.clone()));
                let en: fn(&mut CircuitBuilder<EF>, Perm) = $enable;
                let enable = |b: &mut CircuitBuilder<EF>| en(b, perm.clone());
                let env = Env { shape, perm_cfg: pcfg(), arity4: true, enable: &enable, mode, tier, seed, vec_idx };
                let cap = shape.cap_height;
                if shape.ext_leaves {
                    drive::<F, EF, EF, Ext, DG>(Ext::new(Val::new(h, c, cap)), sp_ext, &env)
                } else {
                    drive::<F, EF, F, Val, DG>(Val::new(h, c, cap), sp_base, &env)
                }
            }
        }
    };
}

fn gl_perm<const W: usize>() -> p3_goldilocks::Poseidon2Goldilocks<W> {
    let mut rng = SmallRng::seed_from_u64(1);
    p3_goldilocks::Poseidon2Goldilocks::<W>::new_from_rng_128(&mut rng)
}

type Bb = p3_baby_bear::BabyBear;
type Kb = p3_koala_bear::KoalaBear;
type Gl = p3_goldilocks::Goldilocks;

// ---- arity 2, Poseidon2
cfg_arity2!(
    bb_p2_d4_w16, Bb, BinomialExtensionField<Bb, 4>, p3_baby_bear::Poseidon2BabyBear<16>,
    p3_baby_bear::default_babybear_poseidon2_16(), 16, 8, 8, Poseidon2Config::BABY_BEAR_D4_W16,
    |b, perm| b.enable_poseidon2_perm::<p3_poseidon2_circuit_air::BabyBearD4Width16, _>(
        generate_poseidon2_trace::<EF, p3_poseidon2_circuit_air::BabyBearD4Width16>, perm)
);
cfg_arity2!(
    kb_p2_d4_w16, Kb, BinomialExtensionField<Kb, 4>, p3_koala_bear::Poseidon2KoalaBear<16>,
    p3_koala_bear::default_koalabear_poseidon2_16(), 16, 8, 8, Poseidon2Config::KOALA_BEAR_D4_W16,
    |b, perm| b.enable_poseidon2_perm::<p3_poseidon2_circuit_air::KoalaBearD4Width16, _>(
        generate_poseidon2_trace::<EF, p3_poseidon2_circuit_air::KoalaBearD4Width16>, perm)
);
cfg_arity2!(
    gl_p2_d2_w8, Gl, BinomialExtensionField<Gl, 2>, p3_goldilocks::Poseidon2Goldilocks<8>,
    gl_perm::<8>(), 8, 4, 4, Poseidon2Config::GOLDILOCKS_D2_W8,
    |b, perm| b.enable_poseidon2_perm_width_8::<p3_circuit::ops::GoldilocksD2Width8, _>(
        generate_poseidon2_trace::<EF, p3_circuit::ops::GoldilocksD2Width8>, perm)
);
cfg_arity2!(
    kb_p2_d1_w16_quintic, Kb, QuinticTrinomialExtensionField<Kb>, p3_koala_bear::Poseidon2KoalaBear<16>,
    p3_koala_bear::default_koalabear_poseidon2_16(), 16, 8, 8, Poseidon2Config::KOALA_BEAR_D1_W16,
    |b, perm| b.enable_poseidon2_perm_base::<p3_circuit::ops::KoalaBearD1Width16, _>(
        generate_poseidon2_trace::<EF, p3_circuit::ops::KoalaBearD1Width16>,
        LiftPermToQuintic::<F, Perm, 16>::new(perm))
);
cfg_arity2!(
    bb_p2_d1_w16_base, Bb, Bb, p3_baby_bear::Poseidon2BabyBear<16>,
    p3_baby_bear::default_babybear_poseidon2_16(), 16, 8, 8, Poseidon2Config::BABY_BEAR_D1_W16,
    |b, perm| b.enable_poseidon2_perm_base::<p3_circuit::ops::BabyBearD1Width16, _>(
        generate_poseidon2_trace::<EF, p3_circuit::ops::BabyBearD1Width16>, perm)
);
// ---- arity 2, Poseidon1
cfg_arity2!(
    kb_p1_d1_w16_quintic, Kb, QuinticTrinomialExtensionField<Kb>, p3_koala_bear::Poseidon1KoalaBear<16>,
    p3_koala_bear::default_koalabear_poseidon1_16(), 16, 8, 8, Poseidon1Config::KOALA_BEAR_D1_W16,
    |b, perm| b.enable_poseidon1_perm_base::<p3_circuit::ops::poseidon1_perm::KoalaBearD1Width16, _>(
        generate_poseidon1_trace::<EF, p3_circuit::ops::poseidon1_perm::KoalaBearD1Width16>,
        LiftPermToQuintic::<F, Perm, 16>::new(perm))
);
cfg_arity2!(
    bb_p1_d4_w16, Bb, BinomialExtensionField<Bb, 4>, p3_baby_bear::Poseidon1BabyBear<16>,
    p3_baby_bear::default_babybear_poseidon1_16(), 16, 8, 8, Poseidon1Config::BABY_BEAR_D4_W16,
    |b, perm| b.enable_poseidon1_perm::<p3_circuit::ops::poseidon1_perm::BabyBearD4Width16, _>(
        generate_poseidon1_trace::<EF, p3_circuit::ops::poseidon1_perm::BabyBearD4Width16>, perm)
);
cfg_arity2!(
    kb_p1_d4_w16, Kb, BinomialExtensionField<Kb, 4>, p3_koala_bear::Poseidon1KoalaBear<16>,
    p3_koala_bear::default_koalabear_poseidon1_16(), 16, 8, 8, Poseidon1Config::KOALA_BEAR_D4_W16,
    |b, perm| b.enable_poseidon1_perm::<p3_circuit::ops::poseidon1_perm::KoalaBearD4Width16, _>(
        generate_poseidon1_trace::<EF, p3_circuit::ops::poseidon1_perm::KoalaBearD4Width16>, perm)
);
cfg_arity2!(
    gl_p1_d2_w8, Gl, BinomialExtensionField<Gl, 2>, p3_goldilocks::poseidon1::Poseidon1Goldilocks<8>,
    p3_goldilocks::poseidon1::default_goldilocks_poseidon1_8(), 8, 4, 4, Poseidon1Config::GOLDILOCKS_D2_W8,
    |b, perm| b.enable_poseidon1_perm_width_8::<p3_circuit::ops::poseidon1_perm::GoldilocksD2Width8, _>(
        generate_poseidon1_trace::<EF, p3_circuit::ops::poseidon1_perm::GoldilocksD2Width8>, perm)
);
// ---- arity 4 (wide Poseidon2 only; Poseidon1 has no wide instance)
cfg_arity4!(
    kb_p2_d4_w32, Kb, BinomialExtensionField<Kb, 4>, p3_koala_bear::Poseidon2KoalaBear<32>,
    p3_koala_bear::default_koalabear_poseidon2_32(), 32, 24, 8, Poseidon2Config::KOALA_BEAR_D4_W32,
    |b, perm| b.enable_poseidon2_perm_width_32::<p3_poseidon2_circuit_air::KoalaBearD4Width32, _>(
        generate_poseidon2_trace::<EF, p3_poseidon2_circuit_air::KoalaBearD4Width32>, perm)
);
cfg_arity4!(
    bb_p2_d4_w32, Bb, BinomialExtensionField<Bb, 4>, p3_baby_bear::Poseidon2BabyBear<32>,
    p3_baby_bear::default_babybear_poseidon2_32(), 32, 24, 8, Poseidon2Config::BABY_BEAR_D4_W32,
    |b, perm| b.enable_poseidon2_perm_width_32::<p3_poseidon2_circuit_air::BabyBearD4Width32, _>(
        generate_poseidon2_trace::<EF, p3_poseidon2_circuit_air::BabyBearD4Width32>, perm)
);
cfg_arity4!(
    gl_p2_d2_w16, Gl, BinomialExtensionField<Gl, 2>, p3_goldilocks::Poseidon2Goldilocks<16>,
    gl_perm::<16>(), 16, 12, 4, Poseidon2Config::GOLDILOCKS_D2_W16,
    |b, perm| b.enable_poseidon2_perm::<p3_poseidon2_circuit_air::GoldilocksD2Width16, _>(
        generate_poseidon2_trace::<EF, p3_poseidon2_circuit_air::GoldilocksD2Width16>, perm)
);
cfg_arity4!(
    kb_p2_d1_w32_quintic, Kb, QuinticTrinomialExtensionField<Kb>, p3_koala_bear::Poseidon2KoalaBear<32>,
    p3_koala_bear::default_koalabear_poseidon2_32(), 32, 24, 8, Poseidon2Config::KOALA_BEAR_D1_W32,
    |b, perm| b.enable_poseidon2_perm_base_width_32::<p3_poseidon2_circuit_air::KoalaBearD1Width32, _>(
        generate_poseidon2_trace::<EF, p3_poseidon2_circuit_air::KoalaBearD1Width32>,
        LiftPermToQuintic::<F, Perm, 32>::new(perm))
);

struct ConfigInfo {
    name: &'static str,
    arity4: bool,
    /// sponge rate in base elements
    rate: usize,
    /// extension degree of the circuit field (= words per extension leaf element)
    d: usize,
    run: RunFn,
}

const CONFIGS: &[ConfigInfo] = &[
    ConfigInfo { name: "babybear-poseidon2-d4-w16", arity4: false, rate: 8, d: 4, run: bb_p2_d4_w16::run },
    ConfigInfo { name: "koalabear-poseidon2-d4-w32-arity4", arity4: true, rate: 24, d: 4, run: kb_p2_d4_w32::run },
    ConfigInfo { name: "koalabear-poseidon2-d4-w16", arity4: false, rate: 8, d: 4, run: kb_p2_d4_w16::run },
    ConfigInfo { name: "babybear-poseidon2-d4-w32-arity4", arity4: true, rate: 24, d: 4, run: bb_p2_d4_w32::run },
    ConfigInfo { name: "goldilocks-poseidon2-d2-w8", arity4: false, rate: 4, d: 2, run: gl_p2_d2_w8::run },
    ConfigInfo { name: "goldilocks-poseidon2-d2-w16-arity4", arity4: true, rate: 12, d: 2, run: gl_p2_d2_w16::run },
    ConfigInfo { name: "babybear-poseidon1-d4-w16", arity4: false, rate: 8, d: 4, run: bb_p1_d4_w16::run },
    ConfigInfo { name: "koalabear-poseidon2-d1-w32-quintic-arity4", arity4: true, rate: 24, d: 5, run: kb_p2_d1_w32_quintic::run },
    ConfigInfo { name: "koalabear-poseidon1-d4-w16", arity4: false, rate: 8, d: 4, run: kb_p1_d4_w16::run },
    ConfigInfo { name: "koalabear-poseidon2-d1-w16-quintic", arity4: false, rate: 8, d: 5, run: kb_p2_d1_w16_quintic::run },
    ConfigInfo { name: "goldilocks-poseidon1-d2-w8", arity4: false, rate: 4, d: 2, run: gl_p1_d2_w8::run },
    ConfigInfo { name: "babybear-poseidon2-d1-w16-basefield", arity4: false, rate: 8, d: 1, run: bb_p2_d1_w16_base::run },
    ConfigInfo { name: "koalabear-poseidon1-d1-w16-quintic", arity4: false, rate: 8, d: 5, run: kb_p1_d1_w16_quintic::run },
];

fn config_by_name(name: &str) -> Option<&'static ConfigInfo> {
    CONFIGS.iter().find(|c| c.name == name)
}

// ------------------------------------------------------------------------------------------
// Generator of dimension vectors
// ------------------------------------------------------------------------------------------

fn gen_shape(seed: u64, i: usize) -> Shape {
    let mut rng = case_rng(seed, "c08-shape", i as u64);
    let ci = &CONFIGS[i % CONFIGS.len()];
    // cycle the (hiding, ext) variants with the round number so that each config sees all of them
    let round = i / CONFIGS.len();
    let (hiding, ext_leaves) = if ci.arity4 {
        (false, round % 2 == 1)
    } else {
        (round % 4 >= 2, round % 2 == 1)
    };
    let n = rng.random_range(1..=5usize);
    let style = rng.random_range(0..8u32);
    let mut heights: Vec<usize> = match style {
        0 | 1 => {
            let h = 1usize << rng.random_range(0..=6u32);
            vec![h; n]
        }
        _ => (0..n).map(|_| 1usize << rng.random_range(0..=6u32)).collect(),
    };
    if style == 2 && n >= 3 {
        // mixed + equal
        heights[1] = heights[0];
    }
    if style == 3 {
        // small trees are otherwise rare
        for h in heights.iter_mut() {
            *h = (*h).min(1 << rng.random_range(0..=2u32));
        }
    }
    if style == 4 {
        // non-power-of-two tallest matrix; the others on the native ladder ceil(max / 2^k)
        let max_h = rng.random_range(1..=64usize);
        let log = p3_util::log2_ceil_usize(max_h) as u32;
        for (m, h) in heights.iter_mut().enumerate() {
            let k = if m == 0 { 0 } else { rng.random_range(0..=log) };
            *h = ((max_h - 1) >> k) + 1;
        }
    }
    let wmax = if ext_leaves { 9 } else { 19 };
    let mut widths: Vec<usize> = (0..n).map(|_| rng.random_range(1..=wmax)).collect();
    let leaf_dim = if ext_leaves { ci.d } else { 1 };
    if rng.random_range(0..4u32) == 0 {
        // force rate alignment of every height group if possible
        let hs: BTreeSet<usize> = heights.iter().copied().collect();
        for h in hs {
            let members: Vec<usize> = (0..n).filter(|&m| heights[m] == h).collect();
            let last = *members.last().unwrap();
            let fixed: usize = members
                .iter()
                .filter(|&&m| m != last)
                .map(|&m| widths[m] * leaf_dim + if hiding { SALT } else { 0 })
                .sum();
            if let Some(w) = (1..=wmax).find(|w| (fixed + w * leaf_dim + if hiding { SALT } else { 0 }) % ci.rate == 0) {
                widths[last] = w;
            }
        }
    }
    let max_h = *heights.iter().max().unwrap();
    let log = p3_util::log2_ceil_usize(max_h);
    let cap_height = rng.random_range(0..=log.min(3));
    Shape {
        config: ci.name.to_string(),
        dims: heights.into_iter().zip(widths).collect(),
        cap_height,
        hiding,
        ext_leaves,
        mat_seed: rng.random::<u64>(),
    }
}

fn run_shape(shape: &Shape, mode: &Mode, tier: Tier, seed: u64, vec_idx: usize) -> Vec<CaseResult> {
    match config_by_name(&shape.config) {
        Some(ci) => (ci.run)(shape, mode, tier, seed, vec_idx),
        None => vec![CaseResult::inconclusive("unknown-config", format!("unknown config {}", shape.config))],
    }
}

fn main() {
    let args = parse_args();
    let mut rep = Report::new(
        "C08",
        "fault_enumeration",
        &args,
        "case = (config, dimension vector, cap height, hiding, leaf field, index, single alteration) with the \
         native verdict (p3_merkle_tree verify_batch) compared with the circuit verdict (CircuitRunner::run \
         Ok/Err) on the SAME altered opening; non-trivial = the honest opening at that index was accepted by \
         both sides first; distinct by (config, dims, cap, hiding, leaf field, index class \
         first/last/mid0..3, alteration kind)",
    );
    rep.assume("p3_merkle_tree::{MerkleTreeMmcs, MerkleTreeHidingMmcs} and p3_commit::ExtensionMmcs verify_batch is the reference verdict");
    rep.assume("index bits are boolean (the FRI verifier derives them by bit decomposition); opened base-field leaves are base-field values");
    rep.assume("index_bits.len() == log2(max height) as documented by verify_batch_circuit");

    if let Some(p) = &args.replay {
        let v: Value = serde_json::from_str(&std::fs::read_to_string(p).expect("replay file")).expect("json");
        let d = if v.get("detail").is_some() { &v["detail"] } else { &v };
        let shape: Shape = serde_json::from_value(d["shape"].clone()).expect("shape");
        let index = d["index"].as_u64().unwrap_or(0) as usize;
        let alt: Alt = serde_json::from_value(d["alt"].clone()).unwrap_or(Alt::Honest);
        let mode = Mode::Replay { index, alt };
        let rs = run_shape(&shape, &mode, args.tier, args.seed, 0);
        for r in &rs {
            println!("replay: key={} verdict={:?}", r.key, r.verdict);
        }
        rep.add_all(rs);
        rep.finish(0);
    }
    if let Some(s) = args.extra.get("shape") {
        // explicit shape (all indices, all alteration kinds) — for minimising reproducers by hand
        let shape: Shape = serde_json::from_str(s).expect("--shape json");
        let rs = run_shape(&shape, &Mode::Explore, args.tier, args.seed, 0);
        rep.add_all(rs);
        rep.finish(0);
    }

    let n = args.tier.pick(QUICK_N, THOROUGH_N);
    let n = args.extra.get("n").and_then(|s| s.parse().ok()).unwrap_or(n);
    let (seed, tier) = (args.seed, args.tier);
    let from: usize = args.extra.get("from").and_then(|s| s.parse().ok()).unwrap_or(0);
    // chunked so that the per-case result strings of a long run are not all held in memory
    let mut done = 0;
    while done < n {
        let m = (n - done).min(2048);
        let base = from + done;
        let results = run_cases(m, args.threads, |i| {
            let shape = gen_shape(seed, i + base);
            run_shape(&shape, &Mode::Explore, tier, seed, i + base)
        });
        rep.add_all(results);
        done += m;
    }
    for (set, item) in OBS.lock().unwrap().iter() {
        rep.observe(set, item.clone());
    }
    rep.finish(args.tier.pick(QUICK_MIN, THOROUGH_MIN));
}

const QUICK_N: usize = 2600;
const THOROUGH_N: usize = 120_000;
const QUICK_MIN: usize = 30_000;
const THOROUGH_MIN: usize = 1_000_000;
