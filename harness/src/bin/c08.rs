//! C08 — in-circuit MMCS opening verification accepts exactly what the native MMCS accepts.
//!
//! Fault-enumeration monitor. For random dimension vectors (1–5 matrices, power-of-two heights
//! 1..64, widths 1..19, cap height 0..3, arity 2/4, hiding / plain, base / extension leaves) on
//! every field/hash configuration the repo wires in-circuit, the matrices are committed with the
//! real `p3_merkle_tree` MMCS, opened at every index, and the opening is pushed through
//! `verify_batch_circuit{,_arity4,_from_extension_opened{,_arity4}}` + `CircuitRunner::run`.
//! Then every kind of single alteration (leaf word, sibling word, index bit, cap word, salt
//! word, swap of two equal-height rows) is applied to BOTH sides and the verdicts compared:
//! native reject ∧ circuit accept = soundness violation, native accept ∧ circuit reject =
//! completeness violation.
//!
//! The circuit for one dimension vector is built once (it depends on the dimensions, the cap size
//! and the index-bit count only) and re-run with different public/private inputs.
//!
//! Second workload, "multi-opening" (`gen_seq` / `drive_multi`): ONE circuit verifies a sequence
//! of 2–4 openings (same commitment at different indices, different commitments of different
//! shape / cap height / leaf field / hiding flavour, narrow = single-chunk and wide = multi-chunk
//! leaf rows in every order, optionally shared cap targets, siblings attached by one setter call
//! per opening or by ONE call for the whole sequence). It observes state carried from one opening
//! to the next (Poseidon executor chain state, the setters' op-id cursor):
//!   (a) every opening honest and natively accepted  =>  `run()` must succeed
//!       (`multi-opening/completeness/<config>/<sequence class>`, class e.g. `narrow>wide`);
//!   (b) one alteration (same `Alt` enumeration) in the opening at position first / middle / last,
//!       all other openings untouched: the circuit must reject iff some opening is natively
//!       rejected (`multi-opening/accepts-altered/<config>/<alt kind>/<position class>`,
//!       `multi-opening/rejects-native-accepted-alteration/...`).
//! Commitments of the known single-opening defect class (arity-4 cap layer of logical width 2) are
//! not put into sequences. Extra args: `--workload single|multi|all`, `--multi-n N`,
//! `--multi-from K`, `--seq '<SeqCase json>'`; replay files of this workload carry `detail.multi`.

use std::collections::{BTreeMap, BTreeSet};
use std::sync::Mutex;

use p3_circuit::ops::{
    PermConfig, Poseidon1Config, Poseidon2Config, generate_poseidon1_trace,
    generate_poseidon2_trace, generate_recompose_trace,
};
use p3_circuit::{Circuit, CircuitBuilder, CircuitRunner, ExprId, NonPrimitiveOpId};
use p3_commit::{BatchOpening, BatchOpeningRef, ExtensionMmcs, Mmcs};
use p3_field::extension::{BinomialExtensionField, QuinticTrinomialExtensionField};
use p3_field::{BasedVectorSpace, ExtensionField, Field, PrimeField64, TwoAdicField};
use p3_fri::{CommitPhaseProofStep, FriProof, QueryProof};
use p3_matrix::Dimensions;
use p3_matrix::dense::RowMajorMatrix;
use p3_merkle_tree::{MerkleCap, MerkleTreeHidingMmcs, MerkleTreeMmcs};
use p3_recursion::pcs::{
    set_fri_mmcs_private_data, set_fri_mmcs_private_data_arity4, set_salted_fri_mmcs_private_data,
    verify_batch_circuit, verify_batch_circuit_arity4, verify_batch_circuit_from_extension_opened,
    verify_batch_circuit_from_extension_opened_arity4,
};
use p3_symmetric::{PaddingFreeSponge, TruncatedPermutation};
use p3_test_utils::LiftPermToQuintic;
use p3r_verif::util::*;
use rand::rngs::SmallRng;
use rand::{RngExt, SeedableRng};
use serde::{Deserialize, Serialize};
use serde_json::{Value, json};

/// Salt elements per leaf of the hiding MMCS (same as `recursion/tests/zk_hiding_mmcs.rs`).
const SALT: usize = 4;

// ------------------------------------------------------------------------------------------
// Case description
// ------------------------------------------------------------------------------------------

#[derive(Clone, Debug, Serialize, Deserialize)]
struct Shape {
    config: String,
    /// (height, width) per matrix; width counted in leaf elements (base or extension).
    dims: Vec<(usize, usize)>,
    cap_height: usize,
    hiding: bool,
    ext_leaves: bool,
    /// Seed of matrix contents and of the hiding MMCS salt generator.
    mat_seed: u64,
}

#[derive(Clone, Debug, Serialize, Deserialize, PartialEq)]
enum Alt {
    Honest,
    /// Add `delta` to base word `word` of the opened row of matrix `mat`.
    Leaf { mat: usize, word: usize, delta: u64 },
    /// Add `delta` to word `word` of sibling digest `sib`.
    Sibling { sib: usize, word: usize, delta: u64 },
    /// Flip index bit `bit`.
    IndexBit { bit: usize },
    /// Add `delta` to word `word` of cap entry `entry`.
    Cap { entry: usize, word: usize, delta: u64 },
    /// Add `delta` to salt word `word` of matrix `mat`.
    Salt { mat: usize, word: usize, delta: u64 },
    /// Exchange the opened rows of the equal-height matrices `a` and `b` (when their widths differ
    /// the concatenated stream `row_b ++ row_a` is re-split at the original widths).
    Swap { a: usize, b: usize },
}

impl Alt {
    fn kind(&self) -> &'static str {
        match self {
            Alt::Honest => "honest",
            Alt::Leaf { .. } => "leaf-value",
            Alt::Sibling { .. } => "sibling-word",
            Alt::IndexBit { .. } => "index-bit",
            Alt::Cap { .. } => "cap-word",
            Alt::Salt { .. } => "salt-word",
            Alt::Swap { .. } => "swap-rows",
        }
    }
}

/// An opening in a representation shared by all MMCS flavours: everything as base-field words.
#[derive(Clone, Debug)]
struct Opening<F> {
    /// Per matrix: the opened row, flattened to base words (`width * leaf_dim` words).
    rows: Vec<Vec<F>>,
    /// Per matrix salt (empty vec when the MMCS is not hiding).
    salts: Vec<Vec<F>>,
    /// Sibling digests, native proof order.
    siblings: Vec<Vec<F>>,
}

enum Mode {
    Explore,
    Replay { index: usize, alt: Alt },
}

struct Env<'a, EF: Field> {
    shape: &'a Shape,
    perm_cfg: PermConfig,
    arity4: bool,
    enable: &'a dyn Fn(&mut CircuitBuilder<EF>),
    mode: &'a Mode,
    tier: Tier,
    seed: u64,
    vec_idx: usize,
}

static OBS: Mutex<BTreeSet<(String, String)>> = Mutex::new(BTreeSet::new());

fn observe(set: &str, item: impl Into<String>) {
    OBS.lock().unwrap().insert((set.to_string(), item.into()));
}

// ------------------------------------------------------------------------------------------
// Native side
// ------------------------------------------------------------------------------------------

/// Split / join of the two native proof layouts (plain siblings, or `(salts, siblings)`).
trait ProofParts<F, const DG: usize>: Sized {
    fn split(self) -> (Vec<Vec<F>>, Vec<[F; DG]>);
    fn join(salts: Vec<Vec<F>>, sibs: Vec<[F; DG]>) -> Self;
}

impl<F, const DG: usize> ProofParts<F, DG> for Vec<[F; DG]> {
    fn split(self) -> (Vec<Vec<F>>, Vec<[F; DG]>) {
        (vec![], self)
    }
    fn join(_salts: Vec<Vec<F>>, sibs: Vec<[F; DG]>) -> Self {
        sibs
    }
}

impl<F, const DG: usize> ProofParts<F, DG> for (Vec<Vec<F>>, Vec<[F; DG]>) {
    fn split(self) -> (Vec<Vec<F>>, Vec<[F; DG]>) {
        self
    }
    fn join(salts: Vec<Vec<F>>, sibs: Vec<[F; DG]>) -> Self {
        (salts, sibs)
    }
}

type SetPriv<F, EF, const DG: usize> =
    for<'a, 'b> fn(&'a mut CircuitRunner<'b, EF>, &'a [NonPrimitiveOpId], Vec<[F; DG]>) -> Result<(), &'static str>;

struct Side<F, EF, L, M, const DG: usize>
where
    L: Clone + Send + Sync,
    M: Mmcs<L>,
{
    mmcs: M,
    commit: M::Commitment,
    pd: M::ProverData<RowMajorMatrix<L>>,
    dims: Vec<Dimensions>,
    set_priv: SetPriv<F, EF, DG>,
}

fn to_arr<F: Copy + Default, const DG: usize>(v: &[F]) -> [F; DG] {
    let mut a = [F::default(); DG];
    a.copy_from_slice(v);
    a
}

fn words_of<F: Field, L: ExtensionField<F>>(row: &[L]) -> Vec<F> {
    row.iter()
        .flat_map(|l| <L as BasedVectorSpace<F>>::as_basis_coefficients_slice(l).to_vec())
        .collect()
}

fn leaves_of<F: Field, L: ExtensionField<F>>(words: &[F]) -> Vec<L> {
    let d = <L as BasedVectorSpace<F>>::DIMENSION;
    words
        .chunks(d)
        .map(|c| <L as BasedVectorSpace<F>>::from_basis_coefficients_slice(c).expect("leaf chunk"))
        .collect()
}

impl<F, EF, L, M, const DG: usize> Side<F, EF, L, M, DG>
where
    F: Field,
    L: ExtensionField<F>,
    M: Mmcs<L, Commitment = MerkleCap<F, [F; DG]>>,
    M::Proof: ProofParts<F, DG>,
{
    fn new(mmcs: M, shape: &Shape, set_priv: SetPriv<F, EF, DG>) -> Self {
        let mut rng = SmallRng::seed_from_u64(shape.mat_seed);
        let mats: Vec<RowMajorMatrix<L>> = shape
            .dims
            .iter()
            .map(|&(h, w)| {
                let vals: Vec<L> = (0..h * w)
                    .map(|_| {
                        <L as BasedVectorSpace<F>>::from_basis_coefficients_fn(|_| F::from_u64(rng.random::<u64>()))
                    })
                    .collect();
                RowMajorMatrix::new(vals, w)
            })
            .collect();
        let dims = shape.dims.iter().map(|&(h, w)| Dimensions { height: h, width: w }).collect();
        let (commit, pd) = mmcs.commit(mats);
        Self { mmcs, commit, pd, dims, set_priv }
    }

    fn roots(&self) -> Vec<Vec<F>> {
        self.commit.roots().iter().map(|r| r.to_vec()).collect()
    }

    fn open(&self, index: usize) -> Opening<F> {
        let (rows, proof) = self.mmcs.open_batch(index, &self.pd).unpack();
        let (salts, sibs) = proof.split();
        Opening {
            rows: rows.iter().map(|r| words_of::<F, L>(r)).collect(),
            salts,
            siblings: sibs.iter().map(|s| s.to_vec()).collect(),
        }
    }

    /// Native verdict: `Ok(())` = accepted, `Err(text)` = rejected.
    fn verify(&self, roots: &[Vec<F>], index: usize, op: &Opening<F>) -> Result<(), String> {
        let commit: MerkleCap<F, [F; DG]> = MerkleCap::new(roots.iter().map(|r| to_arr::<F, DG>(r)).collect());
        let rows: Vec<Vec<L>> = op.rows.iter().map(|r| leaves_of::<F, L>(r)).collect();
        let proof = <M::Proof as ProofParts<F, DG>>::join(
            op.salts.clone(),
            op.siblings.iter().map(|s| to_arr::<F, DG>(s)).collect(),
        );
        self.mmcs
            .verify_batch(&commit, &self.dims, index, BatchOpeningRef::new(&rows, &proof))
            .map_err(|e| format!("{e:?}"))
    }

    fn set_private(
        &self,
        runner: &mut CircuitRunner<'_, EF>,
        op_ids: &[NonPrimitiveOpId],
        op: &Opening<F>,
    ) -> Result<(), String> {
        (self.set_priv)(runner, op_ids, op.siblings.iter().map(|s| to_arr::<F, DG>(s)).collect())
            .map_err(|e| e.to_string())
    }
}

/// A native side with the leaf type, the MMCS type and the digest width erased, so that one
/// circuit can verify openings of commitments made with different MMCS flavours (plain / hiding,
/// base / extension leaves, different cap heights) of the same configuration.
trait DynSide<F, EF> {
    fn roots(&self) -> Vec<Vec<F>>;
    fn dg(&self) -> usize;
    fn open(&self, index: usize) -> Opening<F>;
    fn verify(&self, roots: &[Vec<F>], index: usize, op: &Opening<F>) -> Result<(), String>;
    fn set_private(&self, runner: &mut CircuitRunner<'_, EF>, op_ids: &[NonPrimitiveOpId], op: &Opening<F>) -> Result<(), String>;
}

impl<F, EF, L, M, const DG: usize> DynSide<F, EF> for Side<F, EF, L, M, DG>
where
    F: Field,
    L: ExtensionField<F>,
    M: Mmcs<L, Commitment = MerkleCap<F, [F; DG]>>,
    M::Proof: ProofParts<F, DG>,
{
    fn roots(&self) -> Vec<Vec<F>> {
        Side::roots(self)
    }
    fn dg(&self) -> usize {
        DG
    }
    fn open(&self, index: usize) -> Opening<F> {
        Side::open(self, index)
    }
    fn verify(&self, roots: &[Vec<F>], index: usize, op: &Opening<F>) -> Result<(), String> {
        Side::verify(self, roots, index, op)
    }
    fn set_private(&self, runner: &mut CircuitRunner<'_, EF>, op_ids: &[NonPrimitiveOpId], op: &Opening<F>) -> Result<(), String> {
        Side::set_private(self, runner, op_ids, op)
    }
}

// ------------------------------------------------------------------------------------------
// Circuit side
// ------------------------------------------------------------------------------------------

struct Built<EF> {
    circuit: Circuit<EF>,
    op_ids: Vec<NonPrimitiveOpId>,
    nbits: usize,
}

fn max_height(shape: &Shape) -> usize {
    shape.dims.iter().map(|d| d.0).max().unwrap()
}

/// Are cap entries / digests packed `D` words per target (true) or one lifted word per target?
fn packs_digests<F: Field, EF: ExtensionField<F>>(cfg: PermConfig) -> bool {
    !(cfg.d() == 1 && <EF as BasedVectorSpace<F>>::DIMENSION > 1)
}

fn cap_chunk(cfg: PermConfig) -> usize {
    if cfg.is_arity4_shape() { cfg.capacity_ext() } else { cfg.rate_ext() }
}

/// Targets of ONE opening verification emitted into a builder.
struct OpeningTargets {
    op_ids: Vec<NonPrimitiveOpId>,
    nbits: usize,
    /// Cap entries (kept so that a later opening of the same commitment can share them).
    cap: Vec<Vec<ExprId>>,
    /// Were the cap entries allocated by this opening (true) or shared with an earlier one?
    own_cap: bool,
}

/// Emit the verification of one opening of a commitment of shape `shape` into `b`.
/// Allocation order (= public input order): opened rows, index bits, cap entries (unless
/// `shared_cap` is given); salts are private inputs.
fn emit_opening<F, EF>(
    b: &mut CircuitBuilder<EF>,
    cfg: PermConfig,
    arity4: bool,
    shape: &Shape,
    n_roots: usize,
    shared_cap: Option<&[Vec<ExprId>]>,
) -> Result<OpeningTargets, String>
where
    F: PrimeField64 + TwoAdicField,
    EF: ExtensionField<F>,
{
    let dims: Vec<Dimensions> = shape.dims.iter().map(|&(h, w)| Dimensions { height: h, width: w }).collect();
    let opened: Vec<Vec<ExprId>> = shape.dims.iter().map(|&(_, w)| b.alloc_public_inputs(w, "opened row")).collect();
    let nbits = p3_util::log2_ceil_usize(max_height(shape));
    let bits = b.alloc_public_inputs(nbits, "index bits");
    let chunk = cap_chunk(cfg);
    let (cap, own_cap): (Vec<Vec<ExprId>>, bool) = match shared_cap {
        Some(c) => (c.to_vec(), false),
        None => ((0..n_roots).map(|_| b.alloc_public_inputs(chunk, "cap entry")).collect(), true),
    };
    let salts: Option<Vec<Vec<ExprId>>> = shape
        .hiding
        .then(|| dims.iter().map(|_| b.alloc_private_inputs(SALT, "hiding MMCS leaf salt")).collect());
    let r = guarded(|| match (arity4, shape.ext_leaves) {
        (false, false) => verify_batch_circuit::<F, EF>(b, cfg, &cap, &dims, &bits, &opened, salts.as_deref()),
        (false, true) => {
            verify_batch_circuit_from_extension_opened::<F, EF>(b, cfg, &cap, &dims, &bits, &opened, salts.as_deref())
        }
        (true, false) => verify_batch_circuit_arity4::<F, EF>(b, cfg, &cap, &dims, &bits, &opened),
        (true, true) => verify_batch_circuit_from_extension_opened_arity4::<F, EF>(b, cfg, &cap, &dims, &bits, &opened),
    });
    match r {
        Ok(Ok(op_ids)) => Ok(OpeningTargets { op_ids, nbits, cap, own_cap }),
        Ok(Err(e)) => Err(format!("verify-fn-error: {e:?}")),
        Err(p) => Err(format!("verify-fn-panic: {p}")),
    }
}

fn finish_build<EF: Field>(b: CircuitBuilder<EF>) -> Result<Circuit<EF>, String> {
    match guarded(|| b.build()) {
        Ok(Ok(c)) => Ok(c),
        Ok(Err(e)) => Err(format!("build-error: {e:?}")),
        Err(p) => Err(format!("build-panic: {p}")),
    }
}

fn build_circuit<F, EF>(env: &Env<'_, EF>, n_roots: usize) -> Result<Built<EF>, String>
where
    F: PrimeField64 + TwoAdicField,
    EF: ExtensionField<F>,
{
    let mut b = CircuitBuilder::<EF>::new();
    (env.enable)(&mut b);
    b.enable_recompose::<F>(generate_recompose_trace::<F, EF>);
    let t = emit_opening::<F, EF>(&mut b, env.perm_cfg, env.arity4, env.shape, n_roots, None)?;
    let circuit = finish_build(b)?;
    Ok(Built { circuit, op_ids: t.op_ids, nbits: t.nbits })
}

/// Append the public inputs (opened rows, index bits, cap entries when `with_cap`) and the private
/// inputs (salts) of one opening, in the allocation order of [`emit_opening`].
#[allow(clippy::too_many_arguments)]
fn push_inputs<F, EF>(
    cfg: PermConfig,
    ext_leaves: bool,
    nbits: usize,
    with_cap: bool,
    roots: &[Vec<F>],
    index: usize,
    op: &Opening<F>,
    publics: &mut Vec<EF>,
    privates: &mut Vec<EF>,
) where
    F: PrimeField64 + TwoAdicField,
    EF: ExtensionField<F>,
{
    let d = <EF as BasedVectorSpace<F>>::DIMENSION;
    let pack = |w: &[F]| <EF as BasedVectorSpace<F>>::from_basis_coefficients_slice(w).expect("pack");
    for row in &op.rows {
        if ext_leaves {
            publics.extend(row.chunks(d).map(pack));
        } else {
            publics.extend(row.iter().map(|&w| EF::from(w)));
        }
    }
    publics.extend((0..nbits).map(|k| EF::from_bool((index >> k) & 1 == 1)));
    if with_cap {
        let packed = packs_digests::<F, EF>(cfg);
        for r in roots {
            if packed {
                publics.extend(r.chunks(d).map(pack));
            } else {
                publics.extend(r.iter().map(|&w| EF::from(w)));
            }
        }
    }
    privates.extend(op.salts.iter().flatten().map(|&w| EF::from(w)));
}

#[derive(Clone, Debug, PartialEq)]
enum CircuitVerdict {
    Accept,
    /// `run()` returned `Err`; the string is the error variant name.
    Reject(String),
    /// Repo code panicked while running.
    Panic(String),
    /// The sibling private data could not be attached (shape mismatch reported by the setter).
    PrivateDataRefused(String),
}

fn err_variant(s: &str) -> String {
    s.split(|c: char| !c.is_alphanumeric()).next().unwrap_or("Err").to_string()
}

fn run_circuit<F, EF, L, M, const DG: usize>(
    env: &Env<'_, EF>,
    built: &Built<EF>,
    side: &Side<F, EF, L, M, DG>,
    roots: &[Vec<F>],
    index: usize,
    op: &Opening<F>,
) -> Result<CircuitVerdict, String>
where
    F: PrimeField64 + TwoAdicField,
    EF: ExtensionField<F>,
    L: ExtensionField<F>,
    M: Mmcs<L, Commitment = MerkleCap<F, [F; DG]>>,
    M::Proof: ProofParts<F, DG>,
{
    let mut publics: Vec<EF> = Vec::new();
    let mut privates: Vec<EF> = Vec::new();
    push_inputs::<F, EF>(env.perm_cfg, env.shape.ext_leaves, built.nbits, true, roots, index, op, &mut publics, &mut privates);

    let mut runner = built.circuit.runner();
    runner.set_public_inputs(&publics).map_err(|e| format!("set_public_inputs: {e:?}"))?;
    if built.circuit.private_flat_len > 0 || !privates.is_empty() {
        runner.set_private_inputs(&privates).map_err(|e| format!("set_private_inputs: {e:?}"))?;
    }
    match guarded(|| side.set_private(&mut runner, &built.op_ids, op)) {
        Ok(Ok(())) => {}
        Ok(Err(e)) => return Ok(CircuitVerdict::PrivateDataRefused(e)),
        Err(p) => return Ok(CircuitVerdict::Panic(format!("set-private: {p}"))),
    }
    Ok(match guarded(move || runner.run()) {
        Ok(Ok(_)) => CircuitVerdict::Accept,
        Ok(Err(e)) => CircuitVerdict::Reject(err_variant(&format!("{e:?}"))),
        Err(p) => CircuitVerdict::Panic(p),
    })
}

// ------------------------------------------------------------------------------------------
// Alterations
// ------------------------------------------------------------------------------------------

fn apply_alt<F: Field>(
    alt: &Alt,
    shape: &Shape,
    index: usize,
    roots: &[Vec<F>],
    op: &Opening<F>,
) -> Option<(usize, Vec<Vec<F>>, Opening<F>)> {
    let mut idx = index;
    let mut roots = roots.to_vec();
    let mut op = op.clone();
    match *alt {
        Alt::Honest => {}
        Alt::Leaf { mat, word, delta } => *op.rows.get_mut(mat)?.get_mut(word)? += F::from_u64(delta),
        Alt::Sibling { sib, word, delta } => *op.siblings.get_mut(sib)?.get_mut(word)? += F::from_u64(delta),
        Alt::IndexBit { bit } => idx ^= 1 << bit,
        Alt::Cap { entry, word, delta } => *roots.get_mut(entry)?.get_mut(word)? += F::from_u64(delta),
        Alt::Salt { mat, word, delta } => *op.salts.get_mut(mat)?.get_mut(word)? += F::from_u64(delta),
        Alt::Swap { a, b } => {
            if a >= b || b >= op.rows.len() || shape.dims[a].0 != shape.dims[b].0 {
                return None;
            }
            if op.rows[a].len() == op.rows[b].len() {
                op.rows.swap(a, b);
            } else {
                // rows of different width: exchange the two streams and re-split at the
                // original widths (the circuit shape is fixed by the dimensions).
                let (la, lb) = (op.rows[a].len(), op.rows[b].len());
                let stream: Vec<F> = op.rows[b].iter().chain(op.rows[a].iter()).copied().collect();
                op.rows[a] = stream[..la].to_vec();
                op.rows[b] = stream[la..la + lb].to_vec();
            }
        }
    }
    Some((idx, roots, op))
}

fn pick_delta(rng: &mut SmallRng) -> u64 {
    if rng.random_range(0..2u32) == 0 { 1 } else { rng.random_range(1..2_000_000_000u64) }
}

/// Choose `k` of `n` positions, rotating with `rot` so that successive indices of one
/// dimension vector cover all positions (all positions when `k >= n`).
fn rotating(n: usize, k: usize, rot: usize) -> Vec<usize> {
    if n == 0 {
        return vec![];
    }
    if k >= n {
        return (0..n).collect();
    }
    (0..k).map(|j| (rot * k + j) % n).collect()
}

struct Quota {
    leaf: usize,
    sib: usize,
    cap: usize,
    salt: usize,
    swap: usize,
}

#[allow(clippy::too_many_arguments)]
fn enumerate_alts<F: Field>(
    rng: &mut SmallRng,
    shape: &Shape,
    op: &Opening<F>,
    n_roots: usize,
    dg: usize,
    nbits: usize,
    selected_cap: Option<usize>,
    q: &Quota,
    rot: usize,
) -> Vec<Alt> {
    let mut out = vec![];
    for bit in 0..nbits {
        out.push(Alt::IndexBit { bit });
    }
    let leaf_pos: Vec<(usize, usize)> =
        op.rows.iter().enumerate().flat_map(|(m, r)| (0..r.len()).map(move |w| (m, w))).collect();
    for p in rotating(leaf_pos.len(), q.leaf, rot) {
        let (mat, word) = leaf_pos[p];
        out.push(Alt::Leaf { mat, word, delta: pick_delta(rng) });
    }
    let sib_pos: Vec<(usize, usize)> =
        (0..op.siblings.len()).flat_map(|s| (0..dg).map(move |w| (s, w))).collect();
    for p in rotating(sib_pos.len(), q.sib, rot) {
        let (sib, word) = sib_pos[p];
        out.push(Alt::Sibling { sib, word, delta: pick_delta(rng) });
    }
    // cap words: the selected entry first, then the others
    if let Some(sel) = selected_cap {
        for w in rotating(dg, q.cap.div_ceil(2), rot) {
            out.push(Alt::Cap { entry: sel, word: w, delta: pick_delta(rng) });
        }
        let others: Vec<(usize, usize)> =
            (0..n_roots).filter(|e| *e != sel).flat_map(|e| (0..dg).map(move |w| (e, w))).collect();
        for p in rotating(others.len(), q.cap / 2, rot) {
            let (entry, word) = others[p];
            out.push(Alt::Cap { entry, word, delta: pick_delta(rng) });
        }
    } else {
        let all: Vec<(usize, usize)> = (0..n_roots).flat_map(|e| (0..dg).map(move |w| (e, w))).collect();
        for p in rotating(all.len(), q.cap, rot) {
            let (entry, word) = all[p];
            out.push(Alt::Cap { entry, word, delta: pick_delta(rng) });
        }
    }
    let salt_pos: Vec<(usize, usize)> =
        op.salts.iter().enumerate().flat_map(|(m, r)| (0..r.len()).map(move |w| (m, w))).collect();
    for p in rotating(salt_pos.len(), q.salt, rot) {
        let (mat, word) = salt_pos[p];
        out.push(Alt::Salt { mat, word, delta: pick_delta(rng) });
    }
    let mut pairs = vec![];
    for a in 0..shape.dims.len() {
        for b in a + 1..shape.dims.len() {
            if shape.dims[a].0 == shape.dims[b].0 && (shape.dims[a].1 == shape.dims[b].1 || !shape.hiding) {
                pairs.push((a, b));
            }
        }
    }
    for p in rotating(pairs.len(), q.swap, rot) {
        out.push(Alt::Swap { a: pairs[p].0, b: pairs[p].1 });
    }
    out
}

// ------------------------------------------------------------------------------------------
// Shape classes
// ------------------------------------------------------------------------------------------

fn heights_class(shape: &Shape) -> &'static str {
    let hs: BTreeSet<usize> = shape.dims.iter().map(|d| d.0).collect();
    if hs.iter().any(|h| !h.is_power_of_two()) {
        if hs.len() == 1 { "npo2-equal-heights" } else { "npo2-mixed-heights" }
    } else if shape.dims.len() == 1 {
        "single-matrix"
    } else if hs.len() == 1 {
        "equal-heights"
    } else if hs.len() == shape.dims.len() {
        "mixed-heights"
    } else {
        "mixed+equal-heights"
    }
}

/// Total leaf words (incl. salt) per height group.
fn group_words(shape: &Shape, leaf_dim: usize) -> BTreeMap<usize, usize> {
    let mut g = BTreeMap::new();
    for &(h, w) in &shape.dims {
        *g.entry(h).or_insert(0) += w * leaf_dim + if shape.hiding { SALT } else { 0 };
    }
    g
}

fn align_class(shape: &Shape, leaf_dim: usize, rate: usize) -> &'static str {
    if group_words(shape, leaf_dim).values().all(|t| t % rate == 0) {
        "width-rate-aligned"
    } else {
        "width-not-rate-aligned"
    }
}

/// `path_slots` = number of sibling slots of the in-circuit path (None when the circuit could not be built).
fn cap_class(n_roots: usize, path_slots: Option<usize>) -> &'static str {
    if n_roots == 1 {
        "cap0"
    } else if path_slots == Some(0) {
        "full-cap"
    } else {
        "cap>0"
    }
}

fn index_class(index: usize, max_h: usize) -> String {
    if index == 0 {
        "first".into()
    } else if index == max_h - 1 {
        "last".into()
    } else {
        format!("mid{}", index & 3)
    }
}

// ------------------------------------------------------------------------------------------
// Driver for one dimension vector
// ------------------------------------------------------------------------------------------

fn drive<F, EF, L, M, const DG: usize>(mmcs: M, set_priv: SetPriv<F, EF, DG>, env: &Env<'_, EF>) -> Vec<CaseResult>
where
    F: PrimeField64 + TwoAdicField,
    EF: ExtensionField<F>,
    L: ExtensionField<F>,
    M: Mmcs<L, Commitment = MerkleCap<F, [F; DG]>>,
    M::Proof: ProofParts<F, DG>,
{
    let shape = env.shape;
    let leaf_dim = <L as BasedVectorSpace<F>>::DIMENSION;
    let arity = if env.arity4 { 4 } else { 2 };
    let hid = if shape.hiding { "hiding" } else { "plain" };
    let leaf = if shape.ext_leaves { "ext-leaves" } else { "base-leaves" };
    let vkey = format!(
        "{}|{:?}|cap{}|{}|{}",
        shape.config, shape.dims, shape.cap_height, hid, leaf
    );

    let side = match guarded(|| Side::<F, EF, L, M, DG>::new(mmcs, shape, set_priv)) {
        Ok(s) => s,
        Err(p) => {
            // e.g. non-power-of-two heights with a cap layer whose width is not a power of two:
            // upstream MerkleCap::new refuses it, so there is no native commitment to compare with.
            let msg: String = p.split(" @ ").next().unwrap_or("").chars().take(70).collect();
            return vec![CaseResult::inconclusive(vkey, format!("native commit panicked: {msg}"))];
        }
    };
    let roots = side.roots();
    let n_roots = roots.len();
    let max_h = max_height(shape);
    let built = build_circuit::<F, EF>(env, n_roots);
    let shape_class = format!(
        "{}+{}+{}",
        heights_class(shape),
        align_class(shape, leaf_dim, env.perm_cfg.rate()),
        cap_class(n_roots, built.as_ref().ok().map(|b| b.op_ids.len()))
    );
    let sig_tail = format!("arity{arity}/{hid}/{leaf}/{shape_class}");
    let detail = |index: usize, alt: &Alt, extra: Value| -> Value {
        json!({"shape": shape, "index": index, "alt": alt, "arity": arity, "n_roots": n_roots,
               "shape_class": shape_class, "extra": extra})
    };
    let built = match built {
        Ok(b) => b,
        Err(e) => {
            // The native MMCS committed to this shape, so the circuit refusing it is a completeness gap.
            return vec![CaseResult::violated(
                format!("{vkey}|build"),
                format!("completeness/circuit-build-refused/{}/{sig_tail}", err_variant(&e)),
                detail(0, &Alt::Honest, json!({"build_error": e})),
            )];
        }
    };

    // observations about the shape
    observe("configs", shape.config.clone());
    observe("variants", format!("{}/arity{arity}/{hid}/{leaf}", shape.config));
    observe("shape-classes", format!("arity{arity}/{hid}/{leaf}/{shape_class}"));
    observe("num-matrices", shape.dims.len().to_string());
    observe("cap-sizes", format!("arity{arity}/roots{n_roots}/maxh{max_h}"));
    let gw = group_words(shape, leaf_dim);
    let rate = env.perm_cfg.rate();
    if gw.values().any(|t| *t > rate) {
        observe("leaf-hash-shapes", "multi-chunk");
    }
    if gw.values().any(|t| *t <= rate) {
        observe("leaf-hash-shapes", "single-chunk");
    }
    if gw.values().any(|t| t % env.perm_cfg.d().max(1) != 0) {
        observe("leaf-hash-shapes", "partial-ext-limb");
    }
    if env.arity4 {
        // step structure as seen from the op-id list (3 repeats = step 4, 1 = step-2 bridge)
        let mut runs = vec![];
        let mut i = 0;
        while i < built.op_ids.len() {
            let mut j = i;
            while j < built.op_ids.len() && built.op_ids[j] == built.op_ids[i] {
                j += 1;
            }
            runs.push(j - i + 1);
            i = j;
        }
        observe("arity4-schedules", format!("{runs:?}"));
    } else {
        observe("arity2-path-depths", built.op_ids.len().to_string());
    }

    let (indices, replay_alt): (Vec<usize>, Option<Alt>) = match env.mode {
        Mode::Explore => ((0..max_h).collect(), None),
        Mode::Replay { index, alt } => (vec![*index], Some(alt.clone())),
    };
    let quota = match env.tier {
        Tier::Quick => Quota { leaf: 3, sib: 3, cap: 2, salt: 2, swap: 2 },
        Tier::Thorough => Quota { leaf: 8, sib: 8, cap: 4, salt: 4, swap: 4 },
    };

    // aggregated held results: key -> (count per counter)
    let mut held: BTreeMap<String, BTreeMap<String, u64>> = BTreeMap::new();
    let mut out: Vec<CaseResult> = vec![];
    let mut viol_per_sig: BTreeMap<String, usize> = BTreeMap::new();
    let mut push_violation = |out: &mut Vec<CaseResult>, key: String, sig: String, d: Value| {
        let n = viol_per_sig.entry(sig.clone()).or_default();
        *n += 1;
        if *n <= 3 {
            out.push(CaseResult::violated(key, sig, d));
        }
    };
    let mut n_indices = 0u64;

    for &index in &indices {
        let iclass = index_class(index, max_h);
        let op = match guarded(|| side.open(index)) {
            Ok(o) => o,
            Err(p) => {
                out.push(CaseResult::inconclusive(format!("{vkey}|{index}"), format!("native open panicked: {}", panic_site(&p))));
                continue;
            }
        };
        // ---- honest opening: both must accept
        let nat = guarded(|| side.verify(&roots, index, &op));
        match nat {
            Ok(Ok(())) => {}
            other => {
                out.push(CaseResult::inconclusive(
                    format!("{vkey}|{index}|honest"),
                    format!("native verifier did not accept its own opening: {other:?}").chars().take(160).collect::<String>(),
                ));
                continue;
            }
        }
        let cv = match run_circuit(env, &built, &side, &roots, index, &op) {
            Ok(v) => v,
            Err(e) => {
                out.push(CaseResult::inconclusive(format!("{vkey}|{index}|honest"), format!("harness: {}", err_variant(&e))));
                continue;
            }
        };
        n_indices += 1;
        if cv != CircuitVerdict::Accept {
            let sig = match &cv {
                CircuitVerdict::Reject(v) => format!("completeness/honest/run-err-{v}/{sig_tail}"),
                CircuitVerdict::Panic(p) => format!("completeness/honest/panic-{}/{sig_tail}", panic_site(p)),
                // The circuit's Merkle path has a different number of sibling slots than the native
                // proof: a function of (heights, cap, arity) only, so the signature leaves out the
                // leaf field / width classes.
                CircuitVerdict::PrivateDataRefused(_) => {
                    // Known trigger class: arity-4 tree whose cap layer is the logical-width-2 layer
                    // (padded to 4 entries) reached by a step-2 bridge from a width-4 layer, i.e. a
                    // height-2 matrix under a taller one with cap_height 1.
                    let cap_layer_w2 = env.arity4
                        && n_roots == 4
                        && shape.cap_height == 1
                        && max_h >= 3
                        && shape.dims.iter().any(|d| d.0 == 2);
                    format!(
                        "completeness/honest/path-shape-mismatch/arity{arity}/{}{}",
                        if op.siblings.len() > built.op_ids.len() { "native-path-longer" } else { "circuit-path-longer" },
                        if cap_layer_w2 { "/cap-layer-logical-width-2" } else { "" }
                    )
                }
                CircuitVerdict::Accept => unreachable!(),
            };
            push_violation(
                &mut out,
                format!("{vkey}|{iclass}|honest"),
                sig,
                detail(
                    index,
                    &Alt::Honest,
                    json!({"native": "accept", "circuit": format!("{cv:?}"),
                           "native_siblings": op.siblings.len(), "circuit_sibling_slots": built.op_ids.len()}),
                ),
            );
            continue;
        }
        *held.entry(format!("{vkey}|{iclass}|honest")).or_default().entry("alt/honest".into()).or_default() += 1;

        // ---- which cap entry does the native verifier look at?
        let selected_cap = if n_roots > 1 {
            (0..n_roots).find(|&e| {
                let mut r2 = roots.clone();
                r2[e][0] += F::ONE;
                matches!(guarded(|| side.verify(&r2, index, &op)), Ok(Err(_)))
            })
        } else {
            Some(0)
        };

        let alts: Vec<Alt> = match &replay_alt {
            Some(a) => vec![a.clone()],
            None => {
                let mut rng = case_rng(env.seed, "c08-alt", (env.vec_idx as u64) << 8 | index as u64);
                enumerate_alts(&mut rng, shape, &op, n_roots, DG, built.nbits, selected_cap, &quota, index)
            }
        };
        for alt in alts {
            if alt == Alt::Honest {
                continue;
            }
            let Some((idx2, roots2, op2)) = apply_alt(&alt, shape, index, &roots, &op) else {
                out.push(CaseResult::inconclusive(format!("{vkey}|{index}|{}", alt.kind()), "alteration not applicable"));
                continue;
            };
            let nat = match guarded(|| side.verify(&roots2, idx2, &op2)) {
                Ok(r) => r,
                Err(p) => {
                    out.push(CaseResult::inconclusive(
                        format!("{vkey}|{index}|{}", alt.kind()),
                        format!("native verifier panicked: {}", panic_site(&p)),
                    ));
                    continue;
                }
            };
            let cv = match run_circuit(env, &built, &side, &roots2, idx2, &op2) {
                Ok(v) => v,
                Err(e) => {
                    out.push(CaseResult::inconclusive(format!("{vkey}|{index}|{}", alt.kind()), format!("harness: {}", err_variant(&e))));
                    continue;
                }
            };
            let key = format!("{vkey}|{iclass}|{}", alt.kind());
            let native_accepts = nat.is_ok();
            let d = || {
                detail(
                    index,
                    &alt,
                    json!({"native": match &nat { Ok(()) => "accept".to_string(), Err(e) => format!("reject: {e}") },
                           "circuit": format!("{cv:?}"), "selected_cap_entry": selected_cap}),
                )
            };
            let mut counters: Vec<String> = vec![format!("alt/{}", alt.kind())];
            match (&cv, native_accepts) {
                (CircuitVerdict::Accept, true) => {
                    counters.push(format!("agree-accept/{}", alt.kind()));
                    // Why did BOTH accept an altered opening? Expected reasons only: the word lies in a
                    // cap entry that is not the selected one, or in a matrix shorter than the cap layer
                    // (never hashed by either verifier). Anything else is tagged "(!)".
                    let above_cap = |m: usize| shape.dims[m].0.next_power_of_two() < n_roots;
                    let why = match &alt {
                        Alt::Cap { entry, .. } if Some(*entry) != selected_cap => "cap-word:unselected-entry".to_string(),
                        Alt::Leaf { mat, .. } if above_cap(*mat) => "leaf-value:matrix-shorter-than-cap-layer".to_string(),
                        Alt::Salt { mat, .. } if above_cap(*mat) => "salt-word:matrix-shorter-than-cap-layer".to_string(),
                        Alt::Swap { a, b } if above_cap(*a) && above_cap(*b) => {
                            "swap-rows:matrices-shorter-than-cap-layer".to_string()
                        }
                        other => format!("{}:unexplained(!)", other.kind()),
                    };
                    observe("both-accept-explanations", why);
                }
                (CircuitVerdict::Reject(v), false) => {
                    counters.push(format!("agree-reject/{}", alt.kind()));
                    observe("circuit-reject-errors", v.clone());
                    if let Err(e) = &nat {
                        observe("native-reject-errors", err_variant(e));
                    }
                }
                (CircuitVerdict::Panic(p), false) => {
                    counters.push("circuit-panic-counted-as-reject".into());
                    observe("circuit-panics-on-rejected-openings", panic_site(p));
                }
                (CircuitVerdict::Accept, false) => {
                    push_violation(&mut out, key.clone(), format!("soundness/{}/{sig_tail}", alt.kind()), d());
                    continue;
                }
                (CircuitVerdict::Reject(v), true) => {
                    push_violation(&mut out, key.clone(), format!("completeness/{}/run-err-{v}/{sig_tail}", alt.kind()), d());
                    continue;
                }
                (CircuitVerdict::Panic(p), true) => {
                    push_violation(
                        &mut out,
                        key.clone(),
                        format!("completeness/{}/panic-{}/{sig_tail}", alt.kind(), panic_site(p)),
                        d(),
                    );
                    continue;
                }
                (CircuitVerdict::PrivateDataRefused(_), _) => {
                    out.push(CaseResult::inconclusive(key, "private data refused for an altered opening of unchanged shape"));
                    continue;
                }
            }
            let e = held.entry(key).or_default();
            for c in counters {
                *e.entry(c).or_default() += 1;
            }
        }
    }

    let mut first = true;
    for (key, counters) in held {
        let mut r = CaseResult::held(key, true);
        for (c, n) in counters {
            r = r.count(c, n);
        }
        if first {
            r = r.count("dimension-vectors", 1).count("indices-opened", n_indices);
            r = r.count(format!("vectors/{}", shape.config), 1);
            if env.vec_idx < 6 {
                r = r.with_sample(json!({"shape": shape, "arity": arity, "n_roots": n_roots,
                    "index_bits": built.nbits, "mmcs_op_ids": built.op_ids.len(), "shape_class": shape_class,
                    "indices": n_indices}));
            }
            first = false;
        }
        out.push(r);
    }
    out
}

// ------------------------------------------------------------------------------------------
// Multi-opening workload: a SEQUENCE of openings verified in ONE circuit
// ------------------------------------------------------------------------------------------
//
// The Poseidon permutation executor carries chaining state from row to row (running sponge state,
// running Merkle hash). A single opening per circuit never sees what a previous opening left
// behind. Here 2–4 openings (same commitment at different indices, different commitments of
// different shape / cap height / leaf field / hiding flavour) are emitted one after the other into
// the same builder, exactly as the FRI verifier does for its queries, and the verdict of the one
// `run()` is compared with the conjunction of the native verdicts.

/// One multi-opening case. Everything needed to rebuild it is in here.
#[derive(Clone, Debug, Serialize, Deserialize)]
struct SeqCase {
    config: String,
    /// Committed batches; each has its own MMCS instance (cap height, hiding, leaf field).
    commits: Vec<Shape>,
    /// The openings verified in one circuit, in emission order: (commit number, index).
    openings: Vec<(usize, usize)>,
    /// Later openings of a commitment reuse the cap targets of its first opening (as the FRI
    /// verifier does for its queries) instead of getting their own cap public inputs.
    #[serde(default)]
    share_cap: bool,
    /// How the sibling digests are attached: 0 = one call of the repo's private-data setter per
    /// opening; 1 / 2 = ONE call for the whole sequence (all op-ids concatenated, one FRI proof
    /// skeleton holding every opening: 1 = queries of the form `base* ext*`, 2 = one opening per
    /// query). 1 / 2 need a uniform hiding flavour (the setter is typed by the MMCS), otherwise 0 is used.
    #[serde(default)]
    grouped_private_data: u8,
}

enum MultiMode {
    Explore,
    Replay { pos: usize, alt: Alt },
}

struct MultiEnv<'a, EF: Field> {
    case: &'a SeqCase,
    perm_cfg: PermConfig,
    arity4: bool,
    enable: &'a dyn Fn(&mut CircuitBuilder<EF>),
    mode: &'a MultiMode,
    tier: Tier,
    seed: u64,
    seq_idx: usize,
}

/// The data of one opening of the sequence as presented to both verifiers.
#[derive(Clone)]
struct Item<F> {
    commit: usize,
    index: usize,
    roots: Vec<Vec<F>>,
    op: Opening<F>,
}

struct SeqBuilt<EF> {
    circuit: Circuit<EF>,
    per: Vec<OpeningTargets>,
}

fn build_seq<F, EF>(
    env: &MultiEnv<'_, EF>,
    openings: &[(usize, usize)],
    n_roots: &[usize],
    share_cap: bool,
) -> Result<SeqBuilt<EF>, String>
where
    F: PrimeField64 + TwoAdicField,
    EF: ExtensionField<F>,
{
    let mut b = CircuitBuilder::<EF>::new();
    (env.enable)(&mut b);
    b.enable_recompose::<F>(generate_recompose_trace::<F, EF>);
    let mut per: Vec<OpeningTargets> = vec![];
    let mut cap_owner: BTreeMap<usize, usize> = BTreeMap::new();
    for (j, &(c, _)) in openings.iter().enumerate() {
        let shared: Option<Vec<Vec<ExprId>>> =
            if share_cap { cap_owner.get(&c).map(|&p| per[p].cap.clone()) } else { None };
        let t = emit_opening::<F, EF>(&mut b, env.perm_cfg, env.arity4, &env.case.commits[c], n_roots[c], shared.as_deref())
            .map_err(|e| format!("opening#{j}: {e}"))?;
        if t.own_cap {
            cap_owner.entry(c).or_insert(per.len());
        }
        per.push(t);
    }
    Ok(SeqBuilt { circuit: finish_build(b)?, per })
}

fn run_seq<F, EF>(
    env: &MultiEnv<'_, EF>,
    built: &SeqBuilt<EF>,
    sides: &[Box<dyn DynSide<F, EF>>],
    items: &[&Item<F>],
    grouped: Option<(GroupSetFn<'_, F, EF>, bool)>,
) -> Result<CircuitVerdict, String>
where
    F: PrimeField64 + TwoAdicField,
    EF: ExtensionField<F>,
{
    let mut publics: Vec<EF> = Vec::new();
    let mut privates: Vec<EF> = Vec::new();
    for (t, it) in built.per.iter().zip(items) {
        let ext = env.case.commits[it.commit].ext_leaves;
        push_inputs::<F, EF>(env.perm_cfg, ext, t.nbits, t.own_cap, &it.roots, it.index, &it.op, &mut publics, &mut privates);
    }
    let mut runner = built.circuit.runner();
    runner.set_public_inputs(&publics).map_err(|e| format!("set_public_inputs: {e:?}"))?;
    if built.circuit.private_flat_len > 0 || !privates.is_empty() {
        runner.set_private_inputs(&privates).map_err(|e| format!("set_private_inputs: {e:?}"))?;
    }
    match grouped {
        Some((group_set, one_per_query)) => {
            let hiding = env.case.commits[items[0].commit].hiding;
            let ids: Vec<NonPrimitiveOpId> = built.per.iter().flat_map(|t| t.op_ids.iter().copied()).collect();
            let parts: Vec<(bool, Vec<Vec<F>>)> =
                items.iter().map(|it| (env.case.commits[it.commit].ext_leaves, it.op.siblings.clone())).collect();
            let q = group_into_queries(&parts, one_per_query);
            match guarded(|| group_set(&mut runner, &ids, hiding, q)) {
                Ok(Ok(())) => {}
                Ok(Err(e)) => return Ok(CircuitVerdict::PrivateDataRefused(format!("grouped setter call: {e}"))),
                Err(p) => return Ok(CircuitVerdict::Panic(format!("set-private: {p}"))),
            }
        }
        None => {
            for (j, (t, it)) in built.per.iter().zip(items).enumerate() {
                match guarded(|| sides[it.commit].set_private(&mut runner, &t.op_ids, &it.op)) {
                    Ok(Ok(())) => {}
                    Ok(Err(e)) => return Ok(CircuitVerdict::PrivateDataRefused(format!("opening#{j}: {e}"))),
                    Err(p) => return Ok(CircuitVerdict::Panic(format!("set-private: {p}"))),
                }
            }
        }
    }
    Ok(match guarded(move || runner.run()) {
        Ok(Ok(_)) => CircuitVerdict::Accept,
        Ok(Err(e)) => CircuitVerdict::Reject(format!("{e:?}").chars().take(400).collect()),
        Err(p) => CircuitVerdict::Panic(p),
    })
}

/// Base words (incl. salt) absorbed by the leaf-layer sponge = total of the tallest height group.
fn leaf_layer_words(shape: &Shape, leaf_dim: usize) -> usize {
    group_words(shape, leaf_dim).iter().next_back().map(|(_, w)| *w).unwrap_or(0)
}

/// `wide` = the leaf-layer sponge needs more than one absorb row (multi-chunk leaf).
fn width_class(shape: &Shape, d: usize, rate: usize) -> &'static str {
    let leaf_dim = if shape.ext_leaves { d } else { 1 };
    if leaf_layer_words(shape, leaf_dim) > rate { "wide" } else { "narrow" }
}

fn pos_class(pos: usize, n: usize) -> &'static str {
    if pos == 0 {
        "first"
    } else if pos + 1 == n {
        "last"
    } else {
        "middle"
    }
}

/// The known single-opening defect class (arity-4 cap layer of logical width 2, see
/// `known_findings.jsonl`): such commitments are not put into sequences, the single-opening
/// workload reports them.
fn known_arity4_cap_layer_w2(arity4: bool, shape: &Shape) -> bool {
    arity4 && shape.cap_height == 1 && max_height(shape) >= 3 && shape.dims.iter().any(|d| d.0 == 2)
}

fn both_accept_reason(alt: &Alt, shape: &Shape, n_roots: usize, selected_cap: Option<usize>) -> String {
    let above_cap = |m: usize| shape.dims[m].0.next_power_of_two() < n_roots;
    match alt {
        Alt::Cap { entry, .. } if Some(*entry) != selected_cap => "cap-word:unselected-entry".to_string(),
        Alt::Leaf { mat, .. } if above_cap(*mat) => "leaf-value:matrix-shorter-than-cap-layer".to_string(),
        Alt::Salt { mat, .. } if above_cap(*mat) => "salt-word:matrix-shorter-than-cap-layer".to_string(),
        Alt::Swap { a, b } if above_cap(*a) && above_cap(*b) => "swap-rows:matrices-shorter-than-cap-layer".to_string(),
        other => format!("{}:unexplained(!)", other.kind()),
    }
}

fn drive_multi<F, EF>(
    env: &MultiEnv<'_, EF>,
    make: &dyn Fn(&Shape) -> Box<dyn DynSide<F, EF>>,
    group_set: GroupSetFn<'_, F, EF>,
) -> Vec<CaseResult>
where
    F: PrimeField64 + TwoAdicField,
    EF: ExtensionField<F>,
{
    let case = env.case;
    let d = <EF as BasedVectorSpace<F>>::DIMENSION;
    let rate = env.perm_cfg.rate();
    let arity = if env.arity4 { 4 } else { 2 };
    let n = case.openings.len();
    if n == 0 || case.openings.iter().any(|&(c, i)| c >= case.commits.len() || i >= max_height(&case.commits[c])) {
        return vec![CaseResult::inconclusive("multi|malformed", "malformed multi-opening case")];
    }
    let cdesc: Vec<String> = case
        .commits
        .iter()
        .map(|s| {
            format!("{:?}c{}{}{}", s.dims, s.cap_height, if s.hiding { 'h' } else { 'p' }, if s.ext_leaves { 'e' } else { 'b' })
        })
        .collect();
    let classes: Vec<&'static str> = case.openings.iter().map(|&(c, _)| width_class(&case.commits[c], d, rate)).collect();
    let seq_class = classes.join(">");
    let skey = format!(
        "multi|{}|{}|{}|{}",
        case.config,
        cdesc.join(";"),
        case.openings
            .iter()
            .map(|&(c, i)| format!("{c}@{}", index_class(i, max_height(&case.commits[c]))))
            .collect::<Vec<_>>()
            .join(","),
        if case.share_cap { "shared-cap" } else { "own-caps" }
    ) + &format!("|pd{}", case.grouped_private_data);
    let tab = |name: &str| format!("mo|{}|{}|{}", case.config, seq_class, name);
    let detail = |pos: usize, alt: &Alt, extra: Value| -> Value {
        json!({"multi": case, "alt_pos": pos, "alt": alt, "arity": arity, "sequence_class": seq_class,
               "position_classes": classes, "extra": extra})
    };

    // ---- native side: commit every batch, open, and make sure native accepts every honest opening
    let mut sides: Vec<Box<dyn DynSide<F, EF>>> = vec![];
    for s in &case.commits {
        match guarded(|| make(s)) {
            Ok(side) => sides.push(side),
            Err(p) => {
                let msg: String = p.split(" @ ").next().unwrap_or("").chars().take(70).collect();
                return vec![CaseResult::inconclusive(skey, format!("multi: native commit panicked: {msg}"))];
            }
        }
    }
    let all_roots: Vec<Vec<Vec<F>>> = sides.iter().map(|s| s.roots()).collect();
    let n_roots: Vec<usize> = all_roots.iter().map(|r| r.len()).collect();
    let mut items: Vec<Item<F>> = vec![];
    for &(c, index) in &case.openings {
        let op = match guarded(|| sides[c].open(index)) {
            Ok(o) => o,
            Err(p) => return vec![CaseResult::inconclusive(skey, format!("multi: native open panicked: {}", panic_site(&p)))],
        };
        match guarded(|| sides[c].verify(&all_roots[c], index, &op)) {
            Ok(Ok(())) => {}
            other => {
                return vec![CaseResult::inconclusive(
                    skey,
                    format!("multi: native verifier did not accept its own opening: {other:?}").chars().take(160).collect::<String>(),
                )];
            }
        }
        items.push(Item { commit: c, index, roots: all_roots[c].clone(), op });
    }

    // ---- one circuit for the whole sequence
    let built = match build_seq::<F, EF>(env, &case.openings, &n_roots, case.share_cap) {
        Ok(b) => b,
        Err(e) => {
            return vec![CaseResult::violated(
                format!("{skey}|build"),
                format!("multi-opening/completeness/{}/{}", case.config, seq_class),
                detail(0, &Alt::Honest, json!({"stage": "build", "build_error": e})),
            )];
        }
    };

    observe("multi-sequence-classes", format!("arity{arity}/{seq_class}"));
    observe("multi-sequence-lengths", n.to_string());
    let distinct_commits: BTreeSet<usize> = case.openings.iter().map(|o| o.0).collect();
    let pattern = if distinct_commits.len() == 1 {
        "same-commitment"
    } else if distinct_commits.len() == n {
        "distinct-commitments"
    } else {
        "interleaved-commitments"
    };
    let used = |f: &dyn Fn(&Shape) -> usize| -> bool {
        distinct_commits.iter().map(|&c| f(&case.commits[c])).collect::<BTreeSet<_>>().len() > 1
    };
    let mixed_leaf_field = used(&|s| s.ext_leaves as usize);
    let mixed_hiding = used(&|s| s.hiding as usize);
    let mixed_cap = used(&|s| s.cap_height);
    let mixed_height = used(&max_height);
    let nonfirst_wide = classes.iter().skip(1).any(|c| *c == "wide");
    if nonfirst_wide {
        observe("multi-configs-with-non-first-wide-opening", case.config.clone());
    }
    for &c in &distinct_commits {
        let s = &case.commits[c];
        observe(
            "multi-variants",
            format!("{}/{}/{}", case.config, if s.hiding { "hiding" } else { "plain" }, if s.ext_leaves { "ext-leaves" } else { "base-leaves" }),
        );
        let leaf_dim = if s.ext_leaves { d } else { 1 };
        let gw = group_words(s, leaf_dim);
        if gw.len() > 1 && gw.iter().rev().skip(1).any(|(_, w)| *w > rate) {
            observe("multi-injected-row-shapes", "multi-chunk");
        }
    }

    let uniform_hiding = distinct_commits.iter().map(|&c| case.commits[c].hiding).collect::<BTreeSet<_>>().len() == 1;
    let grouped: Option<(GroupSetFn<'_, F, EF>, bool)> = match case.grouped_private_data {
        1 | 2 if uniform_hiding => Some((group_set, case.grouped_private_data == 2)),
        _ => None,
    };
    let setter_mode = match grouped {
        None => "one-setter-call-per-opening",
        Some((_, false)) => "one-setter-call/queries-base*ext*",
        Some((_, true)) => "one-setter-call/one-opening-per-query",
    };
    let all: Vec<&Item<F>> = items.iter().collect();
    let honest = match run_seq(env, &built, &sides, &all, grouped) {
        Ok(v) => v,
        Err(e) => return vec![CaseResult::inconclusive(format!("{skey}|honest"), format!("multi harness: {}", err_variant(&e)))],
    };
    if honest != CircuitVerdict::Accept {
        // Diagnosis for the report: does every opening pass when it is alone in a circuit?
        let alone: Vec<String> = (0..n)
            .map(|j| {
                let r = build_seq::<F, EF>(env, &case.openings[j..j + 1], &n_roots, false)
                    .and_then(|b1| run_seq(env, &b1, &sides, &[&items[j]], None));
                match r {
                    Ok(CircuitVerdict::Accept) => "accept".to_string(),
                    Ok(v) => format!("{v:?}").chars().take(60).collect(),
                    Err(e) => format!("harness: {e}").chars().take(60).collect(),
                }
            })
            .collect();
        // ... and which is the shortest failing prefix of the sequence?
        let failing_prefix = (1..=n).find(|&m| {
            let r = build_seq::<F, EF>(env, &case.openings[..m], &n_roots, case.share_cap)
                .and_then(|bm| run_seq(env, &bm, &sides, &all[..m], grouped));
            !matches!(r, Ok(CircuitVerdict::Accept))
        });
        return vec![
            CaseResult::violated(
                format!("{skey}|honest"),
                format!("multi-opening/completeness/{}/{}", case.config, seq_class),
                detail(
                    0,
                    &Alt::Honest,
                    json!({"stage": "run", "native": "accepts every opening", "circuit": format!("{honest:?}"),
                           "each_opening_alone_in_its_own_circuit": alone, "shortest_failing_prefix_len": failing_prefix,
                           "pattern": pattern, "private_data_setter": setter_mode}),
                ),
            )
            .count(tab("honest-REJECTED"), 1),
        ];
    }

    let mut held: BTreeMap<String, BTreeMap<String, u64>> = BTreeMap::new();
    let mut out: Vec<CaseResult> = vec![];
    {
        let e = held.entry(format!("{skey}|honest")).or_default();
        let mut c = |name: String, v: u64| *e.entry(name).or_default() += v;
        c("multi/sequences".into(), 1);
        c("multi/openings".into(), n as u64);
        c("multi/honest-sequences-accepted".into(), 1);
        c(format!("multi/len/{n}"), 1);
        c(format!("multi/pattern/{pattern}"), 1);
        c(format!("multi/private-data/{setter_mode}"), 1);
        c(format!("multi/sequences/{}", case.config), 1);
        c(tab("sequences"), 1);
        c(tab("honest-accepted"), 1);
        for (flag, name) in [
            (case.share_cap, "shared-cap-targets"),
            (mixed_leaf_field, "mixed-leaf-field"),
            (mixed_hiding, "mixed-hiding"),
            (mixed_cap, "mixed-cap-height"),
            (mixed_height, "mixed-max-height"),
            (nonfirst_wide, "non-first-wide-opening"),
        ] {
            if flag {
                c(format!("multi/with/{name}"), 1);
            }
        }
    }

    // ---- one alteration, applied to the opening at position k only
    let mut rng = case_rng(env.seed, "c08-multi-alt", env.seq_idx as u64);
    let positions: Vec<usize> = match env.mode {
        MultiMode::Replay { pos, .. } => vec![(*pos).min(n - 1)],
        MultiMode::Explore => match env.tier {
            Tier::Thorough => (0..n).collect(),
            Tier::Quick => {
                let mut v = vec![0];
                if n >= 3 {
                    v.push(1 + rng.random_range(0..n - 2));
                }
                v.push(n - 1);
                v
            }
        },
    };
    let (quota, q_bits) = match env.tier {
        Tier::Quick => (Quota { leaf: 2, sib: 1, cap: 2, salt: 1, swap: 1 }, 2),
        Tier::Thorough => (Quota { leaf: 4, sib: 3, cap: 2, salt: 2, swap: 2 }, 6),
    };
    let mut viol_per_sig: BTreeMap<String, usize> = BTreeMap::new();
    for k in positions {
        let pcls = pos_class(k, n);
        let it = &items[k];
        let shape = &case.commits[it.commit];
        let side = &sides[it.commit];
        let selected_cap = if it.roots.len() > 1 {
            (0..it.roots.len()).find(|&e| {
                let mut r2 = it.roots.clone();
                r2[e][0] += F::ONE;
                matches!(guarded(|| side.verify(&r2, it.index, &it.op)), Ok(Err(_)))
            })
        } else {
            Some(0)
        };
        let alts: Vec<Alt> = match env.mode {
            MultiMode::Replay { alt, .. } => vec![alt.clone()],
            MultiMode::Explore => {
                let rot = env.seq_idx / CONFIGS.len() + k;
                let nbits = built.per[k].nbits;
                let keep_bits = rotating(nbits, q_bits, rot);
                enumerate_alts(&mut rng, shape, &it.op, it.roots.len(), side.dg(), nbits, selected_cap, &quota, rot)
                    .into_iter()
                    .filter(|a| !matches!(a, Alt::IndexBit { bit } if !keep_bits.contains(bit)))
                    .collect()
            }
        };
        for alt in alts {
            if alt == Alt::Honest {
                continue;
            }
            let key = format!("{skey}|{pcls}|{}", alt.kind());
            let Some((idx2, roots2, op2)) = apply_alt(&alt, shape, it.index, &it.roots, &it.op) else {
                out.push(CaseResult::inconclusive(key, "multi: alteration not applicable"));
                continue;
            };
            // Only opening k changes; with shared cap targets a cap alteration necessarily reaches
            // every opening of that commitment (there is one set of cap public inputs).
            let mut items2: Vec<Item<F>> = items.clone();
            items2[k] = Item { commit: it.commit, index: idx2, roots: roots2.clone(), op: op2 };
            let mut touched = vec![k];
            if case.share_cap && matches!(alt, Alt::Cap { .. }) {
                for j in 0..n {
                    if j != k && items2[j].commit == it.commit {
                        items2[j].roots = roots2.clone();
                        touched.push(j);
                    }
                }
            }
            let mut native: Vec<Result<(), String>> = vec![Ok(()); n];
            let mut native_panic = None;
            for &j in &touched {
                let x = &items2[j];
                match guarded(|| sides[x.commit].verify(&x.roots, x.index, &x.op)) {
                    Ok(r) => native[j] = r,
                    Err(p) => native_panic = Some(p),
                }
            }
            if let Some(p) = native_panic {
                out.push(CaseResult::inconclusive(key, format!("multi: native verifier panicked: {}", panic_site(&p))));
                continue;
            }
            let native_accepts = native.iter().all(|r| r.is_ok());
            let refs: Vec<&Item<F>> = items2.iter().collect();
            let cv = match run_seq(env, &built, &sides, &refs, grouped) {
                Ok(v) => v,
                Err(e) => {
                    out.push(CaseResult::inconclusive(key, format!("multi harness: {}", err_variant(&e))));
                    continue;
                }
            };
            let dd = || {
                detail(
                    k,
                    &alt,
                    json!({"native_per_opening": native.iter().map(|r| match r { Ok(()) => "accept".to_string(), Err(e) => format!("reject: {e}") }).collect::<Vec<_>>(),
                           "circuit": format!("{cv:?}"), "selected_cap_entry": selected_cap, "position_class": pcls,
                           "openings_with_changed_data": touched}),
                )
            };
            let mut push_violation = |out: &mut Vec<CaseResult>, sig: String, dv: Value| {
                let c = viol_per_sig.entry(sig.clone()).or_default();
                *c += 1;
                if *c <= 2 {
                    out.push(CaseResult::violated(key.clone(), sig, dv));
                }
            };
            let mut counters: Vec<String> = vec![format!("multi/alt/{}", alt.kind()), format!("multi/pos/{pcls}")];
            match (&cv, native_accepts) {
                (CircuitVerdict::Accept, true) => {
                    counters.push("multi/altered-accepted-by-both".into());
                    counters.push(tab("altered-accepted-by-both"));
                    observe("multi-both-accept-explanations", both_accept_reason(&alt, shape, it.roots.len(), selected_cap));
                }
                (CircuitVerdict::Reject(v), false) => {
                    counters.push("multi/altered-rejected".into());
                    counters.push(format!("multi/altered-rejected/{pcls}"));
                    counters.push(tab("altered-rejected"));
                    observe("multi-circuit-reject-errors", err_variant(v));
                }
                (CircuitVerdict::Panic(p), false) => {
                    counters.push("multi/circuit-panic-counted-as-reject".into());
                    counters.push(tab("altered-rejected"));
                    observe("multi-circuit-panics-on-rejected-openings", panic_site(p));
                }
                (CircuitVerdict::Accept, false) => {
                    push_violation(&mut out, format!("multi-opening/accepts-altered/{}/{}/{pcls}", case.config, alt.kind()), dd());
                    continue;
                }
                (CircuitVerdict::Reject(_) | CircuitVerdict::Panic(_), true) => {
                    push_violation(
                        &mut out,
                        format!("multi-opening/rejects-native-accepted-alteration/{}/{}/{pcls}", case.config, alt.kind()),
                        dd(),
                    );
                    continue;
                }
                (CircuitVerdict::PrivateDataRefused(_), _) => {
                    out.push(CaseResult::inconclusive(key, "multi: private data refused for an altered opening of unchanged shape"));
                    continue;
                }
            }
            let e = held.entry(key).or_default();
            for c in counters {
                *e.entry(c).or_default() += 1;
            }
        }
    }

    let mut first = true;
    for (key, counters) in held {
        let mut r = CaseResult::held(key, true);
        for (c, v) in counters {
            r = r.count(c, v);
        }
        if first && env.seq_idx < 3 * CONFIGS.len() {
            r = r.with_sample(json!({"workload": "multi-opening", "case": case, "arity": arity, "sequence_class": seq_class,
                "pattern": pattern, "private_data_setter": setter_mode, "mmcs_op_ids_per_opening": built.per.iter().map(|t| t.op_ids.len()).collect::<Vec<_>>()}));
        }
        first = false;
        out.push(r);
    }
    out
}

// ------------------------------------------------------------------------------------------
// Configurations
// ------------------------------------------------------------------------------------------

fn dummy_fri_proof_input<F, EF, FM, IM>(proof: IM::Proof) -> FriProof<EF, FM, F, Vec<BatchOpening<F, IM>>>
where
    F: Field,
    EF: ExtensionField<F>,
    FM: Mmcs<EF>,
    IM: Mmcs<F>,
{
    FriProof {
        commit_phase_commits: vec![],
        commit_pow_witnesses: vec![],
        query_proofs: vec![QueryProof {
            input_proof: vec![BatchOpening::new(vec![], proof)],
            commit_phase_openings: vec![],
        }],
        final_poly: vec![],
        query_pow_witness: F::ZERO,
    }
}

fn dummy_fri_proof_commit<F, EF, FM, IM>(proof: FM::Proof) -> FriProof<EF, FM, F, Vec<BatchOpening<F, IM>>>
where
    F: Field,
    EF: ExtensionField<F>,
    FM: Mmcs<EF>,
    IM: Mmcs<F>,
{
    FriProof {
        commit_phase_commits: vec![],
        commit_pow_witnesses: vec![],
        query_proofs: vec![QueryProof {
            input_proof: vec![],
            commit_phase_openings: vec![CommitPhaseProofStep { log_arity: 1, sibling_values: vec![], opening_proof: proof }],
        }],
        final_poly: vec![],
        query_pow_witness: F::ZERO,
    }
}

/// A FRI proof skeleton carrying SEVERAL MMCS opening proofs: `queries[q] = (input-batch proofs,
/// commit-phase proofs)`. The repo's private-data setters walk it with one running op-id cursor.
fn dummy_fri_proof_many<F, EF, FM, IM>(queries: Vec<(Vec<IM::Proof>, Vec<FM::Proof>)>) -> FriProof<EF, FM, F, Vec<BatchOpening<F, IM>>>
where
    F: Field,
    EF: ExtensionField<F>,
    FM: Mmcs<EF>,
    IM: Mmcs<F>,
{
    FriProof {
        commit_phase_commits: vec![],
        commit_pow_witnesses: vec![],
        query_proofs: queries
            .into_iter()
            .map(|(inputs, phases)| QueryProof {
                input_proof: inputs.into_iter().map(|p| BatchOpening::new(vec![], p)).collect(),
                commit_phase_openings: phases
                    .into_iter()
                    .map(|p| CommitPhaseProofStep { log_arity: 1, sibling_values: vec![], opening_proof: p })
                    .collect(),
            })
            .collect(),
        final_poly: vec![],
        query_pow_witness: F::ZERO,
    }
}

/// Sibling digests of several openings, grouped into FRI queries: per query the base-leaf
/// (input batch) openings, then the extension-leaf (commit phase) openings.
type GroupedSiblings<F> = Vec<(Vec<Vec<Vec<F>>>, Vec<Vec<Vec<F>>>)>;

/// Split a sequence of openings (`true` = extension leaves) into FRI queries preserving the order
/// of the op-ids: `one_per_query` puts every opening into its own query, otherwise a query takes
/// a maximal run `base* ext*`.
fn group_into_queries<F: Clone>(parts: &[(bool, Vec<Vec<F>>)], one_per_query: bool) -> GroupedSiblings<F> {
    let mut out: GroupedSiblings<F> = vec![];
    for (ext, sibs) in parts {
        let start_new = match out.last() {
            None => true,
            Some(_) if one_per_query => true,
            Some((_, phases)) => !*ext && !phases.is_empty(),
        };
        if start_new {
            out.push((vec![], vec![]));
        }
        let q = out.last_mut().unwrap();
        if *ext { q.1.push(sibs.clone()) } else { q.0.push(sibs.clone()) }
    }
    out
}

type GroupSetFn<'a, F, EF> =
    &'a dyn Fn(&mut CircuitRunner<'_, EF>, &[NonPrimitiveOpId], bool, GroupedSiblings<F>) -> Result<(), &'static str>;

type RunFn = fn(&Shape, &Mode, Tier, u64, usize) -> Vec<CaseResult>;
type MultiRunFn = fn(&SeqCase, &MultiMode, Tier, u64, usize) -> Vec<CaseResult>;

macro_rules! cfg_arity2 {
    ($m:ident, $F:ty, $EF:ty, $Perm:ty, $perm:expr, $W:expr, $RATE:expr, $DG:expr, $pcfg:expr, $enable:expr) => {
        mod $m {
            use super::*;
            pub type F = $F;
            pub type EF = $EF;
            type Perm = $Perm;
            const DG: usize = $DG;
            type H = PaddingFreeSponge<Perm, $W, $RATE, $DG>;
            type C = TruncatedPermutation<Perm, 2, $DG, $W>;
            type P = <F as Field>::Packing;
            type Val = MerkleTreeMmcs<P, P, H, C, 2, $DG>;
            type Ext = ExtensionMmcs<F, EF, Val>;
            type HVal = MerkleTreeHidingMmcs<P, P, H, C, SmallRng, 2, $DG, SALT>;
            type HExt = ExtensionMmcs<F, EF, HVal>;

            fn pcfg() -> PermConfig {
                ($pcfg).into()
            }
            fn sp_base(r: &mut CircuitRunner<'_, EF>, ids: &[NonPrimitiveOpId], s: Vec<[F; DG]>) -> Result<(), &'static str> {
                let p = dummy_fri_proof_input::<F, EF, Ext, Val>(s);
                set_fri_mmcs_private_data::<F, EF, Ext, Val, H, C, DG>(r, ids, &p, pcfg())
            }
            fn sp_ext(r: &mut CircuitRunner<'_, EF>, ids: &[NonPrimitiveOpId], s: Vec<[F; DG]>) -> Result<(), &'static str> {
                let p = dummy_fri_proof_commit::<F, EF, Ext, Val>(s);
                set_fri_mmcs_private_data::<F, EF, Ext, Val, H, C, DG>(r, ids, &p, pcfg())
            }
            fn sp_hbase(r: &mut CircuitRunner<'_, EF>, ids: &[NonPrimitiveOpId], s: Vec<[F; DG]>) -> Result<(), &'static str> {
                let p = dummy_fri_proof_input::<F, EF, HExt, HVal>((vec![], s));
                set_salted_fri_mmcs_private_data::<F, EF, HExt, HVal, DG>(r, ids, &p, pcfg())
            }
            fn sp_hext(r: &mut CircuitRunner<'_, EF>, ids: &[NonPrimitiveOpId], s: Vec<[F; DG]>) -> Result<(), &'static str> {
                let p = dummy_fri_proof_commit::<F, EF, HExt, HVal>((vec![], s));
                set_salted_fri_mmcs_private_data::<F, EF, HExt, HVal, DG>(r, ids, &p, pcfg())
            }

            pub fn run(shape: &Shape, mode: &Mode, tier: Tier, seed: u64, vec_idx: usize) -> Vec<CaseResult> {
                let perm: Perm = $perm;
                let (h, c) = (H::new(perm.clone()), C::new(perm.clone()));
                let en: fn(&mut CircuitBuilder<EF>, Perm) = $enable;
                let enable = |b: &mut CircuitBuilder<EF>| en(b, perm.clone());
                let env = Env { shape, perm_cfg: pcfg(), arity4: false, enable: &enable, mode, tier, seed, vec_idx };
                let salt_rng = SmallRng::seed_from_u64(shape.mat_seed ^ 0x5a17);
                let cap = shape.cap_height;
                match (shape.hiding, shape.ext_leaves) {
                    (false, false) => drive::<F, EF, F, Val, DG>(Val::new(h, c, cap), sp_base, &env),
                    (false, true) => drive::<F, EF, EF, Ext, DG>(Ext::new(Val::new(h, c, cap)), sp_ext, &env),
                    (true, false) => drive::<F, EF, F, HVal, DG>(HVal::new(h, c, cap, salt_rng), sp_hbase, &env),
                    (true, true) => drive::<F, EF, EF, HExt, DG>(HExt::new(HVal::new(h, c, cap, salt_rng)), sp_hext, &env),
                }
            }

            pub fn run_multi(case: &SeqCase, mode: &MultiMode, tier: Tier, seed: u64, seq_idx: usize) -> Vec<CaseResult> {
                let perm: Perm = $perm;
                let en: fn(&mut CircuitBuilder<EF>, Perm) = $enable;
                let enable = |b: &mut CircuitBuilder<EF>| en(b, perm.clone());
                let make = |shape: &Shape| -> Box<dyn DynSide<F, EF>> {
                    let (h, c) = (H::new(perm.clone()), C::new(perm.clone()));
                    let salt_rng = SmallRng::seed_from_u64(shape.mat_seed ^ 0x5a17);
                    let cap = shape.cap_height;
                    match (shape.hiding, shape.ext_leaves) {
                        (false, false) => Box::new(Side::<F, EF, F, Val, DG>::new(Val::new(h, c, cap), shape, sp_base)),
                        (false, true) => Box::new(Side::<F, EF, EF, Ext, DG>::new(Ext::new(Val::new(h, c, cap)), shape, sp_ext)),
                        (true, false) => Box::new(Side::<F, EF, F, HVal, DG>::new(HVal::new(h, c, cap, salt_rng), shape, sp_hbase)),
                        (true, true) => {
                            Box::new(Side::<F, EF, EF, HExt, DG>::new(HExt::new(HVal::new(h, c, cap, salt_rng)), shape, sp_hext))
                        }
                    }
                };
                let arr = |v: Vec<Vec<Vec<F>>>| -> Vec<Vec<[F; DG]>> {
                    v.iter().map(|o| o.iter().map(|d| to_arr::<F, DG>(d)).collect()).collect()
                };
                let group_set = |r: &mut CircuitRunner<'_, EF>, ids: &[NonPrimitiveOpId], hiding: bool, q: GroupedSiblings<F>| {
                    if hiding {
                        let salted = |v: Vec<Vec<[F; DG]>>| v.into_iter().map(|o| (vec![], o)).collect::<Vec<_>>();
                        let p = dummy_fri_proof_many::<F, EF, HExt, HVal>(
                            q.into_iter().map(|(i, c)| (salted(arr(i)), salted(arr(c)))).collect(),
                        );
                        set_salted_fri_mmcs_private_data::<F, EF, HExt, HVal, DG>(r, ids, &p, pcfg())
                    } else {
                        let p = dummy_fri_proof_many::<F, EF, Ext, Val>(q.into_iter().map(|(i, c)| (arr(i), arr(c))).collect());
                        set_fri_mmcs_private_data::<F, EF, Ext, Val, H, C, DG>(r, ids, &p, pcfg())
                    }
                };
                let env = MultiEnv { case, perm_cfg: pcfg(), arity4: false, enable: &enable, mode, tier, seed, seq_idx };
                drive_multi::<F, EF>(&env, &make, &group_set)
            }
        }
    };
}

macro_rules! cfg_arity4 {
    ($m:ident, $F:ty, $EF:ty, $Perm:ty, $perm:expr, $W:expr, $RATE:expr, $DG:expr, $pcfg:expr, $enable:expr) => {
        mod $m {
            use super::*;
            pub type F = $F;
            pub type EF = $EF;
            type Perm = $Perm;
            const DG: usize = $DG;
            type H = PaddingFreeSponge<Perm, $W, $RATE, $DG>;
            type C = TruncatedPermutation<Perm, 4, $DG, $W>;
            type P = <F as Field>::Packing;
            type Val = MerkleTreeMmcs<P, P, H, C, 4, $DG>;
            type Ext = ExtensionMmcs<F, EF, Val>;

            fn pcfg() -> PermConfig {
                ($pcfg).into()
            }
            fn sp_base(r: &mut CircuitRunner<'_, EF>, ids: &[NonPrimitiveOpId], s: Vec<[F; DG]>) -> Result<(), &'static str> {
                let p = dummy_fri_proof_input::<F, EF, Ext, Val>(s);
                set_fri_mmcs_private_data_arity4::<F, EF, Ext, Val, DG>(r, ids, &p, pcfg())
            }
            fn sp_ext(r: &mut CircuitRunner<'_, EF>, ids: &[NonPrimitiveOpId], s: Vec<[F; DG]>) -> Result<(), &'static str> {
                let p = dummy_fri_proof_commit::<F, EF, Ext, Val>(s);
                set_fri_mmcs_private_data_arity4::<F, EF, Ext, Val, DG>(r, ids, &p, pcfg())
            }

            pub fn run(shape: &Shape, mode: &Mode, tier: Tier, seed: u64, vec_idx: usize) -> Vec<CaseResult> {
                let perm: Perm = $perm;
                let (h, c) = (H::new(perm.clone()), C::new(perm.clone()));
                let en: fn(&mut CircuitBuilder<EF>, Perm) = $enable;
                let enable = |b: &mut CircuitBuilder<EF>| en(b, perm.clone());
                let env = Env { shape, perm_cfg: pcfg(), arity4: true, enable: &enable, mode, tier, seed, vec_idx };
                let cap = shape.cap_height;
                if shape.ext_leaves {
                    drive::<F, EF, EF, Ext, DG>(Ext::new(Val::new(h, c, cap)), sp_ext, &env)
                } else {
                    drive::<F, EF, F, Val, DG>(Val::new(h, c, cap), sp_base, &env)
                }
            }

            pub fn run_multi(case: &SeqCase, mode: &MultiMode, tier: Tier, seed: u64, seq_idx: usize) -> Vec<CaseResult> {
                let perm: Perm = $perm;
                let en: fn(&mut CircuitBuilder<EF>, Perm) = $enable;
                let enable = |b: &mut CircuitBuilder<EF>| en(b, perm.clone());
                // (the repo wires no hiding arity-4 MMCS in-circuit: `hiding` is never set for these configs)
                let make = |shape: &Shape| -> Box<dyn DynSide<F, EF>> {
                    let (h, c) = (H::new(perm.clone()), C::new(perm.clone()));
                    let cap = shape.cap_height;
                    if shape.ext_leaves {
                        Box::new(Side::<F, EF, EF, Ext, DG>::new(Ext::new(Val::new(h, c, cap)), shape, sp_ext))
                    } else {
                        Box::new(Side::<F, EF, F, Val, DG>::new(Val::new(h, c, cap), shape, sp_base))
                    }
                };
                let arr = |v: Vec<Vec<Vec<F>>>| -> Vec<Vec<[F; DG]>> {
                    v.iter().map(|o| o.iter().map(|d| to_arr::<F, DG>(d)).collect()).collect()
                };
                let group_set = |r: &mut CircuitRunner<'_, EF>, ids: &[NonPrimitiveOpId], _hiding: bool, q: GroupedSiblings<F>| {
                    let p = dummy_fri_proof_many::<F, EF, Ext, Val>(q.into_iter().map(|(i, c)| (arr(i), arr(c))).collect());
                    set_fri_mmcs_private_data_arity4::<F, EF, Ext, Val, DG>(r, ids, &p, pcfg())
                };
                let env = MultiEnv { case, perm_cfg: pcfg(), arity4: true, enable: &enable, mode, tier, seed, seq_idx };
                drive_multi::<F, EF>(&env, &make, &group_set)
            }
        }
    };
}

fn gl_perm<const W: usize>() -> p3_goldilocks::Poseidon2Goldilocks<W> {
    let mut rng = SmallRng::seed_from_u64(1);
    p3_goldilocks::Poseidon2Goldilocks::<W>::new_from_rng_128(&mut rng)
}

type Bb = p3_baby_bear::BabyBear;
type Kb = p3_koala_bear::KoalaBear;
type Gl = p3_goldilocks::Goldilocks;

// ---- arity 2, Poseidon2
cfg_arity2!(
    bb_p2_d4_w16, Bb, BinomialExtensionField<Bb, 4>, p3_baby_bear::Poseidon2BabyBear<16>,
    p3_baby_bear::default_babybear_poseidon2_16(), 16, 8, 8, Poseidon2Config::BABY_BEAR_D4_W16,
    |b, perm| b.enable_poseidon2_perm::<p3_poseidon2_circuit_air::BabyBearD4Width16, _>(
        generate_poseidon2_trace::<EF, p3_poseidon2_circuit_air::BabyBearD4Width16>, perm)
);
cfg_arity2!(
    kb_p2_d4_w16, Kb, BinomialExtensionField<Kb, 4>, p3_koala_bear::Poseidon2KoalaBear<16>,
    p3_koala_bear::default_koalabear_poseidon2_16(), 16, 8, 8, Poseidon2Config::KOALA_BEAR_D4_W16,
    |b, perm| b.enable_poseidon2_perm::<p3_poseidon2_circuit_air::KoalaBearD4Width16, _>(
        generate_poseidon2_trace::<EF, p3_poseidon2_circuit_air::KoalaBearD4Width16>, perm)
);
cfg_arity2!(
    gl_p2_d2_w8, Gl, BinomialExtensionField<Gl, 2>, p3_goldilocks::Poseidon2Goldilocks<8>,
    gl_perm::<8>(), 8, 4, 4, Poseidon2Config::GOLDILOCKS_D2_W8,
    |b, perm| b.enable_poseidon2_perm_width_8::<p3_circuit::ops::GoldilocksD2Width8, _>(
        generate_poseidon2_trace::<EF, p3_circuit::ops::GoldilocksD2Width8>, perm)
);
cfg_arity2!(
    kb_p2_d1_w16_quintic, Kb, QuinticTrinomialExtensionField<Kb>, p3_koala_bear::Poseidon2KoalaBear<16>,
    p3_koala_bear::default_koalabear_poseidon2_16(), 16, 8, 8, Poseidon2Config::KOALA_BEAR_D1_W16,
    |b, perm| b.enable_poseidon2_perm_base::<p3_circuit::ops::KoalaBearD1Width16, _>(
        generate_poseidon2_trace::<EF, p3_circuit::ops::KoalaBearD1Width16>,
        LiftPermToQuintic::<F, Perm, 16>::new(perm))
);
cfg_arity2!(
    bb_p2_d1_w16_base, Bb, Bb, p3_baby_bear::Poseidon2BabyBear<16>,
    p3_baby_bear::default_babybear_poseidon2_16(), 16, 8, 8, Poseidon2Config::BABY_BEAR_D1_W16,
    |b, perm| b.enable_poseidon2_perm_base::<p3_circuit::ops::BabyBearD1Width16, _>(
        generate_poseidon2_trace::<EF, p3_circuit::ops::BabyBearD1Width16>, perm)
);
// ---- arity 2, Poseidon1
cfg_arity2!(
    kb_p1_d1_w16_quintic, Kb, QuinticTrinomialExtensionField<Kb>, p3_koala_bear::Poseidon1KoalaBear<16>,
    p3_koala_bear::default_koalabear_poseidon1_16(), 16, 8, 8, Poseidon1Config::KOALA_BEAR_D1_W16,
    |b, perm| b.enable_poseidon1_perm_base::<p3_circuit::ops::poseidon1_perm::KoalaBearD1Width16, _>(
        generate_poseidon1_trace::<EF, p3_circuit::ops::poseidon1_perm::KoalaBearD1Width16>,
        LiftPermToQuintic::<F, Perm, 16>::new(perm))
);
cfg_arity2!(
    bb_p1_d4_w16, Bb, BinomialExtensionField<Bb, 4>, p3_baby_bear::Poseidon1BabyBear<16>,
    p3_baby_bear::default_babybear_poseidon1_16(), 16, 8, 8, Poseidon1Config::BABY_BEAR_D4_W16,
    |b, perm| b.enable_poseidon1_perm::<p3_circuit::ops::poseidon1_perm::BabyBearD4Width16, _>(
        generate_poseidon1_trace::<EF, p3_circuit::ops::poseidon1_perm::BabyBearD4Width16>, perm)
);
cfg_arity2!(
    kb_p1_d4_w16, Kb, BinomialExtensionField<Kb, 4>, p3_koala_bear::Poseidon1KoalaBear<16>,
    p3_koala_bear::default_koalabear_poseidon1_16(), 16, 8, 8, Poseidon1Config::KOALA_BEAR_D4_W16,
    |b, perm| b.enable_poseidon1_perm::<p3_circuit::ops::poseidon1_perm::KoalaBearD4Width16, _>(
        generate_poseidon1_trace::<EF, p3_circuit::ops::poseidon1_perm::KoalaBearD4Width16>, perm)
);
cfg_arity2!(
    gl_p1_d2_w8, Gl, BinomialExtensionField<Gl, 2>, p3_goldilocks::poseidon1::Poseidon1Goldilocks<8>,
    p3_goldilocks::poseidon1::default_goldilocks_poseidon1_8(), 8, 4, 4, Poseidon1Config::GOLDILOCKS_D2_W8,
    |b, perm| b.enable_poseidon1_perm_width_8::<p3_circuit::ops::poseidon1_perm::GoldilocksD2Width8, _>(
        generate_poseidon1_trace::<EF, p3_circuit::ops::poseidon1_perm::GoldilocksD2Width8>, perm)
);
// ---- arity 4 (wide Poseidon2 only; Poseidon1 has no wide instance)
cfg_arity4!(
    kb_p2_d4_w32, Kb, BinomialExtensionField<Kb, 4>, p3_koala_bear::Poseidon2KoalaBear<32>,
    p3_koala_bear::default_koalabear_poseidon2_32(), 32, 24, 8, Poseidon2Config::KOALA_BEAR_D4_W32,
    |b, perm| b.enable_poseidon2_perm_width_32::<p3_poseidon2_circuit_air::KoalaBearD4Width32, _>(
        generate_poseidon2_trace::<EF, p3_poseidon2_circuit_air::KoalaBearD4Width32>, perm)
);
cfg_arity4!(
    bb_p2_d4_w32, Bb, BinomialExtensionField<Bb, 4>, p3_baby_bear::Poseidon2BabyBear<32>,
    p3_baby_bear::default_babybear_poseidon2_32(), 32, 24, 8, Poseidon2Config::BABY_BEAR_D4_W32,
    |b, perm| b.enable_poseidon2_perm_width_32::<p3_poseidon2_circuit_air::BabyBearD4Width32, _>(
        generate_poseidon2_trace::<EF, p3_poseidon2_circuit_air::BabyBearD4Width32>, perm)
);
cfg_arity4!(
    gl_p2_d2_w16, Gl, BinomialExtensionField<Gl, 2>, p3_goldilocks::Poseidon2Goldilocks<16>,
    gl_perm::<16>(), 16, 12, 4, Poseidon2Config::GOLDILOCKS_D2_W16,
    |b, perm| b.enable_poseidon2_perm::<p3_poseidon2_circuit_air::GoldilocksD2Width16, _>(
        generate_poseidon2_trace::<EF, p3_poseidon2_circuit_air::GoldilocksD2Width16>, perm)
);
cfg_arity4!(
    kb_p2_d1_w32_quintic, Kb, QuinticTrinomialExtensionField<Kb>, p3_koala_bear::Poseidon2KoalaBear<32>,
    p3_koala_bear::default_koalabear_poseidon2_32(), 32, 24, 8, Poseidon2Config::KOALA_BEAR_D1_W32,
    |b, perm| b.enable_poseidon2_perm_base_width_32::<p3_poseidon2_circuit_air::KoalaBearD1Width32, _>(
        generate_poseidon2_trace::<EF, p3_poseidon2_circuit_air::KoalaBearD1Width32>,
        LiftPermToQuintic::<F, Perm, 32>::new(perm))
);

struct ConfigInfo {
    name: &'static str,
    arity4: bool,
    /// sponge rate in base elements
    rate: usize,
    /// extension degree of the circuit field (= words per extension leaf element)
    d: usize,
    run: RunFn,
    run_multi: MultiRunFn,
}

const CONFIGS: &[ConfigInfo] = &[
    ConfigInfo { name: "babybear-poseidon2-d4-w16", arity4: false, rate: 8, d: 4, run: bb_p2_d4_w16::run, run_multi: bb_p2_d4_w16::run_multi },
    ConfigInfo { name: "koalabear-poseidon2-d4-w32-arity4", arity4: true, rate: 24, d: 4, run: kb_p2_d4_w32::run, run_multi: kb_p2_d4_w32::run_multi },
    ConfigInfo { name: "koalabear-poseidon2-d4-w16", arity4: false, rate: 8, d: 4, run: kb_p2_d4_w16::run, run_multi: kb_p2_d4_w16::run_multi },
    ConfigInfo { name: "babybear-poseidon2-d4-w32-arity4", arity4: true, rate: 24, d: 4, run: bb_p2_d4_w32::run, run_multi: bb_p2_d4_w32::run_multi },
    ConfigInfo { name: "goldilocks-poseidon2-d2-w8", arity4: false, rate: 4, d: 2, run: gl_p2_d2_w8::run, run_multi: gl_p2_d2_w8::run_multi },
    ConfigInfo { name: "goldilocks-poseidon2-d2-w16-arity4", arity4: true, rate: 12, d: 2, run: gl_p2_d2_w16::run, run_multi: gl_p2_d2_w16::run_multi },
    ConfigInfo { name: "babybear-poseidon1-d4-w16", arity4: false, rate: 8, d: 4, run: bb_p1_d4_w16::run, run_multi: bb_p1_d4_w16::run_multi },
    ConfigInfo { name: "koalabear-poseidon2-d1-w32-quintic-arity4", arity4: true, rate: 24, d: 5, run: kb_p2_d1_w32_quintic::run, run_multi: kb_p2_d1_w32_quintic::run_multi },
    ConfigInfo { name: "koalabear-poseidon1-d4-w16", arity4: false, rate: 8, d: 4, run: kb_p1_d4_w16::run, run_multi: kb_p1_d4_w16::run_multi },
    ConfigInfo { name: "koalabear-poseidon2-d1-w16-quintic", arity4: false, rate: 8, d: 5, run: kb_p2_d1_w16_quintic::run, run_multi: kb_p2_d1_w16_quintic::run_multi },
    ConfigInfo { name: "goldilocks-poseidon1-d2-w8", arity4: false, rate: 4, d: 2, run: gl_p1_d2_w8::run, run_multi: gl_p1_d2_w8::run_multi },
    ConfigInfo { name: "babybear-poseidon2-d1-w16-basefield", arity4: false, rate: 8, d: 1, run: bb_p2_d1_w16_base::run, run_multi: bb_p2_d1_w16_base::run_multi },
    ConfigInfo { name: "koalabear-poseidon1-d1-w16-quintic", arity4: false, rate: 8, d: 5, run: kb_p1_d1_w16_quintic::run, run_multi: kb_p1_d1_w16_quintic::run_multi },
];

fn config_by_name(name: &str) -> Option<&'static ConfigInfo> {
    CONFIGS.iter().find(|c| c.name == name)
}

// ------------------------------------------------------------------------------------------
// Generator of dimension vectors
// ------------------------------------------------------------------------------------------

fn gen_shape(seed: u64, i: usize) -> Shape {
    let mut rng = case_rng(seed, "c08-shape", i as u64);
    let ci = &CONFIGS[i % CONFIGS.len()];
    // cycle the (hiding, ext) variants with the round number so that each config sees all of them
    let round = i / CONFIGS.len();
    let (hiding, ext_leaves) = if ci.arity4 {
        (false, round % 2 == 1)
    } else {
        (round % 4 >= 2, round % 2 == 1)
    };
    let n = rng.random_range(1..=5usize);
    let style = rng.random_range(0..8u32);
    let mut heights: Vec<usize> = match style {
        0 | 1 => {
            let h = 1usize << rng.random_range(0..=6u32);
            vec![h; n]
        }
        _ => (0..n).map(|_| 1usize << rng.random_range(0..=6u32)).collect(),
    };
    if style == 2 && n >= 3 {
        // mixed + equal
        heights[1] = heights[0];
    }
    if style == 3 {
        // small trees are otherwise rare
        for h in heights.iter_mut() {
            *h = (*h).min(1 << rng.random_range(0..=2u32));
        }
    }
    if style == 4 {
        // non-power-of-two tallest matrix; the others on the native ladder ceil(max / 2^k)
        let max_h = rng.random_range(1..=64usize);
        let log = p3_util::log2_ceil_usize(max_h) as u32;
        for (m, h) in heights.iter_mut().enumerate() {
            let k = if m == 0 { 0 } else { rng.random_range(0..=log) };
            *h = ((max_h - 1) >> k) + 1;
        }
    }
    let wmax = if ext_leaves { 9 } else { 19 };
    let mut widths: Vec<usize> = (0..n).map(|_| rng.random_range(1..=wmax)).collect();
    let leaf_dim = if ext_leaves { ci.d } else { 1 };
    if rng.random_range(0..4u32) == 0 {
        // force rate alignment of every height group if possible
        let hs: BTreeSet<usize> = heights.iter().copied().collect();
        for h in hs {
            let members: Vec<usize> = (0..n).filter(|&m| heights[m] == h).collect();
            let last = *members.last().unwrap();
            let fixed: usize = members
                .iter()
                .filter(|&&m| m != last)
                .map(|&m| widths[m] * leaf_dim + if hiding { SALT } else { 0 })
                .sum();
            if let Some(w) = (1..=wmax).find(|w| (fixed + w * leaf_dim + if hiding { SALT } else { 0 }) % ci.rate == 0) {
                widths[last] = w;
            }
        }
    }
    let max_h = *heights.iter().max().unwrap();
    let log = p3_util::log2_ceil_usize(max_h);
    let cap_height = rng.random_range(0..=log.min(3));
    Shape {
        config: ci.name.to_string(),
        dims: heights.into_iter().zip(widths).collect(),
        cap_height,
        hiding,
        ext_leaves,
        mat_seed: rng.random::<u64>(),
    }
}

fn run_shape(shape: &Shape, mode: &Mode, tier: Tier, seed: u64, vec_idx: usize) -> Vec<CaseResult> {
    match config_by_name(&shape.config) {
        Some(ci) => (ci.run)(shape, mode, tier, seed, vec_idx),
        None => vec![CaseResult::inconclusive("unknown-config", format!("unknown config {}", shape.config))],
    }
}

// ------------------------------------------------------------------------------------------
// Generator of multi-opening sequences
// ------------------------------------------------------------------------------------------

/// Random composition of `total` into `parts` positive summands.
fn compose(rng: &mut SmallRng, total: usize, parts: usize) -> Vec<usize> {
    let mut v = vec![1usize; parts];
    for _ in parts..total {
        let p = rng.random_range(0..parts);
        v[p] += 1;
    }
    v
}

/// One committed batch of a sequence. `want_wide` steers the leaf-layer group (the matrices of the
/// tallest height) above / below one sponge rate block; shorter (injected) matrices get a random
/// narrow or wide row.
fn gen_commit(rng: &mut SmallRng, ci: &ConfigInfo, hiding: bool, ext_leaves: bool, want_wide: bool) -> Shape {
    let leaf_dim = if ext_leaves { ci.d } else { 1 };
    let salt = if hiding { SALT } else { 0 };
    let n = *pick(rng, &[1usize, 1, 2, 2, 3]);
    let log_max = *pick(rng, &[0u32, 1, 2, 2, 3, 3, 4, 4, 5, 6]);
    let style = rng.random_range(0..10u32);
    let mut heights: Vec<usize> = if style < 3 {
        vec![1usize << log_max; n]
    } else if style < 8 {
        (0..n).map(|m| if m == 0 { 1usize << log_max } else { 1usize << rng.random_range(0..=log_max) }).collect()
    } else {
        // non-power-of-two tallest matrix, the others on the native ladder ceil(max / 2^k)
        let lo = if log_max == 0 { 1 } else { (1usize << (log_max - 1)) + 1 };
        let max_h = rng.random_range(lo..=(1usize << log_max));
        let log = p3_util::log2_ceil_usize(max_h) as u32;
        (0..n)
            .map(|m| {
                let k = if m == 0 { 0 } else { rng.random_range(0..=log) };
                ((max_h - 1) >> k) + 1
            })
            .collect()
    };
    let r = rng.random_range(0..n);
    heights.rotate_left(r); // the tallest matrix is not always matrix 0
    let max_h = *heights.iter().max().unwrap();
    let members: Vec<usize> = (0..n).filter(|&m| heights[m] == max_h).collect();
    let g = members.len();
    let aligned = chance(rng, 1, 4);
    let total_words = match (want_wide, aligned) {
        (true, true) => ci.rate * rng.random_range(2..=3usize),
        (true, false) => rng.random_range(ci.rate + 1..=3 * ci.rate + 5),
        (false, true) => ci.rate,
        (false, false) => rng.random_range(1..=ci.rate),
    };
    let data = total_words.saturating_sub(g * salt);
    let total_el = if want_wide { data.div_ceil(leaf_dim) } else { data / leaf_dim }.max(g);
    let mut widths = vec![0usize; n];
    for (m, w) in members.iter().zip(compose(rng, total_el, g)) {
        widths[*m] = w;
    }
    for w in widths.iter_mut().filter(|w| **w == 0) {
        *w = if chance(rng, 3, 10) {
            (ci.rate + 1 + rng.random_range(0..ci.rate)).div_ceil(leaf_dim)
        } else {
            rng.random_range(1..=(ci.rate / leaf_dim).max(1))
        };
    }
    let log = p3_util::log2_ceil_usize(max_h);
    let cap_height = if chance(rng, 1, 2) { 0 } else { rng.random_range(0..=log.min(3)) };
    let mut shape = Shape {
        config: ci.name.to_string(),
        dims: heights.into_iter().zip(widths).collect(),
        cap_height,
        hiding,
        ext_leaves,
        mat_seed: rng.random::<u64>(),
    };
    if known_arity4_cap_layer_w2(ci.arity4, &shape) {
        shape.cap_height = if chance(rng, 1, 2) { 0 } else { 2 };
    }
    shape
}

fn gen_seq(seed: u64, i: usize) -> SeqCase {
    let mut rng = case_rng(seed, "c08-multi", i as u64);
    let ci = &CONFIGS[i % CONFIGS.len()];
    let round = i / CONFIGS.len();
    let n_open = match rng.random_range(0..20u32) {
        0..9 => 2usize,
        9..16 => 3,
        _ => 4,
    };
    // which commitment each opening belongs to
    let assign: Vec<usize> = match round % 3 {
        0 => vec![0; n_open],
        1 => (0..n_open).collect(),
        _ => {
            let nc = if n_open == 4 && chance(&mut rng, 1, 2) { 3 } else { 2 };
            let mut a: Vec<usize> = (0..n_open).map(|j| if j < nc { j } else { rng.random_range(0..nc) }).collect();
            if n_open >= 3 && chance(&mut rng, 1, 2) {
                a.swap(1, n_open - 1); // e.g. [0,1,0] -> [0,0,1]
            }
            a
        }
    };
    let n_commits = assign.iter().max().unwrap() + 1;
    // hiding flavour of the commitments (arity 2 only): all plain / all hiding / mixed
    let hiding_mode = if ci.arity4 { 0 } else { (round / 3) % 3 };
    let commits: Vec<Shape> = (0..n_commits)
        .map(|_| {
            let hiding = match hiding_mode {
                0 => false,
                1 => true,
                _ => chance(&mut rng, 1, 2),
            };
            let ext = chance(&mut rng, 1, 2);
            let wide = chance(&mut rng, 3, 5);
            gen_commit(&mut rng, ci, hiding, ext, wide)
        })
        .collect();
    let mut openings: Vec<(usize, usize)> = vec![];
    for &c in &assign {
        let max_h = max_height(&commits[c]);
        let mut index = 0;
        for _ in 0..4 {
            index = match rng.random_range(0..4u32) {
                0 => 0,
                1 => max_h - 1,
                _ => rng.random_range(0..max_h),
            };
            if !openings.contains(&(c, index)) {
                break;
            }
        }
        openings.push((c, index));
    }
    let share_cap = n_commits < n_open && chance(&mut rng, 1, 3);
    let grouped_private_data = rng.random_range(0..3u32) as u8;
    SeqCase { config: ci.name.to_string(), commits, openings, share_cap, grouped_private_data }
}

fn run_seq_case(case: &SeqCase, mode: &MultiMode, tier: Tier, seed: u64, seq_idx: usize) -> Vec<CaseResult> {
    match config_by_name(&case.config) {
        Some(ci) => (ci.run_multi)(case, mode, tier, seed, seq_idx),
        None => vec![CaseResult::inconclusive("unknown-config", format!("unknown config {}", case.config))],
    }
}

/// Move the per-(config, sequence class) counters (`mo|config|class|name`) and the samples of the
/// multi-opening results into a table of their own (evidence: `coverage.multi_opening`).
fn split_multi_tables(
    results: &mut [CaseResult],
    table: &mut BTreeMap<String, BTreeMap<String, BTreeMap<String, u64>>>,
    samples: &mut Vec<Value>,
) {
    for r in results.iter_mut() {
        let mut keep = vec![];
        for (name, v) in std::mem::take(&mut r.counters) {
            match name.strip_prefix("mo|") {
                Some(rest) => {
                    let p: Vec<&str> = rest.splitn(3, '|').collect();
                    if p.len() == 3 {
                        *table.entry(p[0].into()).or_default().entry(p[1].into()).or_default().entry(p[2].into()).or_default() += v;
                    }
                }
                None => keep.push((name, v)),
            }
        }
        r.counters = keep;
        if let Some(s) = r.sample.take() {
            if samples.len() < 6 {
                samples.push(s);
            }
        }
    }
}

fn main() {
    let args = parse_args();
    let mut rep = Report::new(
        "C08",
        "fault_enumeration",
        &args,
        "case = (config, dimension vector, cap height, hiding, leaf field, index, single alteration) with the \
         native verdict (p3_merkle_tree verify_batch) compared with the circuit verdict (CircuitRunner::run \
         Ok/Err) on the SAME altered opening; non-trivial = the honest opening at that index was accepted by \
         both sides first; distinct by (config, dims, cap, hiding, leaf field, index class \
         first/last/mid0..3, alteration kind). Second workload (multi-opening): case = (config, sequence of \
         2-4 openings of 1-4 commitments verified in ONE circuit, position of the single altered opening, \
         alteration); the circuit verdict is compared with the conjunction of the native verdicts of all \
         openings; non-trivial = the all-honest sequence was accepted by both sides first; distinct by \
         (config, commitments' dims/cap/hiding/leaf field, opening order and index classes, cap sharing, \
         position class first/middle/last, alteration kind)",
    );
    rep.assume("p3_merkle_tree::{MerkleTreeMmcs, MerkleTreeHidingMmcs} and p3_commit::ExtensionMmcs verify_batch is the reference verdict");
    rep.assume("index bits are boolean (the FRI verifier derives them by bit decomposition); opened base-field leaves are base-field values");
    rep.assume("index_bits.len() == log2(max height) as documented by verify_batch_circuit");

    if let Some(p) = &args.replay {
        let v: Value = serde_json::from_str(&std::fs::read_to_string(p).expect("replay file")).expect("json");
        let d = if v.get("detail").is_some() { &v["detail"] } else { &v };
        if d.get("multi").is_some() {
            let case: SeqCase = serde_json::from_value(d["multi"].clone()).expect("multi case");
            let alt: Alt = serde_json::from_value(d["alt"].clone()).unwrap_or(Alt::Honest);
            let pos = d["alt_pos"].as_u64().unwrap_or(0) as usize;
            let rs = run_seq_case(&case, &MultiMode::Replay { pos, alt }, args.tier, args.seed, 0);
            for r in &rs {
                println!("replay: key={} verdict={:?}", r.key, r.verdict);
            }
            rep.add_all(rs);
            rep.finish(0);
        }
        let shape: Shape = serde_json::from_value(d["shape"].clone()).expect("shape");
        let index = d["index"].as_u64().unwrap_or(0) as usize;
        let alt: Alt = serde_json::from_value(d["alt"].clone()).unwrap_or(Alt::Honest);
        let mode = Mode::Replay { index, alt };
        let rs = run_shape(&shape, &mode, args.tier, args.seed, 0);
        for r in &rs {
            println!("replay: key={} verdict={:?}", r.key, r.verdict);
        }
        rep.add_all(rs);
        rep.finish(0);
    }
    if let Some(s) = args.extra.get("shape") {
        // explicit shape (all indices, all alteration kinds) — for minimising reproducers by hand
        let shape: Shape = serde_json::from_str(s).expect("--shape json");
        let rs = run_shape(&shape, &Mode::Explore, args.tier, args.seed, 0);
        rep.add_all(rs);
        rep.finish(0);
    }

    if let Some(s) = args.extra.get("seq") {
        // explicit multi-opening sequence (all positions of the tier, all alteration kinds)
        let case: SeqCase = serde_json::from_str(s).expect("--seq json");
        let rs = run_seq_case(&case, &MultiMode::Explore, args.tier, args.seed, 0);
        rep.add_all(rs);
        rep.finish(0);
    }

    // --workload single|multi|all (default all): which of the two workloads to run
    let workload = args.extra.get("workload").map(String::as_str).unwrap_or("all").to_string();
    let n = args.tier.pick(QUICK_N, THOROUGH_N);
    let n = args.extra.get("n").and_then(|s| s.parse().ok()).unwrap_or(n);
    let n = if workload == "multi" { 0 } else { n };
    let (seed, tier) = (args.seed, args.tier);
    let from: usize = args.extra.get("from").and_then(|s| s.parse().ok()).unwrap_or(0);
    // chunked so that the per-case result strings of a long run are not all held in memory
    let mut done = 0;
    while done < n {
        let m = (n - done).min(2048);
        let base = from + done;
        let results = run_cases(m, args.threads, |i| {
            let shape = gen_shape(seed, i + base);
            run_shape(&shape, &Mode::Explore, tier, seed, i + base)
        });
        rep.add_all(results);
        done += m;
    }
    // ---- multi-opening workload
    let n_multi = args.tier.pick(QUICK_MULTI_N, THOROUGH_MULTI_N);
    let n_multi = args.extra.get("multi-n").and_then(|s| s.parse().ok()).unwrap_or(n_multi);
    let n_multi = if workload == "single" { 0 } else { n_multi };
    let multi_from: usize = args.extra.get("multi-from").and_then(|s| s.parse().ok()).unwrap_or(0);
    let mut table: BTreeMap<String, BTreeMap<String, BTreeMap<String, u64>>> = BTreeMap::new();
    let mut multi_samples: Vec<Value> = vec![];
    let mut done = 0;
    while done < n_multi {
        let m = (n_multi - done).min(2048);
        let base = multi_from + done;
        let mut results = run_cases(m, args.threads, |i| {
            let case = gen_seq(seed, i + base);
            run_seq_case(&case, &MultiMode::Explore, tier, seed, i + base)
        });
        split_multi_tables(&mut results, &mut table, &mut multi_samples);
        rep.add_all(results);
        done += m;
    }
    if n_multi > 0 {
        rep.set_extra(
            "multi_opening",
            json!({"sequences_generated": n_multi, "per_config_and_sequence_class": table, "samples": multi_samples}),
        );
    }
    for (set, item) in OBS.lock().unwrap().iter() {
        rep.observe(set, item.clone());
    }
    let min = if workload == "all" { args.tier.pick(QUICK_MIN, THOROUGH_MIN) } else { 0 };
    rep.finish(min);
}

const QUICK_N: usize = 2600;
const THOROUGH_N: usize = 120_000;
const QUICK_MULTI_N: usize = 6500;
const THOROUGH_MULTI_N: usize = 240_000;
const QUICK_MIN: usize = 30_000;
const THOROUGH_MIN: usize = 1_000_000;
